"""C14 — NSTART=1: one open CON exchange per endpoint, FIFO backlog released in the instant the
predecessor ends, held-back requests failed when the head fails, NON / other endpoints undelayed."""

import random

ID = "C14"
LEVEL = "exploration"
TECHNIQUE = "runtime monitoring on a virtual-time simulated network: bursts of CON/NON requests to several raw endpoints with scripted ACK / Reset / silence / ICMP-error reactions; oracle = per-endpoint queue model stepped over the wire log (first transmissions, exchange-ending events) and the request completion records"
LEVEL_TEXT = "Each generated burst (2-8 messages, 1-3 endpoints, every reaction kind at several delays) is run against the real MessageManager; predicted first-transmission instants, exchange intervals, FIFO order and completion of every request are compared with the recorded history."
LEVEL_NOTE = "Trusted: harness/simnet.py wire log and virtual clock, the queue model in checks/c14.py. Submission order is recorded at the MessageManager.send_message boundary (instance wrapper installed from the harness). Peers never answer with a separate response while the exchange is still unacknowledged."
RULE = (
    "one case = one burst: messages (submit offset, endpoint, CON/NON, reaction in {piggyback, empty ACK + separate response, ACK with a foreign response + separate response, Reset, synchronous send failure at the first retransmission, synchronous refusal of the message's very first transmission (also when its turn comes out of the backlog), a message that cannot be serialised (from the start, or only by the time its turn comes), a message interface whose send() raises for the message, silence, ICMP error} with delay class). "
    "Non-trivial = at least one message was held back behind another exchange; distinct = distinct tuples of (endpoint, type, reaction, delay class, offset class)"
)
ASSUMPTIONS = ["default TransportTuning (MAX_RETRANSMIT 4) for all requests", "one-way latency 1 ms"]
REQUIRED_MONITORS = {"first_tx_time": 300, "no_overlap": 300, "fifo": 100, "held_back_failed_with_head": 20, "non_not_delayed": 50, "other_endpoint_not_delayed": 50, "all_completed": 100, "backlog_invariant": 200, "unserialisable": 30, "unserialisable_in_queue": 10, "refused_first_in_queue": 10, "became_unserialisable_while_waiting": 10, "send_raises": 30, "send_raises_in_queue": 10}

REACTIONS = ["piggy", "empty+sep", "foreign-ack+sep", "rst", "silent", "icmp", "unreach-at-retx", "refused-first", "unserialisable", "unserialisable-later", "send-raises"]
DELAYS = {"now": 0.0, "short": 0.3, "after-retx": 3.5}
LATER = 0.0005  # an "unserialisable-later" message becomes unserialisable this long after it was handed in
OFFSETS = [0.0, 0.0, 0.0, 0.0, 0.01, 1.0, 5.0, 120.0]  # 120 s: after an unanswered exchange ahead has timed out


def plan(tier, seed):
    n = 16
    per = {"quick": 60, "thorough": 5000}[tier]
    return [{"name": "c14-%d" % i, "seed": seed * 1000 + i, "index": i, "of": n, "n": per, "tier": tier} for i in range(n)]


def gen_burst(r):
    neps = r.choice([1, 1, 2, 3])
    n = r.randrange(2, 9)
    msgs = []
    t = 0.0
    for i in range(n):
        t += r.choice(OFFSETS)
        typ = "CON" if r.random() < 0.8 else "NON"
        reaction = r.choice(REACTIONS if typ == "CON" else ["piggy", "silent", "refused-first"])
        # keep silence / icmp rarer: they end everything queued behind them
        if reaction in ("silent", "icmp", "unreach-at-retx", "refused-first") and r.random() < 0.5:
            reaction = "piggy"
        msgs.append({"i": i, "t": t, "ep": r.randrange(neps), "type": typ, "reaction": reaction, "delay": r.choice(list(DELAYS)) if reaction != "unserialisable-later" else "now"})
    return neps, msgs


def run_burst(neps, msgs, seed, rep, case):
    from harness import scenario, simnet, refcodec as rc
    import asyncio
    import aiocoap
    from aiocoap import error

    EPS = [("10.0.0.1", 5683), ("10.0.0.1", 5684), ("10.0.0.3", 5683)][:neps]
    box = {}

    async def main(loop):
        net = simnet.SimNet(loop)
        C = simnet.addr("10.0.0.2", 40001)
        handled = set()

        def on_msg(peer, src, m, raw):
            if m is None or not rc.is_request(m.code):
                return
            path = rc.opt1(m, 11)
            if path is None or (peer.addr, m.mid) in handled:
                return
            handled.add((peer.addr, m.mid))
            spec = msgs[int(path.decode()[1:])]
            d = DELAYS[spec["delay"]]
            kind = spec["reaction"]
            if kind == "silent":
                return
            if m.type == rc.NON:
                loop.call_later(d, peer.send, src, rc.Msg(rc.NON, rc.c(2, 5), peer.next_mid(), m.token, (), b"non-%d" % spec["i"]))
                return
            if kind in ("piggy", "unserialisable-later"):
                loop.call_later(d, peer.send, src, rc.Msg(rc.ACK, rc.c(2, 5), m.mid, m.token, (), b"piggy-%d" % spec["i"]))
            elif kind == "empty+sep":
                loop.call_later(d, peer.send, src, rc.Msg(rc.ACK, 0, m.mid, b"", (), b""))
                loop.call_later(d + 0.7, peer.send, src, rc.Msg(rc.NON, rc.c(2, 5), peer.next_mid(), m.token, (), b"sep-%d" % spec["i"]))
            elif kind == "foreign-ack+sep":
                # the acknowledgement carries a response the client has no use for (a token it does not know): it
                # acknowledges the message all the same; the real response follows separately
                loop.call_later(d, peer.send, src, rc.Msg(rc.ACK, rc.c(2, 5), m.mid, b"\xf0\x0f" + bytes([spec["i"]]), (), b"foreign-%d" % spec["i"]))
                loop.call_later(d + 0.7, peer.send, src, rc.Msg(rc.NON, rc.c(2, 5), peer.next_mid(), m.token, (), b"sep-%d" % spec["i"]))
            elif kind == "rst":
                loop.call_later(d, peer.send, src, rc.Msg(rc.RST, 0, m.mid, b"", (), b""))
            elif kind == "icmp":
                net.inject_error(C, peer.addr, 111, delay=d)
            elif kind == "unreach-at-retx":
                # the peer stays silent and drops off the network: the operating system refuses the first
                # retransmission right in the send call (synchronous failure), later the route is back
                def off():
                    net.unreachable[peer.addr] = 101

                def on():
                    net.unreachable.pop(peer.addr, None)

                loop.call_later(0.5, off)
                loop.call_later(3.4, on)

        def refuse(src, dst, data):
            # the operating system refuses this one datagram in the send call (EMSGSIZE and the like)
            try:
                m = rc.parse(data)
                path = rc.opt1(m, 11)
                if rc.is_request(m.code) and path is not None and msgs[int(path.decode()[1:])]["reaction"] == "refused-first":
                    return 90
            except Exception:
                pass
            return None

        net.refuse.append(refuse)
        peers = [simnet.RawPeer(net, ip, port, on_msg) for ip, port in EPS]
        cli = await simnet.make_context(net, "10.0.0.2", 40001, None, server=False)
        # boundary recorder: submission order at MessageManager.send_message
        submissions = []
        mman = cli.request_interfaces[0].token_interface
        orig = mman.send_message

        def send_message(message, monitor):
            rec = {"seq": len(submissions), "t": loop.time(), "path": None, "mark": len(net.log)}
            submissions.append(rec)
            try:
                return orig(message, monitor)
            finally:
                rec.update(mid=message.mid, mtype=int(message.mtype) if message.mtype is not None else None, token=bytes(message.token), remote=(message.remote.sockaddr[0], message.remote.sockaddr[1]), path=message.opt.uri_path)

        mman.send_message = send_message
        # fault injection at the message interface boundary: a transport whose send() raises for a message (udp6
        # reports its errors through error_received instead; other message interfaces do raise)
        iface = mman.message_interface
        orig_send = iface.send

        def send(message):
            try:
                k = int(message.opt.uri_path[0][1:]) if message.code.is_request() and message.opt.uri_path else None
            except ValueError:
                k = None
            if k is not None and msgs[k]["reaction"] == "send-raises":
                raise OSError(90, "message interface refuses this message (injected)")
            return orig_send(message)

        iface.send = send
        inv = {"n": 0, "bad": None}

        def invariant():
            b = getattr(mman, "_backlogs", None)
            a = getattr(mman, "_active_exchanges", None)
            if b is None or a is None:
                return
            inv["n"] += 1
            if set(b) != {r for (r, mid) in a} and inv["bad"] is None:
                inv["bad"] = (loop.time(), repr(set(b)), repr(set(a)))

        net.after_delivery.append(invariant)
        reqs = []
        t_now = 0.0
        for spec in msgs:
            if spec["t"] > t_now:
                await asyncio.sleep(spec["t"] - t_now)
                t_now = spec["t"]
            ip, port = EPS[spec["ep"]]
            m = aiocoap.Message(code=aiocoap.GET, uri="coap://%s:%d/k%d" % (ip, port, spec["i"]), transport_tuning=aiocoap.Reliable() if spec["type"] == "CON" else aiocoap.Unreliable())
            if spec["reaction"] == "unserialisable":
                # an application mistake that only shows when the message is serialised, which for a held-back
                # message is long after it was handed in
                m.payload = "text, not bytes"
            r_ = cli.request(m, handle_blockwise=False)
            if spec["reaction"] == "unserialisable-later":
                # the application goes on using its Message object while the message is (possibly) still waiting for
                # its turn, and leaves it in a state that cannot be serialised
                loop.call_later(LATER, lambda m=m: setattr(m, "payload", "text, not bytes"))
            rec = {"spec": spec, "t_call": loop.time(), "done": None}
            r_.response.add_done_callback(lambda f, rec=rec: rec.update(done=(loop.time(), f.exception() if not f.cancelled() else "cancelled", bytes(f.result().payload) if not f.cancelled() and f.exception() is None else None)))
            reqs.append((r_, rec))
        await asyncio.sleep(400.0)
        box.update(net=net, C=C, submissions=submissions, reqs=[rec for _, rec in reqs], inv=inv, EPS=[simnet.addr(*e) for e in EPS])
        await cli.shutdown()
        return True

    res = scenario.run(main, seed, horizon=1e5)
    if not res.ok:
        if res.horizon:
            rep.inconc("horizon")
        else:
            rep.violation("scenario-failed", "burst did not run to completion: hang=%r error=%r" % (res.hang, res.error), {"msgs": repr(msgs)}, case)
        return
    judge(box, msgs, res, rep, case)


def judge(box, msgs, res, rep, case):
    from harness import refcodec as rc
    from aiocoap import error

    net, C, subs, reqs, EPS = box["net"], box["C"], box["submissions"], box["reqs"], box["EPS"]
    for rq in reqs:
        # ended only by the harness shutting the context down at the end of the run: never completed
        if rq["done"] is not None and isinstance(rq["done"][1], error.LibraryShutdown):
            rq["done"] = None
    wit = lambda **kw: dict(msgs=repr(msgs), submissions=[(s["seq"], round(s["t"], 6), s.get("mid"), s.get("mtype"), s.get("remote"), s.get("path")) for s in subs], wire=net.dump(80), **kw)
    # map submission -> spec via path
    for s in subs:
        try:
            s["spec"] = msgs[int(s["path"][0][1:])]
        except Exception:
            rep.inconc("submission record without path: %r" % (s,))
            return
    if len(subs) != len(msgs):
        rep.inconc("recorded %d submissions for %d requests" % (len(subs), len(msgs)))
        return
    # first transmissions and retransmission gaps per (dst, mid)
    first_tx = {}
    first_tx_seq = {}
    txs = {}
    for e in net.log:
        # (a send the operating system refuses on the spot is a transmission attempt like any other)
        if e.kind in ("send", "senderror") and e.src == C and e.msg is not None and rc.is_request(e.msg.code):
            k = (e.dst, e.msg.mid)
            first_tx.setdefault(k, e.t)
            first_tx_seq.setdefault(k, e.seq)
            txs.setdefault(k, []).append(e.t)
    done_by_i = {rq["spec"]["i"]: rq["done"] for rq in reqs}
    held_back = 0
    for ep in EPS:
        mine = [s for s in subs if s["remote"] == ep]
        cons = [s for s in mine if s["mtype"] == rc.CON]
        # ---- NON never delayed ----
        for s in mine:
            if s["mtype"] == rc.NON:
                rep.monitor("non_not_delayed")
                o = first_tx.get((ep, s["mid"]))
                if o is None or abs(o - s["t"]) > 1e-9:
                    rep.violation("non-delayed", "a non-confirmable message was not transmitted in the instant it was submitted", wit(submission=s["seq"], observed=o), case)
        # ---- queue model ----
        free_at = -1.0  # instant the endpoint became free (previous exchange ended by ACK/RST)
        fail_at = None  # instant the head exchange failed (timeout / transport error): everything queued then fails with it
        fail_seq = None  # wire-log position of the failing event (decides about submissions in the same instant)
        prev_open = False
        intervals = []
        order_tx = []
        for s in cons:
            key = (ep, s["mid"])
            o = first_tx.get(key)
            ts = s["t"]
            i = s["spec"]["i"]
            if fail_at is not None and (ts < fail_at - 1e-12 or (abs(ts - fail_at) <= 1e-12 and fail_seq is not None and s["mark"] <= fail_seq)):
                # was waiting when the exchange ahead failed
                rep.monitor("held_back_failed_with_head")
                held_back += 1
                if s["spec"]["reaction"] in ("unserialisable", "unserialisable-later", "send-raises"):
                    # may be refused as early as it is handed in; at the latest it goes down with the rest
                    d = done_by_i.get(i)
                    if o is not None:
                        rep.violation("unserialisable-transmitted", "a message that cannot be serialised appeared on the wire", wit(submission=s["seq"]), case)
                    elif d is None:
                        rep.violation("held-back-forgotten/unserialisable", "a held-back message that could not be serialised was dropped without its request being failed", wit(submission=s["seq"], fail_at=fail_at), case)
                    elif d[1] is None or d[0] < ts - 1e-9 or d[0] > fail_at + 1e-6:
                        rep.violation("unserialisable-wrong-failure", "the request of a message that cannot be serialised did not fail between its submission and the failure of the exchange ahead", wit(submission=s["seq"], done=repr(d), fail_at=fail_at), case)
                    continue
                if o is not None:
                    rep.violation("held-back-transmitted-after-head-failed", "a held-back message was transmitted although the exchange ahead of it had failed (its request is to be failed instead)", wit(submission=s["seq"], observed=o, fail_at=fail_at), case)
                d = done_by_i.get(i)
                if d is None:
                    rep.violation("held-back-forgotten", "a held-back request was neither transmitted nor failed when the exchange ahead of it failed", wit(submission=s["seq"], fail_at=fail_at), case)
                elif not isinstance(d[1], error.Error) or abs(d[0] - fail_at) > 1e-6:
                    rep.violation("held-back-wrong-failure", "a held-back request did not fail with a library error in the instant the exchange ahead of it failed", wit(submission=s["seq"], done=repr(d), fail_at=fail_at), case)
                continue
            fail_at = fail_seq = None
            predicted = max(ts, free_at)
            if predicted > ts + 1e-12:
                held_back += 1
            if s["spec"]["reaction"] == "unserialisable-later" and predicted > ts + LATER:
                rep.monitor("became_unserialisable_while_waiting")
                if o is not None:
                    # (sent as it was when it was handed in: what the application does to its object afterwards
                    # need not reach the message that waits; judged like any other message below)
                    rep.count("changed_after_hand_in_sent_as_handed_in")
            if s["spec"]["reaction"] == "send-raises":
                rep.monitor("send_raises", 1)
                rep.monitor("send_raises_in_queue", 1 if predicted > ts + 1e-12 else 0)
            if s["spec"]["reaction"] in ("unserialisable", "send-raises") or (s["spec"]["reaction"] == "unserialisable-later" and predicted > ts + LATER and o is None):
                # never reaches the wire: its request fails (with whatever the serialiser raised) when it is handed in
                # or at the latest in the instant its turn comes, and the endpoint is as free as before
                rep.monitor("unserialisable_in_queue", 1 if predicted > ts + 1e-12 else 0)
                rep.monitor("unserialisable")
                d = done_by_i.get(i)
                if o is not None:
                    rep.violation("unserialisable-transmitted", "a message that cannot be serialised appeared on the wire", wit(submission=s["seq"]), case)
                elif d is None:
                    rep.violation("held-back-forgotten/unserialisable", "a held-back message that could not be serialised when its turn came was dropped without its request being failed", wit(submission=s["seq"], predicted=predicted), case)
                elif d[1] is None or d[0] < ts - 1e-9 or d[0] > predicted + 1e-6:
                    # (refused when it is handed in, or at the latest in the instant its turn comes)
                    rep.violation("unserialisable-wrong-failure", "the request of a message that cannot be serialised did not fail between its submission and the instant its turn came", wit(submission=s["seq"], done=repr(d), predicted=predicted), case)
                continue
            rep.monitor("first_tx_time")
            if s["spec"]["reaction"] == "refused-first" and predicted > ts + 1e-12:
                rep.monitor("refused_first_in_queue")
            if o is None:
                rep.violation("never-transmitted", "a confirmable message was never transmitted although nothing ahead of it failed", wit(submission=s["seq"], predicted=predicted), case)
                return
            if abs(o - predicted) > 1e-9:
                rep.violation("released-at-wrong-instant/%s" % ("late" if o > predicted else "early"), "a confirmable message was first transmitted at another instant than (submission, or the end of the previous exchange with that endpoint)", wit(submission=s["seq"], observed=o, predicted=predicted), case)
            order_tx.append((o, s["seq"]))
            # ---- how did this exchange end? ----
            end, how, end_seq = None, None, None
            for e in net.log:
                if e.t < o - 1e-12 or e.seq < first_tx_seq.get(key, 0):
                    continue
                if e.kind == "deliver" and e.src == ep and e.dst == C and e.msg is not None and e.msg.mid == s["mid"] and e.msg.type in (rc.ACK, rc.RST):
                    end, how = e.t, "ack" if e.msg.type == rc.ACK else "rst"
                    break
                if e.kind == "error" and e.src == ep and e.dst == C:
                    end, how, end_seq = e.t, "error", e.seq
                    break
                if e.kind == "senderror" and e.src == C and e.dst == ep:
                    end, how, end_seq = e.t, "error", e.seq
                    break
            tl = txs[key]
            gaps = [b - a for a, b in zip(tl, tl[1:])]
            if gaps:
                giveup = o + gaps[0] * 31
            else:
                giveup = None
            if end is None or (giveup is not None and giveup < end):
                d = done_by_i.get(i)
                if d is None:
                    rep.violation("unacknowledged-request-never-fails", "a confirmable request that was never acknowledged did not fail", wit(submission=s["seq"]), case)
                    return
                end, how, end_seq = d[0], "timeout", None
            intervals.append((o, end, s["seq"], how))
            if how in ("ack", "rst"):
                free_at = end
            else:
                fail_at, fail_seq = end, end_seq
                free_at = end
        # ---- at most one open exchange ----
        rep.monitor("no_overlap")
        for a, b in zip(intervals, intervals[1:]):
            if b[0] < a[1] - 1e-9:
                rep.violation("two-open-exchanges", "two confirmable messages to one endpoint were awaiting acknowledgement at the same time", wit(first=a, second=b), case)
        # ---- FIFO ----
        rep.monitor("fifo")
        if [q for _, q in sorted(order_tx)] != [q for _, q in order_tx]:
            rep.violation("not-fifo", "held-back messages were transmitted in another order than they were submitted", wit(order=order_tx), case)
        # ---- other endpoints never delayed: covered by predicted = max(ts, free_at of *this* endpoint) ----
        if len(EPS) > 1:
            rep.monitor("other_endpoint_not_delayed")
    # ---- completion ----
    rep.monitor("all_completed")
    for rq in reqs:
        spec = rq["spec"]
        if spec["type"] == "NON" and spec["reaction"] == "silent":
            continue
        if rq["done"] is None:
            rep.violation("request-never-completed", "a request neither completed nor failed by the end of the run", wit(spec=spec), case)
        elif rq["done"][1] is not None and not isinstance(rq["done"][1], error.Error) and spec["reaction"] not in ("unserialisable", "unserialisable-later", "send-raises"):
            rep.violation("request-failed-with-non-library-error", "a request failed with an exception outside the library's error hierarchy", wit(spec=spec, exc=repr(rq["done"][1])), case)
    inv = box["inv"]
    rep.monitor("backlog_invariant", inv["n"])
    if inv["bad"]:
        rep.violation("backlog-invariant", "backlog keys and active-exchange remotes disagree at a quiescent point", wit(bad=inv["bad"]), case)
    if res.loop_exceptions:
        rep.violation("loop-exception/" + str(res.loop_exceptions[0].get("exc_type")), "an exception reached the event loop", wit(loop=res.loop_exceptions[:2]), case)
    shape = tuple((m["ep"], m["type"], m["reaction"], m["delay"], 0 if m["t"] == 0 else 1) for m in msgs)
    rep.case(shape, nontrivial=held_back > 0)


def run_shard(shard, rep, only=None):
    from harness import vloop

    vloop.install_time()
    import aiocoap  # noqa

    r = random.Random(shard["seed"])
    for i in range(shard["n"]):
        neps, msgs = gen_burst(r)
        case = ["burst", i]
        if only is not None and only != case:
            continue
        run_burst(neps, msgs, shard["seed"] * 65537 + i, rep, case)
        if i < 1 and shard["index"] == 0:
            rep.sample({"class": "burst", "endpoints": neps, "messages": msgs})
