"""C18 — shutdown at any moment fails pending work and leaves nothing running.

Fault enumeration: a busy scenario is first run without shutdown to collect its distinct event
instants; it is then replayed from the same seed once per instant (just before and just after it)
with Context.shutdown() injected there, and run on for 500 virtual seconds."""

import random

ID = "C18"
LEVEL = "fault_enumeration"
TECHNIQUE = "fault enumeration on a virtual-time simulated network: shutdown() injected just before and just after every distinct event instant of seeded busy scenarios (requests awaiting ACK / separate response, block-wise transfer in flight, observations on both sides, NSTART backlog, pending empty-ACK timers, live dedup entries); oracle over client-boundary records, handler cancellation log, the wire after shutdown returned, the loop exception handler / unraisable hook, and a second context's own exchange"
LEVEL_TEXT = "For each seeded busy scenario every distinct event instant is used as a shutdown point twice (t-0.1ms, t+0.1ms); each run must show: all pending requests/observations failed with a library error and handlers cancelled within SHUTDOWN_TIMEOUT, shutdown() returned, silence and no loop exception afterwards, later requests failing at once with LibraryShutdown, and the second context unaffected."
LEVEL_NOTE = "Trusted: determinism of the replay (same seed, PYTHONHASHSEED=0, virtual clock), simnet wire log, the judge in checks/c18.py. Instants are those of wire events and handler log entries of the baseline run."
RULE = (
    "one case = one (scenario seed, shutdown instant, before/after) run. Non-trivial = at shutdown at least one request, observation, handler, backlog entry or timer of the context was pending; "
    "distinct = distinct (scenario variant, set of pending-work kinds at the shutdown instant, before/after) signatures"
)
ASSUMPTIONS = ["SHUTDOWN_TIMEOUT is read from aiocoap.numbers.constants at run time", "the busy scenario is deterministic under the seeded PRNG and the virtual clock (checked: the baseline is run twice and must give identical wire logs)"]
REQUIRED_MONITORS = {"shutdown_returns": 200, "pending_requests_failed": 200, "handlers_cancelled": 50, "silent_after_shutdown": 200, "no_loop_exception": 200, "later_request_fails_fast": 200, "other_context_unaffected": 200, "baseline_deterministic": 1}


def plan(tier, seed):
    n = 16
    nseeds = {"quick": 4, "thorough": 24}[tier]
    return [{"name": "c18-%d" % i, "seed": seed * 1000, "index": i, "of": n, "tier": tier, "nseeds": nseeds} for i in range(n)]


def variant(vseed):
    r = random.Random(vseed)
    return {
        "backlog": r.randrange(1, 4),
        "block_len": r.choice([600, 1500, 3000]),
        "block_szx": r.choice([1, 2, 3]),
        "net_delay": r.choice([0.05, 0.2, 0.3]),
        "slow": r.choice([0.05, 0.4, 2.0]),
        "notify_every": r.choice([0.7, 1.5]),
        "observer_type": r.choice(["CON", "NON"]),
        "ack_delay": r.choice([0.0, 0.3]),
        "iter_consumer": r.random() < 0.5,
        "justborn": True,
        "cancel_one": r.choice([None, "separate", "blockwise", "blockwise"]),
        # a transport error for one of the peers reported just before shutdown is called
        # the raw client re-uses one token for all its requests (a slow one is superseded while its handler still
        # runs) and refreshes its observation on the same token
        "reuse_token": vseed % 2 == 1,
        # the application cancels one of its client-side observations (the established one, or one whose request is
        # still waiting for its first response) right before shutdown
        "cancel_obs": [None, "pending", "established", "pending"][vseed % 4],
        "icmp": r.choice([None, ("10.0.0.10", 5683, 1e-7), ("10.0.0.14", 40000, 1e-7), ("10.0.0.11", 5683, 1e-7), ("10.0.0.13", 5683, 1e-3), ("10.0.0.12", 5683, 1e-7)]),
    }


def run(v, seed, shutdown_at):
    """returns (scenario result, box)"""
    from harness import scenario, simnet, testsite, refcodec as rc, refblock
    import asyncio
    import aiocoap
    import aiocoap.resource as R
    from aiocoap import error

    box = {}

    async def main(loop):
        delay = v["net_delay"]

        def fate(net, src, dst, data, idx, m):
            # the block-wise server's link is slow so that a transfer is always in flight
            if src[0].endswith("10.0.0.12") or dst[0].endswith("10.0.0.12"):
                return [delay]
            return None

        net = simnet.SimNet(loop, simnet.ScriptPolicy(fate))
        X = simnet.addr("10.0.0.1", 5683)
        hlog = []

        class Obs(R.ObservableResource):
            def __init__(self):
                super().__init__()
                self.n = 0
                self.cancelled = 0
                self.count = 0

            def update_observation_count(self, c):
                self.count = c

            async def render_get(self, request):
                return aiocoap.Message(payload=b"state-%d" % self.n)

        obsres = Obs()
        site = testsite.make_site(loop, hlog, {("obs",): obsres})
        ctx = await simnet.make_context(net, "10.0.0.1", 5683, site)
        other = await simnet.make_context(net, "10.0.0.9", 5683, testsite.make_site(loop, []), loggername="coap-other")

        # ---- peers ----
        simnet.RawPeer(net, "10.0.0.10", 5683)  # silent

        def sep(peer, src, m, raw):
            if m is not None and rc.is_request(m.code) and m.type == rc.CON:
                peer.send(src, rc.Msg(rc.ACK, 0, m.mid, b"", (), b""))

        simnet.RawPeer(net, "10.0.0.11", 5683, sep)
        refblock.BlockServer(net, "10.0.0.12", 5683, szx=v["block_szx"], representation=b"r" * 300)
        tok = {}

        def notifier(peer, src, m, raw):
            if m is not None and rc.is_request(m.code):
                tok["t"] = m.token
                peer.send(src, rc.Msg(rc.ACK, rc.c(2, 5), m.mid, m.token, ((6, b""),), b"n0"))

                def tick(k):
                    if peer.closed:
                        return
                    peer.send(src, rc.Msg(rc.NON, rc.c(2, 5), peer.next_mid(), m.token, ((6, rc.uint_bytes(k)),), b"n%d" % k))
                    if k < 12:
                        loop.call_later(1.1, tick, k + 1)

                loop.call_later(1.1, tick, 1)

        simnet.RawPeer(net, "10.0.0.13", 5683, notifier)

        def rawclient(peer, src, m, raw):
            if m is not None and rc.is_response(m.code) and m.type == rc.CON:
                loop.call_later(v["ack_delay"], peer.send, src, rc.Msg(rc.ACK, 0, m.mid, b"", (), b""))

        pc = simnet.RawPeer(net, "10.0.0.14", 40000, rawclient)
        # second context's own peer
        def echo(peer, src, m, raw):
            if m is not None and rc.is_request(m.code):
                loop.call_later(0.4, peer.send, src, rc.Msg(rc.ACK if m.type == rc.CON else rc.NON, rc.c(2, 5), m.mid, m.token, (), b"other-ok"))

        simnet.RawPeer(net, "10.0.0.19", 5683, echo)

        recs = []

        def track(name, rq):
            rec = {"name": name, "done": None, "obs_end": None, "obs_items": 0, "rq": rq}
            rq.response.add_done_callback(lambda f: rec.update(done=(loop.time(), None if f.cancelled() else f.exception())))
            recs.append(rec)
            return rec

        # ---- client-side work of ctx ----
        for k in range(v["backlog"] + 1):
            track("silent-%d" % k, ctx.request(aiocoap.Message(code=aiocoap.GET, uri="coap://10.0.0.10/s%d" % k), handle_blockwise=False))
        track("separate", ctx.request(aiocoap.Message(code=aiocoap.GET, uri="coap://10.0.0.11/sep"), handle_blockwise=False))
        pm = aiocoap.Message(code=aiocoap.PUT, uri="coap://10.0.0.12/blk", payload=b"B" * v["block_len"])
        pm.remote.maximum_block_size_exp = v["block_szx"]
        track("blockwise", ctx.request(pm))
        orq = ctx.request(aiocoap.Message(code=aiocoap.GET, uri="coap://10.0.0.13/o", observe=0), handle_blockwise=not v["iter_consumer"] and False)
        orec = track("observe", orq)
        # a second observation whose request never gets its first response (silent peer)
        prq = ctx.request(aiocoap.Message(code=aiocoap.GET, uri="coap://10.0.0.10/o-pending", observe=0), handle_blockwise=False)
        prec = track("observe-pending", prq)
        prq.observation.register_errback(lambda e: prec.update(obs_end=(loop.time(), e)))
        if v["iter_consumer"]:

            async def consume():
                try:
                    async for m in orq.observation:
                        orec["obs_items"] += 1
                    orec["obs_end"] = (loop.time(), "StopAsyncIteration")
                except asyncio.CancelledError:
                    raise
                except Exception as e:
                    orec["obs_end"] = (loop.time(), e)

            ctask = asyncio.ensure_future(consume())
        else:
            orq.observation.register_callback(lambda m: orec.update(obs_items=orec["obs_items"] + 1))
            orq.observation.register_errback(lambda e: orec.update(obs_end=(loop.time(), e)))
            ctask = None

        # ---- server-side work of ctx ----
        def client_traffic(k):
            if pc.closed:
                return
            pc.send(X, rc.Msg(rc.CON, 2, pc.next_mid(), bytes([0x70 + (0 if v.get("reuse_token") else k)]), ((11, b"r"),), b"d=%s;c=69;p=x" % repr(v["slow"]).encode()))
            if k < 7:
                loop.call_later(1.3, client_traffic, k + 1)

        loop.call_later(0.2, client_traffic, 0)
        pc.send(X, rc.Msg(rc.CON if v["observer_type"] == "CON" else rc.NON, 1, pc.next_mid(), b"\x6f", ((6, b""), (11, b"obs")), b""))

        def refresh_observation(n):
            if pc.closed:
                return
            pc.send(X, rc.Msg(rc.CON if v["observer_type"] == "CON" else rc.NON, 1, pc.next_mid(), b"\x6f", ((6, b""), (11, b"obs")), b""))
            if n < 3:
                loop.call_later(3.7, refresh_observation, n + 1)

        if v.get("reuse_token"):
            loop.call_later(2.45, refresh_observation, 0)

        def state_change():
            obsres.n += 1
            obsres.updated_state()
            if obsres.n < 14:
                loop.call_later(v["notify_every"], state_change)

        loop.call_later(0.5, state_change)

        # ---- second context's own exchange, spanning the shutdown ----
        other_recs = []

        def other_request(k):
            rq = other.request(aiocoap.Message(code=aiocoap.GET, uri="coap://10.0.0.19/x%d" % k), handle_blockwise=False)
            rec = {"k": k, "t": loop.time(), "done": None}
            rq.response.add_done_callback(lambda f: rec.update(done=(loop.time(), None if f.cancelled() else f.exception(), None if f.exception() else bytes(f.result().payload))))
            other_recs.append(rec)
            if k < 12:
                loop.call_later(0.9, other_request, k + 1)

        loop.call_later(0.1, other_request, 0)

        # the second context is a server, too: a raw peer keeps it busy with slow confirmable requests, so that at
        # every instant it has a handler running and, a quarter of the time, an empty-ACK timer pending
        other_srv = []

        def o_client(peer, src, m, raw):
            if m is not None and rc.is_response(m.code) and m.type == rc.CON:
                peer.send(src, rc.Msg(rc.ACK, 0, m.mid, b"", (), b""))

        po = simnet.RawPeer(net, "10.0.0.20", 40000, o_client)
        OX = simnet.addr("10.0.0.9", 5683)

        def other_traffic(k):
            if po.closed:
                return
            mid = po.next_mid()
            other_srv.append({"k": k, "t": loop.time(), "mid": mid, "token": bytes([0x50, k])})
            po.send(OX, rc.Msg(rc.CON, 2, mid, bytes([0x50, k]), ((11, b"r"),), b"d=0.45;c=69;p=o%d" % k))
            if k < 36:
                loop.call_later(0.37, other_traffic, k + 1)

        loop.call_later(0.15, other_traffic, 0)

        info = {}
        if shutdown_at is None:
            await asyncio.sleep(14.0)
        else:
            if v.get("icmp"):
                # reported just before shutdown is called: the requests to that peer have failed, their tasks
                # and callbacks have not run to completion yet
                net.inject_error(X, simnet.addr(v["icmp"][0], v["icmp"][1]), 111, delay=max(0.0, shutdown_at - v["icmp"][2]))
                info["icmp"] = v["icmp"]
            await asyncio.sleep(shutdown_at)
            # what is pending right now?
            tm = ctx.request_interfaces[0]
            mm = tm.token_interface
            info["pending"] = {
                "outgoing": len(getattr(tm, "outgoing_requests", None) or {}),
                "incoming": len(getattr(tm, "incoming_requests", None) or {}),
                "exchanges": len(getattr(mm, "_active_exchanges", None) or {}),
                "backlog": sum(len(b) for b in (getattr(mm, "_backlogs", None) or {}).values()),
                "piggyback_timers": len(getattr(mm, "_piggyback_opportunities", None) or {}),
                "dedup": len(getattr(mm, "_recent_messages", None) or {}),
                "handlers_running": sum(1 for h in hlog if h["ev"] == "enter") - sum(1 for h in hlog if h["ev"] in ("exit", "cancelled")),
                "observers": obsres.count,
            }
            info["unfinished_before"] = [r["name"] for r in recs if r["done"] is None]
            info["t_call"] = loop.time()
            info["log_mark"] = len(net.log)
            # requests born in the very step in which shutdown is called: their processing task has not run yet
            if v.get("justborn", True):
                for api in (False, True):
                    jb = ctx.request(aiocoap.Message(code=aiocoap.GET, uri="coap://10.0.0.11/justborn"), handle_blockwise=api)
                    track("justborn-%s" % ("blockwise" if api else "raw"), jb)
                    info["unfinished_before"].append("justborn-%s" % ("blockwise" if api else "raw"))
            # the application gives up on one outstanding request in the same step
            if v.get("cancel_one"):
                victim = [r for r in recs if r["name"] == v["cancel_one"] and r["done"] is None]
                if victim:
                    victim[0]["rq"].response.cancel()
                    info["cancelled"] = v["cancel_one"]
            if v.get("cancel_obs") == "pending" and not prq.observation.cancelled:
                prq.observation.cancel()
                info["cancelled_obs"] = "pending"
            elif v.get("cancel_obs") == "established" and not orq.observation.cancelled:
                orq.observation.cancel()
                info["cancelled_obs"] = "established"
            await ctx.shutdown()
            info["t_ret"] = loop.time()
            info["log_mark_ret"] = len(net.log)
            info["loop_exc_at_ret"] = len(loop.exceptions)
            # a request submitted after shutdown must fail at once with the shutdown error
            late = []
            for api in (False, True):
                rq = ctx.request(aiocoap.Message(code=aiocoap.GET, uri="coap://10.0.0.11/late"), handle_blockwise=api)
                t0 = loop.time()
                try:
                    await asyncio.wait_for(asyncio.shield(rq.response), 5)
                    late.append((api, "response", loop.time() - t0))
                except asyncio.TimeoutError:
                    late.append((api, "hang", loop.time() - t0))
                except Exception as e:
                    late.append((api, e, loop.time() - t0))
            info["late"] = late
            await asyncio.sleep(500.0)
        info["handlers"] = list(hlog)
        for r_ in recs:
            r_.pop("rq", None)
        box.update(net=net, X=X, recs=recs, other=other_recs, info=info, obs_count=obsres.count, other_srv=other_srv, OX=OX, PO=po.addr)
        if ctask is not None and not ctask.done():
            ctask.cancel()
        if shutdown_at is None:
            await ctx.shutdown()
        await other.shutdown()
        return True

    res = scenario.run(main, seed, horizon=1e5)
    return res, box


def instants(box):
    ts = set()
    for e in box["net"].log:
        if e.t < 13.5:
            ts.add(round(e.t, 9))
    for h in box["info"]["handlers"]:
        if h["t"] < 13.5:
            ts.add(round(h["t"], 9))
    return sorted(ts)


def judge(v, res, box, when, rep, case, T):
    from aiocoap import error
    from harness import refcodec as rc

    if not res.ok:
        if res.horizon:
            rep.inconc("horizon")
        elif res.hang:
            rep.violation("shutdown-hangs", "shutdown() (or the work around it) never completed: the event loop ran dry", {"variant": repr(v), "when": when}, case)
        else:
            rep.violation("scenario-exception/" + type(res.error).__name__, "an exception escaped from shutdown() or a request API: %r" % res.error, {"variant": repr(v), "when": when, "tb": rep.exception_witness(res.error)}, case)
        return
    net, X, info = box["net"], box["X"], box["info"]
    pend = info["pending"]
    wit = lambda **kw: dict(variant=repr(v), shutdown_at=when, pending=pend, wire_after=[e.brief() for e in net.log[info["log_mark"] :]][:30], requests=[(r["name"], None if r["done"] is None else (round(r["done"][0], 4), repr(r["done"][1])[:60])) for r in box["recs"]], **kw)
    t_call, t_ret = info["t_call"], info["t_ret"]
    # ---- shutdown returns within the time-out ----
    rep.monitor("shutdown_returns")
    if t_ret - t_call > T + 1e-6:
        rep.violation("shutdown-exceeds-timeout", "shutdown() took longer than SHUTDOWN_TIMEOUT", wit(took=t_ret - t_call), case)
    # ---- pending requests / observations ----
    rep.monitor("pending_requests_failed")
    for r in box["recs"]:
        if r["done"] is None:
            rep.violation("request-still-pending-after-shutdown/%s" % r["name"].split("-")[0], "an outstanding request never terminated although its context was shut down", wit(), case)
            return
        t_done, exc = r["done"]
        if r["name"] in info["unfinished_before"]:
            if t_done > t_call + T + 1e-6:
                rep.violation("request-terminated-late/%s" % r["name"].split("-")[0], "an outstanding request terminated later than the shutdown time-out", wit(t_done=t_done), case)
            if exc is None:
                if t_done > t_call + 1e-9:
                    rep.count("completed_during_shutdown")
            elif info.get("cancelled") == r["name"]:
                pass  # cancelled by the application itself just before shutdown
            elif not isinstance(exc, error.Error):
                rep.violation("request-failed-with-non-library-error/%s/%s" % (r["name"].split("-")[0], type(exc).__name__), "an outstanding request was failed with an exception outside the library's error hierarchy at shutdown", wit(exc=repr(exc)), case)
        if r["name"] == "observe" and r["done"][1] is None and info.get("cancelled_obs") != "established":
            # the observation was established (or not yet): it must have been terminated too
            if r["obs_end"] is None:
                rep.violation("observation-not-terminated", "a client-side observation got no terminal signal although its context was shut down", wit(), case)
            elif r["obs_end"][0] > t_call + T + 1e-6:
                rep.violation("observation-terminated-late", "a client-side observation was terminated later than the shutdown time-out", wit(), case)
            elif not (r["obs_end"][1] == "StopAsyncIteration" or isinstance(r["obs_end"][1], error.Error)):
                rep.violation("observation-terminated-with-non-library-error/" + type(r["obs_end"][1]).__name__, "a client-side observation ended with an exception outside the library's error hierarchy", wit(), case)
    # ---- handlers cancelled ----
    hl = info["handlers"]
    running = {}
    for h in hl:
        k = (h["remote"], h["mid"], h["token"])
        if h["ev"] == "enter" and h["t"] <= t_call + 1e-9:
            running[k] = h
        elif h["ev"] in ("exit", "cancelled") and k in running and h["t"] <= t_call + 1e-9 and h["ev"] == "exit":
            running.pop(k, None)
    if running:
        rep.monitor("handlers_cancelled", len(running))
        for k, h in running.items():
            ends = [x for x in hl if (x["remote"], x["mid"], x["token"]) == k and x["ev"] in ("exit", "cancelled") and x["t"] >= h["t"]]
            if not ends or ends[0]["ev"] != "cancelled" or ends[0]["t"] > t_call + T + 1e-6:
                if ends and ends[0]["ev"] == "exit" and abs(ends[0]["t"] - t_call) < 1e-9:
                    continue  # finished in the very instant of the shutdown call
                rep.violation("handler-not-cancelled", "a server handler that was running when shutdown() was called was not cancelled within the shutdown time-out", wit(handler=repr(h), ends=repr(ends[:1])), case)
                break
    if box["obs_count"] != 0:
        rep.violation("server-observation-not-ended", "a server-side observation survived shutdown (observer count %d)" % box["obs_count"], wit(), case)
    # ---- silence after shutdown returned ----
    rep.monitor("silent_after_shutdown")
    after = [e for e in net.log[info["log_mark_ret"] :] if e.kind == "send" and e.src == X]
    if after:
        rep.violation("transmission-after-shutdown", "the context transmitted a datagram after shutdown() had returned", wit(events=[e.brief() for e in after[:3]]), case)
    # ---- nothing raises in the loop ----
    rep.monitor("no_loop_exception")
    if res.loop_exceptions:
        first = res.loop_exceptions[0]
        msg = (first.get("exception") or "") + (first.get("message") or "") + (first.get("handle") or "")
        key = "loop-exception/piggyback-timer-after-shutdown" if ("on_timeout" in msg or "_fatal_error" in msg) else "loop-exception/" + str(first.get("exc_type"))
        rep.violation(key, "a timer or callback of the context raised in the event loop %s shutdown" % ("after" if first["vtime"] >= t_ret - 1e-9 else "during"), wit(loop=res.loop_exceptions[:2]), case)
    if res.unraisable:
        rep.violation("unraisable-after-shutdown", "an exception was raised in a finalizer", wit(unraisable=res.unraisable[:2]), case)
    if res.logging_failures:
        rep.violation("logging-call-failed", "a logging call inside the library raised", wit(failures=res.logging_failures[:2]), case)
    # ---- later requests fail at once with the shutdown error ----
    rep.monitor("later_request_fails_fast")
    for api, outcome, took in info["late"]:
        if outcome == "hang":
            rep.violation("later-request-hangs/%s" % ("blockwise" if api else "raw"), "a request submitted after shutdown neither completed nor failed", wit(), case)
        elif outcome == "response" or not isinstance(outcome, error.LibraryShutdown):
            rep.violation("later-request-wrong-outcome/%s/%s" % ("blockwise" if api else "raw", type(outcome).__name__ if not isinstance(outcome, str) else outcome), "a request submitted after shutdown did not fail with the shutdown error", wit(outcome=repr(outcome)), case)
        elif took > 1e-6:
            rep.violation("later-request-fails-late", "a request submitted after shutdown failed only after %r s" % took, wit(), case)
    # ---- the other context ----
    rep.monitor("other_context_unaffected")
    for r in box["other"]:
        if r["done"] is None or r["done"][1] is not None or r["done"][2] != b"other-ok" or abs((r["done"][0] - r["t"]) - 0.402) > 1e-6:
            rep.violation("other-context-affected", "an exchange of a second context in the same process did not complete normally", wit(other=repr(r)), case)
            break
    # ... and as a server: every request gets its empty ACK at EMPTY_ACK_DELAY and its separate response when the
    # handler is done, whatever happened to the context that was shut down
    OX, PO = box["OX"], box["PO"]
    osends = [e for e in net.log if e.kind == "send" and e.src == OX and e.dst == PO and e.msg is not None]
    for q in box["other_srv"]:
        t_arr = q["t"] + 0.001
        acks = [e for e in osends if e.msg.mid == q["mid"] and e.msg.type == rc.ACK]
        resp = {}
        for e in osends:
            if e.msg.token == q["token"] and rc.is_response(e.msg.code):
                resp.setdefault(e.msg.mid, e)
        ok = len({e.data for e in acks}) == 1 and acks[0].msg.code == 0 and abs(acks[0].t - (t_arr + 0.1)) < 1e-6 and len(resp) == 1 and abs(list(resp.values())[0].t - (t_arr + 0.45)) < 1e-6 and list(resp.values())[0].msg.payload == b"o%d" % q["k"]
        if not ok:
            rep.violation("other-context-affected/as-server", "a request served by a second context in the same process did not get its empty ACK at EMPTY_ACK_DELAY and its separate response at handler completion", wit(request=repr(q), acks=[(round(e.t - t_arr, 6), e.msg.code) for e in acks], responses=[(round(e.t - t_arr, 6), e.msg.code) for e in resp.values()]), case)
            break
    kinds = tuple(sorted(k for k, n in pend.items() if n))
    rep.case((repr(sorted(v.items())), tuple(sorted((k, min(n, 3)) for k, n in pend.items() if n)), when[1]), nontrivial=bool(kinds))
    rep.seen("pending_kinds", kinds)


def run_shard(shard, rep, only=None):
    from harness import vloop

    vloop.install_time()
    import aiocoap  # noqa
    from aiocoap.numbers.constants import SHUTDOWN_TIMEOUT as T

    idx, of = shard["index"], shard["of"]
    for s in range(shard["nseeds"]):
        vseed = shard["seed"] + s
        v = variant(vseed)
        res, box = run(v, vseed, None)
        if not res.ok:
            rep.inconc("baseline scenario failed: hang=%r error=%r" % (res.hang, res.error))
            continue
        if idx == 0:
            res2, box2 = run(v, vseed, None)
            same = res2.ok and [(e.t, e.kind, e.data) for e in box["net"].log] == [(e.t, e.kind, e.data) for e in box2["net"].log]
            if not same:
                rep.inconc("baseline scenario is not deterministic")
                continue
            rep.monitor("baseline_deterministic")
        if res.loop_exceptions:
            rep.violation("baseline-loop-exception/" + str(res.loop_exceptions[0].get("exc_type")), "an exception reached the event loop in the busy scenario even without shutdown", {"loop": res.loop_exceptions[:2]}, ["baseline", s])
        ts = instants(box)
        points = []
        for t in ts:
            points.append((t - 1e-4, "before"))
            points.append((t + 1e-4, "after"))
        points = [p for p in points if p[0] > 0]
        for pi, (t, ba) in enumerate(points):
            if pi % of != idx:
                continue
            case = ["point", s, pi]
            if only is not None and only != case:
                continue
            r_, b_ = run(v, vseed, t)
            judge(v, r_, b_, (round(t, 6), ba), rep, case, T)
            if pi < 2 and s == 0 and idx == 0:
                rep.sample({"class": "shutdown-point", "variant": v, "t": t, "side": ba, "pending": b_.get("info", {}).get("pending")})
        rep.count("instants", len(ts))
