"""C18 — shutdown at any moment fails pending work and leaves nothing running.

Fault enumeration: a busy scenario is first run without shutdown to collect its distinct event
instants; it is then replayed from the same seed once per instant (just before and just after it)
with Context.shutdown() injected there, and run on for 500 virtual seconds.

The same is done over CoAP-over-TCP (RFC 8323): the real `tcpclient` / `tcpserver` transports of a victim context run on
an in-memory stream fabric (harness/simtcp.py, no sockets) against scripted raw peers and a second aiocoap context;
shutdown is injected just before, exactly at and just after every distinct instant of that scenario."""

import random

ID = "C18"
LEVEL = "fault_enumeration"
TECHNIQUE = "fault enumeration on a virtual-time simulated network: shutdown() injected just before and just after every distinct event instant of seeded busy scenarios (requests awaiting ACK / separate response, block-wise transfer in flight, observations on both sides, NSTART backlog, pending empty-ACK timers, live dedup entries, requests whose host name is still being resolved - the resolver of the simulated network takes 1 s for one name and 8 s for another, such requests are submitted 0.25 s before the shutdown and again after it has returned); oracle over client-boundary records, handler cancellation log, the wire after shutdown returned, the loop exception handler / unraisable hook, and a second context's own exchange. Second half over CoAP-over-TCP on an in-memory stream fabric (harness/simtcp.py: loop.create_connection / create_server replaced on the loop instance; link delay, handshake duration, a host that never completes the handshake, scripted RFC 8323 peers that hang up on Release at once / after 0.5 s / after 10 s / never and go on sending Pings, responses and requests meanwhile, a second aiocoap context as peer; in one scenario out of three a peer of the server side that asks for a large representation eight times and never reads, so that its connection clogs, close() on it cannot complete and the server transport's shutdown stalls until the time-out while the client transport has its own work pending): shutdown() injected before / at / after every distinct instant, and in the k-th loop iteration (k = 0, 1, 2) after every life-cycle event of the victim's connections (connect, established, taken from the backlog, protocol created, connection_made, close, EOF, lost; a new peer connects every 0.65 s), of busy scenarios (requests awaiting a response, waiting for a connection being set up or for a handshake that never ends, block-wise transfer in flight, observations on both sides, handlers running, connections being accepted, frames in flight in both directions, requests born in the step of the shutdown, a request given up by the application in that step - in two scenarios out of three the one whose connection is being set up or has just come up, submitted through the block-wise API whose per-request task is cancelled with it); oracle over request outcomes, every byte written / connection opened or accepted after shutdown() returned, the close state of every stream transport 200 s later, the tasks shutdown() started and all tasks left at the end (task factory), exceptions leaving data_received, requests submitted afterwards (over a pooled connection, to a new host, to the host that does not answer, to the aiocoap peer, by the remote of an earlier response), and the second context's own TCP exchange compared with the run without shutdown"
LEVEL_TEXT = "For each seeded busy scenario every distinct event instant is used as a shutdown point twice (t-0.1ms, t+0.1ms); each run must show: all pending requests/observations failed with a library error and handlers cancelled within SHUTDOWN_TIMEOUT, shutdown() returned, silence and no loop exception afterwards, later requests failing at once with LibraryShutdown, and the second context unaffected. Over TCP every distinct instant of each seeded scenario is used two or three times (t-0.1ms, t itself for every fourth instant in the quick tier and for all in the thorough tier, t+0.1ms); and every life-cycle event of the victim's connection ends is used with k = 0 (all), 1 and 2 (quick tier: only for connections being accepted) loop iterations between the event and the call; each run must show the same, plus: shutdown() does not raise, the tasks that shutdown() started are finished when it returns, no byte is written and no connection opened or accepted after it returned, every stream transport of the context is closed 200 s later, no library task is left, nothing raises out of data_received. Where a connection is clogged by a peer that does not read, shutdown() giving up at the time-out and leaving the task that waits for that transport (and the half-closed connection) behind is accepted as documented; everything else is demanded unchanged and keyed with the suffix /clogged-peer."
LEVEL_NOTE = "Trusted: determinism of the replay (same seed, PYTHONHASHSEED=0, virtual clock), simnet wire log, the judge in checks/c18.py. Instants are those of wire events and handler log entries of the baseline run. TCP half: additionally trusted are harness/simtcp.py (asyncio stream transport / Server behaviour re-implemented from CPython 3.12 selector_events.py and base_events.Server: connection_made through call_soon one loop iteration after the protocol factory ran, which on the accepting side is itself one iteration after the connection was taken from the backlog (_accept_connection / _accept_connection2), close() flushing, abort() resetting, writes after close dropped, exceptions out of data_received reported as 'Fatal error' and force-closing, wait_closed() waiting for the accepted connections) and harness/reftcp.py (RFC 8323 framing); instants are those of fabric events (connect, established, accepted, write, deliver, close, lost) and handler log entries of the first 9.5 s of the baseline run; attribution of connections to contexts is by listener owner and by destination address."
RULE = (
    "one case = one (scenario seed, shutdown instant, before/after) run. Non-trivial = at shutdown at least one request, observation, handler, backlog entry or timer of the context was pending; "
    "distinct = distinct (scenario variant, set of pending-work kinds at the shutdown instant, before/after) signatures. "
    "TCP half: one case = one (scenario seed, shutdown instant, before/at/after) or one (scenario seed, connection life-cycle event, k loop iterations later) run; pending-work kinds there are: outgoing requests, incoming requests, connections being set up (all / those whose handshake will complete), connections being accepted, open client-side / server-side connections, frames in flight towards the context, block-wise transfers, running handlers, observers, an established client observation"
)
ASSUMPTIONS = [
    "SHUTDOWN_TIMEOUT is read from aiocoap.numbers.constants at run time",
    "the busy scenario is deterministic under the seeded PRNG and the virtual clock (checked: the baseline is run twice and must give identical wire logs)",
    "TCP half: the transports obtain their connections through loop.create_connection / loop.create_server of the running loop and see them only through the asyncio.Transport / Protocol / Server interfaces, which harness/simtcp.py provides with the semantics documented for CPython >= 3.12.1; a host that does not answer makes connect fail with ETIMEDOUT after 127 s (Linux default)",
    "TCP half: the baseline is deterministic per connection end (checked: run twice, the event sequence of every connection end must be identical; the order of events of different connections within one instant may depend on object addresses through set iteration in the library)",
]
REQUIRED_MONITORS = {
    "shutdown_returns": 200, "pending_requests_failed": 200, "handlers_cancelled": 50, "silent_after_shutdown": 200, "no_loop_exception": 200, "later_request_fails_fast": 200, "other_context_unaffected": 200, "baseline_deterministic": 1, "resolving_at_shutdown": 4000,
    # CoAP over TCP (same thresholds for both tiers; the thorough tier reaches a multiple)
    "tcp_shutdown_does_not_raise": 600, "tcp_shutdown_returns": 600, "tcp_shutdown_tasks_finished": 600, "tcp_pending_requests_failed": 600, "tcp_handlers_cancelled": 800, "tcp_silent_after_shutdown": 600, "tcp_no_connect_after_shutdown": 600,
    "tcp_connections_closed": 6000, "tcp_no_loop_exception": 600, "tcp_later_request_fails_fast": 4000, "tcp_other_context_unaffected": 600, "tcp_baseline_deterministic": 1,
    # how often the new dimensions were really there: a handshake in flight / any connection set-up pending when shutdown was called, frames under way to the
    # context at that moment, frames reaching it after shutdown returned, raw peers that did not hang up on Release at once, a peer trying to connect afterwards
    "tcp_handshake_in_flight_at_shutdown": 200, "tcp_connect_pending_at_shutdown": 600, "tcp_frames_in_flight_at_shutdown": 500, "tcp_frames_arriving_after_shutdown": 500, "tcp_peer_not_hanging_up": 4000, "tcp_connect_attempt_after_shutdown": 600,
    # shutdown tied to a step of a connection's life cycle; thereof: the server created the protocol object of a new connection after shutdown() was called
    "tcp_shutdown_tied_to_connection_event": 200, "tcp_accept_during_shutdown": 20, "tcp_request_cancelled_during_connection_setup": 100,
    # the peer that never reads (one scenario in three): its connection had a write backlog when shutdown was called / close() on it was still pending when shutdown returned
    "tcp_resolving_at_shutdown": 3000, "tcp_clogged_connection_at_shutdown": 300, "tcp_shutdown_stalled_by_clogged_peer": 300,
}


def plan(tier, seed):
    n = 16
    nseeds = {"quick": 4, "thorough": 24}[tier]
    tcp_nseeds = {"quick": 3, "thorough": 16}[tier]
    return [{"name": "c18-%d" % i, "seed": seed * 1000, "index": i, "of": n, "tier": tier, "nseeds": nseeds, "tcp_nseeds": tcp_nseeds} for i in range(n)]


def variant(vseed):
    v = _variant(vseed)
    if v["reuse_token"]:
        v["slow"] = 2.0  # (requests come 1.3 s apart: each supersedes its predecessor while that one's handler still runs)
    return v


def _variant(vseed):
    r = random.Random(vseed)
    return {
        "backlog": r.randrange(1, 4),
        "block_len": r.choice([600, 1500, 3000]),
        "block_szx": r.choice([1, 2, 3]),
        "net_delay": r.choice([0.05, 0.2, 0.3]),
        "slow": r.choice([0.05, 0.4, 2.0]),
        "notify_every": r.choice([0.7, 1.5]),
        "observer_type": r.choice(["CON", "NON"]),
        "ack_delay": r.choice([0.0, 0.3]),
        "iter_consumer": r.random() < 0.5,
        "justborn": True,
        "cancel_one": r.choice([None, "separate", "blockwise", "blockwise"]),
        # a transport error for one of the peers reported just before shutdown is called
        # the raw client re-uses one token for all its requests (a slow one is superseded while its handler still
        # runs) and refreshes its observation on the same token
        "reuse_token": vseed % 2 == 1,
        # the application cancels one of its client-side observations (the established one, or one whose request is
        # still waiting for its first response) right before shutdown
        "cancel_obs": [None, "pending", "established", "pending"][vseed % 4],
        "icmp": r.choice([None, ("10.0.0.10", 5683, 1e-7), ("10.0.0.14", 40000, 1e-7), ("10.0.0.11", 5683, 1e-7), ("10.0.0.13", 5683, 1e-3), ("10.0.0.12", 5683, 1e-7)]),
    }


def run(v, seed, shutdown_at):
    """returns (scenario result, box)"""
    from harness import scenario, simnet, testsite, refcodec as rc, refblock
    import asyncio
    import aiocoap
    import aiocoap.resource as R
    from aiocoap import error

    box = {}

    async def main(loop):
        delay = v["net_delay"]

        def fate(net, src, dst, data, idx, m):
            # the block-wise server's link is slow so that a transfer is always in flight
            if src[0].endswith("10.0.0.12") or dst[0].endswith("10.0.0.12"):
                return [delay]
            return None

        net = simnet.SimNet(loop, simnet.ScriptPolicy(fate))
        # host names whose resolution takes a while (both are the peer that acknowledges and never answers)
        simnet.SLOW_NAMES.update({"slow1.example": (1.0, "10.0.0.11"), "slow8.example": (8.0, "10.0.0.11")})
        X = simnet.addr("10.0.0.1", 5683)
        hlog = []

        class Obs(R.ObservableResource):
            def __init__(self):
                super().__init__()
                self.n = 0
                self.cancelled = 0
                self.count = 0

            def update_observation_count(self, c):
                self.count = c

            async def render_get(self, request):
                return aiocoap.Message(payload=b"state-%d" % self.n)

        obsres = Obs()
        site = testsite.make_site(loop, hlog, {("obs",): obsres})
        ctx = await simnet.make_context(net, "10.0.0.1", 5683, site)
        other = await simnet.make_context(net, "10.0.0.9", 5683, testsite.make_site(loop, []), loggername="coap-other")

        # ---- peers ----
        simnet.RawPeer(net, "10.0.0.10", 5683)  # silent

        def sep(peer, src, m, raw):
            if m is not None and rc.is_request(m.code) and m.type == rc.CON:
                peer.send(src, rc.Msg(rc.ACK, 0, m.mid, b"", (), b""))

        simnet.RawPeer(net, "10.0.0.11", 5683, sep)
        refblock.BlockServer(net, "10.0.0.12", 5683, szx=v["block_szx"], representation=b"r" * 300)
        tok = {}

        def notifier(peer, src, m, raw):
            if m is not None and rc.is_request(m.code):
                tok["t"] = m.token
                peer.send(src, rc.Msg(rc.ACK, rc.c(2, 5), m.mid, m.token, ((6, b""),), b"n0"))

                def tick(k):
                    if peer.closed:
                        return
                    peer.send(src, rc.Msg(rc.NON, rc.c(2, 5), peer.next_mid(), m.token, ((6, rc.uint_bytes(k)),), b"n%d" % k))
                    if k < 12:
                        loop.call_later(1.1, tick, k + 1)

                loop.call_later(1.1, tick, 1)

        simnet.RawPeer(net, "10.0.0.13", 5683, notifier)

        def rawclient(peer, src, m, raw):
            if m is not None and rc.is_response(m.code) and m.type == rc.CON:
                loop.call_later(v["ack_delay"], peer.send, src, rc.Msg(rc.ACK, 0, m.mid, b"", (), b""))

        pc = simnet.RawPeer(net, "10.0.0.14", 40000, rawclient)
        # second context's own peer
        def echo(peer, src, m, raw):
            if m is not None and rc.is_request(m.code):
                loop.call_later(0.4, peer.send, src, rc.Msg(rc.ACK if m.type == rc.CON else rc.NON, rc.c(2, 5), m.mid, m.token, (), b"other-ok"))

        simnet.RawPeer(net, "10.0.0.19", 5683, echo)

        recs = []

        def track(name, rq):
            rec = {"name": name, "done": None, "obs_end": None, "obs_items": 0, "rq": rq}
            rq.response.add_done_callback(lambda f: rec.update(done=(loop.time(), None if f.cancelled() else f.exception())))
            recs.append(rec)
            return rec

        # ---- client-side work of ctx ----
        for k in range(v["backlog"] + 1):
            track("silent-%d" % k, ctx.request(aiocoap.Message(code=aiocoap.GET, uri="coap://10.0.0.10/s%d" % k), handle_blockwise=False))
        track("separate", ctx.request(aiocoap.Message(code=aiocoap.GET, uri="coap://10.0.0.11/sep"), handle_blockwise=False))
        pm = aiocoap.Message(code=aiocoap.PUT, uri="coap://10.0.0.12/blk", payload=b"B" * v["block_len"])
        pm.remote.maximum_block_size_exp = v["block_szx"]
        track("blockwise", ctx.request(pm))
        orq = ctx.request(aiocoap.Message(code=aiocoap.GET, uri="coap://10.0.0.13/o", observe=0), handle_blockwise=not v["iter_consumer"] and False)
        orec = track("observe", orq)
        # a second observation whose request never gets its first response (silent peer)
        prq = ctx.request(aiocoap.Message(code=aiocoap.GET, uri="coap://10.0.0.10/o-pending", observe=0), handle_blockwise=False)
        prec = track("observe-pending", prq)
        prq.observation.register_errback(lambda e: prec.update(obs_end=(loop.time(), e)))
        if v["iter_consumer"]:

            async def consume():
                try:
                    async for m in orq.observation:
                        orec["obs_items"] += 1
                    orec["obs_end"] = (loop.time(), "StopAsyncIteration")
                except asyncio.CancelledError:
                    raise
                except Exception as e:
                    orec["obs_end"] = (loop.time(), e)

            ctask = asyncio.ensure_future(consume())
        else:
            orq.observation.register_callback(lambda m: orec.update(obs_items=orec["obs_items"] + 1))
            orq.observation.register_errback(lambda e: orec.update(obs_end=(loop.time(), e)))
            ctask = None

        # ---- server-side work of ctx ----
        def client_traffic(k):
            if pc.closed:
                return
            pc.send(X, rc.Msg(rc.CON, 2, pc.next_mid(), bytes([0x70 + (0 if v.get("reuse_token") else k)]), ((11, b"r"),), b"d=%s;c=69;p=x" % repr(v["slow"]).encode()))
            if k < 7:
                loop.call_later(1.3, client_traffic, k + 1)

        loop.call_later(0.2, client_traffic, 0)
        pc.send(X, rc.Msg(rc.CON if v["observer_type"] == "CON" else rc.NON, 1, pc.next_mid(), b"\x6f", ((6, b""), (11, b"obs")), b""))

        def refresh_observation(n):
            if pc.closed:
                return
            pc.send(X, rc.Msg(rc.CON if v["observer_type"] == "CON" else rc.NON, 1, pc.next_mid(), b"\x6f", ((6, b""), (11, b"obs")), b""))
            if n < 3:
                loop.call_later(3.7, refresh_observation, n + 1)

        if v.get("reuse_token"):
            loop.call_later(2.45, refresh_observation, 0)

        def state_change():
            obsres.n += 1
            obsres.updated_state()
            if obsres.n < 14:
                loop.call_later(v["notify_every"], state_change)

        loop.call_later(0.5, state_change)

        # ---- second context's own exchange, spanning the shutdown ----
        other_recs = []

        def other_request(k):
            rq = other.request(aiocoap.Message(code=aiocoap.GET, uri="coap://10.0.0.19/x%d" % k), handle_blockwise=False)
            rec = {"k": k, "t": loop.time(), "done": None}
            rq.response.add_done_callback(lambda f: rec.update(done=(loop.time(), None if f.cancelled() else f.exception(), None if f.exception() else bytes(f.result().payload))))
            other_recs.append(rec)
            if k < 12:
                loop.call_later(0.9, other_request, k + 1)

        loop.call_later(0.1, other_request, 0)

        # the second context is a server, too: a raw peer keeps it busy with slow confirmable requests, so that at
        # every instant it has a handler running and, a quarter of the time, an empty-ACK timer pending
        other_srv = []

        def o_client(peer, src, m, raw):
            if m is not None and rc.is_response(m.code) and m.type == rc.CON:
                peer.send(src, rc.Msg(rc.ACK, 0, m.mid, b"", (), b""))

        po = simnet.RawPeer(net, "10.0.0.20", 40000, o_client)
        OX = simnet.addr("10.0.0.9", 5683)

        def other_traffic(k):
            if po.closed:
                return
            mid = po.next_mid()
            other_srv.append({"k": k, "t": loop.time(), "mid": mid, "token": bytes([0x50, k])})
            po.send(OX, rc.Msg(rc.CON, 2, mid, bytes([0x50, k]), ((11, b"r"),), b"d=0.45;c=69;p=o%d" % k))
            if k < 36:
                loop.call_later(0.37, other_traffic, k + 1)

        loop.call_later(0.15, other_traffic, 0)

        info = {}
        if shutdown_at is None:
            await asyncio.sleep(14.0)
        else:
            if v.get("icmp"):
                # reported just before shutdown is called: the requests to that peer have failed, their tasks
                # and callbacks have not run to completion yet
                net.inject_error(X, simnet.addr(v["icmp"][0], v["icmp"][1]), 111, delay=max(0.0, shutdown_at - v["icmp"][2]))
                info["icmp"] = v["icmp"]

            # requests whose host name is still being resolved when shutdown is called (the resolver takes 1 s: it answers
            # after shutdown() has returned - nothing may go out then; or 8 s: longer than the shutdown time-out)
            def resolving():
                for name, secs in (("slow1.example", 1), ("slow8.example", 8)):
                    for api in (False, True):
                        track("resolving-%s-%ds" % ("blockwise" if api else "raw", secs), ctx.request(aiocoap.Message(code=aiocoap.GET, uri="coap://%s/resolving" % name), handle_blockwise=api))

            loop.call_later(max(0.0, shutdown_at - 0.25), resolving)
            await asyncio.sleep(shutdown_at)
            # what is pending right now?
            tm = ctx.request_interfaces[0]
            mm = tm.token_interface
            info["pending"] = {
                "outgoing": len(getattr(tm, "outgoing_requests", None) or {}),
                "incoming": len(getattr(tm, "incoming_requests", None) or {}),
                "exchanges": len(getattr(mm, "_active_exchanges", None) or {}),
                "backlog": sum(len(b) for b in (getattr(mm, "_backlogs", None) or {}).values()),
                "piggyback_timers": len(getattr(mm, "_piggyback_opportunities", None) or {}),
                "dedup": len(getattr(mm, "_recent_messages", None) or {}),
                "handlers_running": sum(1 for h in hlog if h["ev"] == "enter") - sum(1 for h in hlog if h["ev"] in ("exit", "cancelled")),
                "observers": obsres.count,
            }
            info["unfinished_before"] = [r["name"] for r in recs if r["done"] is None]
            info["resolving"] = sum(1 for r in recs if r["done"] is None and r["name"].startswith("resolving"))
            info["t_call"] = loop.time()
            info["log_mark"] = len(net.log)
            # requests born in the very step in which shutdown is called: their processing task has not run yet
            if v.get("justborn", True):
                for api in (False, True):
                    jb = ctx.request(aiocoap.Message(code=aiocoap.GET, uri="coap://10.0.0.11/justborn"), handle_blockwise=api)
                    track("justborn-%s" % ("blockwise" if api else "raw"), jb)
                    info["unfinished_before"].append("justborn-%s" % ("blockwise" if api else "raw"))
            # the application gives up on one outstanding request in the same step
            if v.get("cancel_one"):
                victim = [r for r in recs if r["name"] == v["cancel_one"] and r["done"] is None]
                if victim:
                    victim[0]["rq"].response.cancel()
                    info["cancelled"] = v["cancel_one"]
            if v.get("cancel_obs") == "pending" and not prq.observation.cancelled:
                prq.observation.cancel()
                info["cancelled_obs"] = "pending"
            elif v.get("cancel_obs") == "established" and not orq.observation.cancelled:
                orq.observation.cancel()
                info["cancelled_obs"] = "established"
            await ctx.shutdown()
            info["t_ret"] = loop.time()
            info["log_mark_ret"] = len(net.log)
            info["loop_exc_at_ret"] = len(loop.exceptions)
            # a request submitted after shutdown must fail at once with the shutdown error
            late = []
            for api, host in ((False, "10.0.0.11"), (True, "10.0.0.11"), (False, "slow1.example"), (True, "slow1.example"), (False, "slow8.example")):
                rq = ctx.request(aiocoap.Message(code=aiocoap.GET, uri="coap://%s/late" % host), handle_blockwise=api)
                rq.response.add_done_callback(lambda f: f.cancelled() or f.exception())
                kind = "resolving" if host.startswith("slow") else None
                t0 = loop.time()
                try:
                    await asyncio.wait_for(asyncio.shield(rq.response), 5)
                    late.append((api, "response", loop.time() - t0, kind))
                except asyncio.TimeoutError:
                    late.append((api, "hang", loop.time() - t0, kind))
                except Exception as e:
                    late.append((api, e, loop.time() - t0, kind))
            info["late"] = late
            await asyncio.sleep(500.0)
        info["handlers"] = list(hlog)
        for r_ in recs:
            r_.pop("rq", None)
        box.update(net=net, X=X, recs=recs, other=other_recs, info=info, obs_count=obsres.count, other_srv=other_srv, OX=OX, PO=po.addr)
        if ctask is not None and not ctask.done():
            ctask.cancel()
        if shutdown_at is None:
            await ctx.shutdown()
        await other.shutdown()
        return True

    res = scenario.run(main, seed, horizon=1e5)
    return res, box


def instants(box):
    ts = set()
    for e in box["net"].log:
        if e.t < 13.5:
            ts.add(round(e.t, 9))
    for h in box["info"]["handlers"]:
        if h["t"] < 13.5:
            ts.add(round(h["t"], 9))
    return sorted(ts)


def judge(v, res, box, when, rep, case, T):
    from aiocoap import error
    from harness import refcodec as rc

    if not res.ok:
        if res.horizon:
            rep.inconc("horizon")
        elif res.hang:
            rep.violation("shutdown-hangs", "shutdown() (or the work around it) never completed: the event loop ran dry", {"variant": repr(v), "when": when}, case)
        else:
            rep.violation("scenario-exception/" + type(res.error).__name__, "an exception escaped from shutdown() or a request API: %r" % res.error, {"variant": repr(v), "when": when, "tb": rep.exception_witness(res.error)}, case)
        return
    net, X, info = box["net"], box["X"], box["info"]
    pend = info["pending"]
    wit = lambda **kw: dict(variant=repr(v), shutdown_at=when, pending=pend, wire_after=[e.brief() for e in net.log[info["log_mark"] :]][:30], requests=[(r["name"], None if r["done"] is None else (round(r["done"][0], 4), repr(r["done"][1])[:60])) for r in box["recs"]], **kw)
    t_call, t_ret = info["t_call"], info["t_ret"]
    # ---- shutdown returns within the time-out ----
    rep.monitor("shutdown_returns")
    if t_ret - t_call > T + 1e-6:
        rep.violation("shutdown-exceeds-timeout", "shutdown() took longer than SHUTDOWN_TIMEOUT", wit(took=t_ret - t_call), case)
    # ---- pending requests / observations ----
    rep.monitor("pending_requests_failed")
    for r in box["recs"]:
        if r["done"] is None:
            rep.violation("request-still-pending-after-shutdown/%s" % r["name"].split("-")[0], "an outstanding request never terminated although its context was shut down", wit(), case)
            return
        t_done, exc = r["done"]
        if r["name"] in info["unfinished_before"]:
            if t_done > t_call + T + 1e-6:
                rep.violation("request-terminated-late/%s" % r["name"].split("-")[0], "an outstanding request terminated later than the shutdown time-out", wit(t_done=t_done), case)
            if exc is None:
                if t_done > t_call + 1e-9:
                    rep.count("completed_during_shutdown")
            elif info.get("cancelled") == r["name"]:
                pass  # cancelled by the application itself just before shutdown
            elif not isinstance(exc, error.Error):
                rep.violation("request-failed-with-non-library-error/%s/%s" % (r["name"].split("-")[0], type(exc).__name__), "an outstanding request was failed with an exception outside the library's error hierarchy at shutdown", wit(exc=repr(exc)), case)
        if r["name"] == "observe" and r["done"][1] is None and info.get("cancelled_obs") != "established":
            # the observation was established (or not yet): it must have been terminated too
            if r["obs_end"] is None:
                rep.violation("observation-not-terminated", "a client-side observation got no terminal signal although its context was shut down", wit(), case)
            elif r["obs_end"][0] > t_call + T + 1e-6:
                rep.violation("observation-terminated-late", "a client-side observation was terminated later than the shutdown time-out", wit(), case)
            elif not (r["obs_end"][1] == "StopAsyncIteration" or isinstance(r["obs_end"][1], error.Error)):
                rep.violation("observation-terminated-with-non-library-error/" + type(r["obs_end"][1]).__name__, "a client-side observation ended with an exception outside the library's error hierarchy", wit(), case)
    # ---- handlers cancelled ----
    hl = info["handlers"]
    running = {}
    for h in hl:
        k = (h["remote"], h["mid"], h["token"])
        if h["ev"] == "enter" and h["t"] <= t_call + 1e-9:
            running[k] = h
        elif h["ev"] in ("exit", "cancelled") and k in running and h["t"] <= t_call + 1e-9 and h["ev"] == "exit":
            running.pop(k, None)
    if running:
        rep.monitor("handlers_cancelled", len(running))
        for k, h in running.items():
            ends = [x for x in hl if (x["remote"], x["mid"], x["token"]) == k and x["ev"] in ("exit", "cancelled") and x["t"] >= h["t"]]
            if not ends or ends[0]["ev"] != "cancelled" or ends[0]["t"] > t_call + T + 1e-6:
                if ends and ends[0]["ev"] == "exit" and abs(ends[0]["t"] - t_call) < 1e-9:
                    continue  # finished in the very instant of the shutdown call
                rep.violation("handler-not-cancelled", "a server handler that was running when shutdown() was called was not cancelled within the shutdown time-out", wit(handler=repr(h), ends=repr(ends[:1])), case)
                break
    if box["obs_count"] != 0:
        rep.violation("server-observation-not-ended", "a server-side observation survived shutdown (observer count %d)" % box["obs_count"], wit(), case)
    # ---- silence after shutdown returned ----
    rep.monitor("silent_after_shutdown")
    after = [e for e in net.log[info["log_mark_ret"] :] if e.kind == "send" and e.src == X]
    if after:
        rep.violation("transmission-after-shutdown", "the context transmitted a datagram after shutdown() had returned", wit(events=[e.brief() for e in after[:3]]), case)
    # ---- nothing raises in the loop ----
    rep.monitor("no_loop_exception")
    if res.loop_exceptions:
        first = res.loop_exceptions[0]
        msg = (first.get("exception") or "") + (first.get("message") or "") + (first.get("handle") or "")
        key = "loop-exception/piggyback-timer-after-shutdown" if ("on_timeout" in msg or "_fatal_error" in msg) else "loop-exception/" + str(first.get("exc_type"))
        rep.violation(key, "a timer or callback of the context raised in the event loop %s shutdown" % ("after" if first["vtime"] >= t_ret - 1e-9 else "during"), wit(loop=res.loop_exceptions[:2]), case)
    if res.unraisable:
        rep.violation("unraisable-after-shutdown", "an exception was raised in a finalizer", wit(unraisable=res.unraisable[:2]), case)
    if res.logging_failures:
        rep.violation("logging-call-failed", "a logging call inside the library raised", wit(failures=res.logging_failures[:2]), case)
    # ---- later requests fail at once with the shutdown error ----
    rep.monitor("later_request_fails_fast")
    for api, outcome, took, kind in info["late"]:
        # (kind "resolving": addressed by a host name whose resolution takes 1 s or 8 s)
        apiname = ("%s-" % kind if kind else "") + ("blockwise" if api else "raw")
        if outcome == "hang":
            rep.violation("later-request-hangs/%s" % apiname, "a request submitted after shutdown neither completed nor failed" + (" within 5 s (its host name was still being resolved)" if kind else ""), wit(), case)
        elif outcome == "response" or not isinstance(outcome, error.LibraryShutdown):
            rep.violation("later-request-wrong-outcome/%s/%s" % (apiname, type(outcome).__name__ if not isinstance(outcome, str) else outcome), "a request submitted after shutdown did not fail with the shutdown error", wit(outcome=repr(outcome)), case)
        elif took > 1e-6:
            rep.violation("later-request-fails-late" + ("/%s" % kind if kind else ""), "a request submitted after shutdown failed only after %r s" % took + (" (when its host name had been resolved)" if kind else ""), wit(), case)
    if info.get("resolving"):
        rep.monitor("resolving_at_shutdown", info["resolving"])
    # ---- the other context ----
    rep.monitor("other_context_unaffected")
    for r in box["other"]:
        if r["done"] is None or r["done"][1] is not None or r["done"][2] != b"other-ok" or abs((r["done"][0] - r["t"]) - 0.402) > 1e-6:
            rep.violation("other-context-affected", "an exchange of a second context in the same process did not complete normally", wit(other=repr(r)), case)
            break
    # ... and as a server: every request gets its empty ACK at EMPTY_ACK_DELAY and its separate response when the
    # handler is done, whatever happened to the context that was shut down
    OX, PO = box["OX"], box["PO"]
    osends = [e for e in net.log if e.kind == "send" and e.src == OX and e.dst == PO and e.msg is not None]
    for q in box["other_srv"]:
        t_arr = q["t"] + 0.001
        acks = [e for e in osends if e.msg.mid == q["mid"] and e.msg.type == rc.ACK]
        resp = {}
        for e in osends:
            if e.msg.token == q["token"] and rc.is_response(e.msg.code):
                resp.setdefault(e.msg.mid, e)
        ok = len({e.data for e in acks}) == 1 and acks[0].msg.code == 0 and abs(acks[0].t - (t_arr + 0.1)) < 1e-6 and len(resp) == 1 and abs(list(resp.values())[0].t - (t_arr + 0.45)) < 1e-6 and list(resp.values())[0].msg.payload == b"o%d" % q["k"]
        if not ok:
            rep.violation("other-context-affected/as-server", "a request served by a second context in the same process did not get its empty ACK at EMPTY_ACK_DELAY and its separate response at handler completion", wit(request=repr(q), acks=[(round(e.t - t_arr, 6), e.msg.code) for e in acks], responses=[(round(e.t - t_arr, 6), e.msg.code) for e in resp.values()]), case)
            break
    kinds = tuple(sorted(k for k, n in pend.items() if n))
    rep.case((repr(sorted(v.items())), tuple(sorted((k, min(n, 3)) for k, n in pend.items() if n)), when[1]), nontrivial=bool(kinds))
    rep.seen("pending_kinds", kinds)


# =====================================================================================================
# the same over CoAP-over-TCP (RFC 8323): real tcpclient / tcpserver transports on harness/simtcp.py
# =====================================================================================================

TCP_ACTIVE = 9.5  # shutdown instants are taken from the first ... seconds of the scenario
TCP_BIG = 40 * 1024  # size of the representation the peer that never reads asks for (8 times; the fabric's socket buffers take 64 KiB)
TCP_MODES = ["at-once", 0.5, 10.0, "never"]  # what a raw peer does about a Release: hang up after ... seconds
# Requests to one host are submitted one after the other, so that the client pool opens one connection per host. With
# TCP_TWIN (every other scenario) the requests to the silent peer are all submitted in one step while no connection to
# it exists yet: one connection per host must come out of that race (key family tcp-duplicate-connection-orphaned).
TCP_TWIN = True


def variant_tcp(vseed):
    r = random.Random(vseed * 7919 + 11)
    return {
        "delay": r.choice([0.05, 0.2, 0.3]),  # one-way link delay; the handshake takes two of them
        # duration of the victim's handlers: each of the three in every run (three consecutive scenario numbers), paired
        # with the other per-scenario features differently from run to run
        "slow": (r.choice([0.05, 0.4, 2.0]), [0.05, 0.4, 2.0][(vseed + vseed // 1000) % 3])[1],
        "resp_after": r.choice([0.3, 0.8, 1.7]),  # raw servers answer after ...
        "ping_every": r.choice([1.3, 2.3]),
        "notify_every": r.choice([0.7, 1.5]),
        "block_len": r.choice([1500, 3000, 5000]),
        "iter_consumer": r.random() < 0.5,
        # the application gives up on one outstanding request in the step in which it calls shutdown: a named one, or
        # ("setup", two scenarios out of three) the one whose connection is being set up or has come up in this very instant
        "cancel_one": [r.choice([None, "slow", "blockwise"]), "setup", "setup"][vseed % 3],
        "cancel_obs": [None, "pending", "established", "pending"][vseed % 4],
        "backlog": r.randrange(1, 4),
        # every scenario has raw peers of all four kinds; which peer is of which kind rotates with the seed
        "mode_shift": vseed % 4,
        "twin": TCP_TWIN and vseed % 2 == 0,
        # one scenario out of three: a peer of the victim's server side that asks for a large representation eight times and
        # never reads: the connection clogs, close() on it cannot complete, the server transport's shutdown stalls
        "clogged": vseed % 3 == 1,
    }


class TriggerMissed(Exception):
    """the fabric event a shutdown was to be tied to did not happen in this run (harness matter: inconclusive)"""


def _task_label(task):
    import re

    name = task.get_name()
    return re.sub(r"\s+", " ", re.sub(r"0x[0-9a-fA-F]+", "", name.split("<")[0])).strip() or "unnamed"


def _ends_summary(fab, rt, ctx_ends, mark_ret):
    """what became of every connection end of the victim (a function of its own, outside the scenario coroutine)"""
    ends = []
    for e in ctx_ends:
        first = [i for i, ev in enumerate(fab.log) if ev.conn == e.conn and ev.side == e.side and ev.kind in ("established", "accepted")]
        frames = []
        for idx, t, data in e.writes:
            try:
                fr = [rt.parse_frame(x) for x in rt.split(data)[0]]
            except rt.Malformed:
                fr = []
            frames.append((idx, t, [_frame_name(rt, f) for f in fr] or ["unparsable"]))
        late_frames = []
        for idx, t, data in e.late:
            try:
                late_frames += [_frame_name(rt, rt.parse_frame(x)) for x in rt.split(data)[0]]
            except rt.Malformed:
                late_frames.append("unparsable")
        ends.append({"repr": repr(e), "side": e.side, "conn": e.conn, "late_frames": late_frames, "close_pending": e.close_pending, "backlog": e.wbuf_size, "made": first[0] if first else None, "t_made": e.t_made, "closing": e.closing, "t_closing": e.t_closing, "frames": frames, "late_writes": len(e.late), "peer": e._extra["peername"][0],
                     "delivered_after": None if mark_ret is None else sum(1 for ev in fab.log[mark_ret:] if ev.conn == e.conn and ev.side == e.side and ev.kind in ("deliver", "dropped"))})
    return ends


def run_tcp(v, seed, shutdown_at):
    """One busy CoAP-over-TCP scenario around a victim context (tcpserver + tcpclient); returns (result, box)"""
    from harness import scenario, simtcp, reftcp as rt
    import asyncio
    import logging
    import aiocoap
    import aiocoap.resource as R

    box = {}
    VICTIM, OTHER = "10.1.0.1", "10.1.0.9"

    async def main(loop):
        main_task = asyncio.current_task()
        fab = simtcp.Fabric(loop, delay=v["delay"])
        fab.install()
        fab.local_ip.update(ctx=VICTIM, other=OTHER)
        # the second context only ever connects to its own peer and to the victim; nobody else uses create_connection
        fab.dest_owner = lambda host, port: "other" if host in ("10.1.0.19", VICTIM) else "ctx"
        tasks = []  # (task, parent task, number of tasks made before)
        mine = set()  # tasks of the harness itself

        def factory(lp, coro, **kw):
            t = asyncio.Task(coro, loop=lp, **kw)
            tasks.append((t, asyncio.current_task(lp)))
            return t

        loop.set_task_factory(factory)

        def harness_task(coro):
            t = asyncio.ensure_future(coro)
            mine.add(t)
            return t

        info = {"down": False}
        hlog = []

        class Slow(R.Resource):
            async def render_post(self, request):
                cfg = dict(p.split(b"=", 1) for p in bytes(request.payload).split(b";") if b"=" in p)
                entry = {"ev": "enter", "t": loop.time(), "remote": request.remote.hostinfo, "token": bytes(request.token).hex()}
                self.log.append(entry)
                try:
                    d = float(cfg.get(b"d", b"0"))
                    if d > 0:
                        await asyncio.sleep(d)
                    self.log.append(dict(entry, ev="exit", t=loop.time()))
                    return aiocoap.Message(code=aiocoap.CHANGED, payload=cfg.get(b"p", b"ok"))
                except asyncio.CancelledError:
                    self.log.append(dict(entry, ev="cancelled", t=loop.time()))
                    raise

        class Obs(R.ObservableResource):
            def __init__(self):
                super().__init__()
                self.n = 0
                self.count = 0

            def update_observation_count(self, c):
                self.count = c

            async def render_get(self, request):
                return aiocoap.Message(payload=b"state-%d" % self.n)

        def site(log, extra=None):
            s = R.Site()
            res = Slow()
            res.log = log
            s.add_resource(["r"], res)
            for path, x in (extra or {}).items():
                s.add_resource(list(path), x)
            return s

        for name in ("coap-victim", "coap-other"):
            logging.getLogger(name).setLevel(logging.INFO)  # debug records are never formatted by the collector anyway
        obsres = Obs()
        fab.next_server_owner = "ctx"
        class Big(R.Resource):
            async def render_get(self, request):
                return aiocoap.Message(payload=b"x" * TCP_BIG)

        ctx = await aiocoap.Context.create_server_context(site(hlog, {("obs",): obsres, ("big",): Big()}), bind=(VICTIM, None), transports=["tcpserver", "tcpclient"], loggername="coap-victim")
        fab.next_server_owner = "other"
        other = await aiocoap.Context.create_server_context(site([]), bind=(OTHER, None), transports=["tcpserver", "tcpclient"], loggername="coap-other")
        fab.next_server_owner = None

        # ---- raw peers ----
        raws = []

        def mode_of(i):
            return TCP_MODES[(i + v["mode_shift"]) % 4]

        def raw(name, kind, mode, behaviour, script=None, pings=True):
            def on_frame(peer, f):
                if f.code == rt.RELEASE:
                    peer.released = loop.time()
                    if mode == "at-once":
                        peer.hang_up()
                    elif mode != "never":
                        loop.call_later(mode, peer.hang_up)
                elif f.code == rt.PING:
                    peer.send(rt.Frame(rt.PONG, f.token, (), b""))
                elif f.code == 0 or rt.is_signalling(f.code):
                    pass
                elif behaviour is not None:
                    behaviour(peer, f)

            def on_made(peer):
                def ping(k):
                    if peer.open and k < 8 and pings:
                        peer.send(rt.Frame(rt.PING, bytes([k]), (), b""))
                        loop.call_later(v["ping_every"], ping, k + 1)

                loop.call_later(v["ping_every"] * 0.37, ping, 0)
                if script is not None:
                    script(peer)

            p = simtcp.RawStream(loop, on_frame, on_made, name=name)
            p.kind, p.mode, p.released, p.pings = kind, mode, None, pings
            raws.append(p)
            return p

        def b_slow(peer, f):
            if rt.is_request(f.code):
                loop.call_later(v["resp_after"], peer.send, rt.Frame(0x45, f.token, (), b"slow-ok"))

        def b_block(peer, f):
            if rt.is_request(f.code):
                b1 = [val for n, val in f.options if n == 27]
                if b1 and int.from_bytes(b1[0], "big") & 8:
                    peer.send(rt.Frame(0x5F, f.token, ((27, b1[0]),), b""))  # 2.31 Continue
                else:
                    peer.send(rt.Frame(0x44, f.token, tuple((27, x) for x in b1[:1]), b""))

        def b_notify(peer, f):
            if rt.is_request(f.code) and any(n == 6 for n, _ in f.options):

                def tick(k):
                    if peer.open and k <= 12:
                        peer.send(rt.Frame(0x45, f.token, ((6, bytes([k]) if k else b""),), b"n%d" % k))
                        loop.call_later(1.1, tick, k + 1)

                tick(0)

        def b_echo(peer, f):
            if rt.is_request(f.code):
                loop.call_later(0.4, peer.send, rt.Frame(0x45, f.token, (), b"other-ok"))

        fab.listen("10.1.0.10", 5683, lambda: raw("silent", "server", mode_of(3), None, pings=False), "raw")
        fab.listen("10.1.0.11", 5683, lambda: raw("slow", "server", mode_of(0), b_slow), "raw")
        fab.listen("10.1.0.12", 5683, lambda: raw("block", "server", mode_of(1), b_block), "raw")
        fab.listen("10.1.0.13", 5683, lambda: raw("notify", "server", mode_of(2), b_notify), "raw")
        fab.blackhole("10.1.0.15")  # never completes the handshake
        # host names that create_connection takes a while to resolve (both are the slow responder)
        fab.slow_names.update({"slow1.example": (1.0, "10.1.0.11"), "slow8.example": (8.0, "10.1.0.11")})
        for k in range(40):
            fab.listen("10.1.0.%d" % (30 + k), 5683, (lambda k=k: raw("fresh-%d" % k, "server", mode_of(k), b_slow, pings=k % 4 == 1)), "raw")
        fab.listen("10.1.0.19", 5683, lambda: raw("echo", "server", "at-once", b_echo), "raw")

        # raw clients of the victim's server side: slow requests, an observation, pings; one more client connects every 2.7 s
        def client_script(first):
            def script(peer):
                def rq(k):
                    if peer.open and k < (8 if first else 1):
                        peer.send(rt.Frame(2, bytes([0x70 + k]), ((11, b"r"),), b"d=%s;p=x" % repr(v["slow"]).encode()))
                        loop.call_later(1.3, rq, k + 1)

                loop.call_later(0.15, rq, 0)
                if first:
                    loop.call_later(0.1, lambda: peer.send(rt.Frame(1, b"\x6f", ((6, b""), (11, b"obs")), b"")))

            return script

        async def raw_connect(ip, mode, first, pings=True):
            try:
                await fab.connect(lambda: raw("client-" + ip, "client", mode, None, client_script(first), pings=pings), VICTIM, 5683, owner="raw", local=(ip, 40000))
            except OSError:
                info["raw_refused"] = info.get("raw_refused", 0) + 1

        loop.call_later(0.05, lambda: harness_task(raw_connect("10.1.0.14", mode_of(0), True)))

        # the peer that never reads: it announces that it takes large messages, asks, and leaves its socket alone
        def clog_made(peer):
            peer.send(rt.Frame(rt.CSM, b"", ((2, (1 << 20).to_bytes(3, "big")), (4, b"")), b""))
            for k in range(8):
                peer.send(rt.Frame(1, bytes([0x40 + k]), ((11, b"big"),), b""))
            peer.transport.pause_reading()

        def clog_peer():
            p = simtcp.RawStream(loop, None, clog_made, send_csm=False, name="clogged")
            p.kind, p.mode, p.released, p.pings = "client", "never", None, False
            raws.append(p)
            return p

        async def clog_connect():
            await fab.connect(clog_peer, VICTIM, 5683, owner="raw", local=("10.1.0.70", 40000))

        if v.get("clogged"):
            loop.call_later(0.35, lambda: harness_task(clog_connect()))
        # a new peer connects every 0.65 s (so that there are many distinct moments at which a connection is being accepted)
        for k in range(14):
            loop.call_later(0.45 + 0.65 * k, lambda k=k: harness_task(raw_connect("10.1.0.%d" % (80 + k), mode_of(k + 1), False, pings=k % 4 == 0)))

        def state_change():
            obsres.n += 1
            obsres.updated_state()
            if obsres.n < 14:
                loop.call_later(v["notify_every"], state_change)

        loop.call_later(0.5, state_change)

        # ---- client-side work of the victim ----
        recs = []

        def track(name, rq, dst=None):
            rec = {"name": name, "t": loop.time(), "done": None, "obs_end": None, "obs_items": 0, "rq": rq, "resp": None, "dst": dst}

            def done(f):
                rec.update(done=(loop.time(), None if f.cancelled() else f.exception()))
                if not f.cancelled() and f.exception() is None:
                    rec["resp"] = f.result()

            rq.response.add_done_callback(done)
            recs.append(rec)
            return rec

        def submit(name, uri, code=aiocoap.GET, payload=b"", blockwise=False, observe=None):
            if info["down"]:
                return None
            m = aiocoap.Message(code=code, uri=uri, payload=payload)
            if observe is not None:
                m.opt.observe = observe
            return track(name, ctx.request(m, handle_blockwise=blockwise), uri.split("/")[2])

        def at(t, fn, *a, **kw):
            loop.call_later(t, lambda: fn(*a, **kw))

        submit("silent-0", "coap+tcp://10.1.0.10/s0")
        for k in range(1, v["backlog"] + 1):
            if v.get("twin"):
                submit("silent-%d" % k, "coap+tcp://10.1.0.10/s%d" % k)
            else:
                at(0.9, submit, "silent-%d" % k, "coap+tcp://10.1.0.10/s%d" % k)
        at(0.05, submit, "connecting", "coap+tcp://10.1.0.15/never")
        for k in range(9):
            at(1.1 * k, submit, "slow-%d" % k, "coap+tcp://10.1.0.11/slow%d" % k)
        for k in range(2):
            at(0.2 + 4.3 * k, submit, "blockwise-%d" % k, "coap+tcp://10.1.0.12/blk", aiocoap.PUT, b"B" * v["block_len"], True)
        for k in range(7):
            # (through the block-wise API, which runs a task per request that is cancelled with it, where requests get cancelled)
            at(0.9 + 1.3 * k, submit, "fresh-%d" % k, "coap+tcp://10.1.0.%d/f" % (30 + k), blockwise=v["cancel_one"] == "setup")
        for k in range(3):
            at(0.3 + 2.9 * k, submit, "toother-%d" % k, "coap+tcp://%s/r" % OTHER, aiocoap.POST, b"d=1.2;p=o", v["cancel_one"] == "setup")
        orec = submit("observe", "coap+tcp://10.1.0.13/o", observe=0)
        orq = orec["rq"]
        obox = {}

        def pending_observation():
            r_ = submit("observe-pending", "coap+tcp://10.1.0.10/o-pending", observe=0)
            if r_ is not None:
                obox["prec"] = r_
                r_["rq"].observation.register_errback(lambda e: r_.update(obs_end=(loop.time(), e)))

        at(0.95, pending_observation)
        if v["iter_consumer"]:

            async def consume():
                try:
                    async for m in orq.observation:
                        orec["obs_items"] += 1
                    orec["obs_end"] = (loop.time(), "StopAsyncIteration")
                except asyncio.CancelledError:
                    raise
                except Exception as e:
                    orec["obs_end"] = (loop.time(), e)

            ctask = harness_task(consume())
        else:
            orq.observation.register_callback(lambda m: orec.update(obs_items=orec["obs_items"] + 1))
            orq.observation.register_errback(lambda e: orec.update(obs_end=(loop.time(), e)))
            ctask = None

        # ---- the second context: client and observer of the victim (not judged), and its own exchange (judged) ----
        other_recs = []

        def other_request(k):
            rq = other.request(aiocoap.Message(code=aiocoap.GET, uri="coap+tcp://10.1.0.19/x%d" % k), handle_blockwise=False)
            rec = {"k": k, "t": loop.time(), "done": None}
            rq.response.add_done_callback(lambda f: rec.update(done=(loop.time(), None if f.cancelled() else repr(f.exception()) if f.exception() else None, None if f.cancelled() or f.exception() else bytes(f.result().payload))))
            other_recs.append(rec)
            if k < 9:
                loop.call_later(0.9, other_request, k + 1)

        loop.call_later(0.1, other_request, 0)
        keep = []

        def other_to_victim(k):
            keep.append(other.request(aiocoap.Message(code=aiocoap.POST, uri="coap+tcp://%s/r" % VICTIM, payload=b"d=%s;p=v" % repr(v["slow"]).encode()), handle_blockwise=False))
            keep[-1].response.add_done_callback(lambda f: f.cancelled() or f.exception())
            if k < 5:
                loop.call_later(1.7, other_to_victim, k + 1)

        loop.call_later(0.25, other_to_victim, 0)
        oobs = other.request(aiocoap.Message(code=aiocoap.GET, uri="coap+tcp://%s/obs" % VICTIM, observe=0), handle_blockwise=False)
        oobs.observation.register_callback(lambda m: None)
        oobs.observation.register_errback(lambda e: None)
        oobs.response.add_done_callback(lambda f: f.cancelled() or f.exception())

        def ctx_ends():
            return [e for e in fab.ends if e.owner == "ctx"]

        if shutdown_at is None:
            await asyncio.sleep(TCP_ACTIVE + 0.5)
            info["loop_exc_at_end"] = len(loop.exceptions)
        else:
            def resolving():
                info["down"] = False
                for name, secs in (("slow1.example", 1), ("slow8.example", 8)):
                    for api in (False, True):
                        submit("resolving-%s-%ds" % ("blockwise" if api else "raw", secs), "coap+tcp://%s/resolving" % name, blockwise=api)

            if isinstance(shutdown_at, float):
                loop.call_later(max(0.0, shutdown_at - 0.25), resolving)
            if isinstance(shutdown_at, (list, tuple)):
                # ["step", conn, side, kind, n, k]: in the k-th loop iteration after the one in which that fabric event happened
                # (k = 0: the very next one, ahead of everything the event itself has scheduled)
                try:
                    await asyncio.wait_for(fab.arm(shutdown_at[1], shutdown_at[2], shutdown_at[3], shutdown_at[4]), TCP_ACTIVE + 2)
                except asyncio.TimeoutError:
                    raise TriggerMissed(repr(shutdown_at))
                for _ in range(shutdown_at[5]):
                    await asyncio.sleep(0)
            else:
                await asyncio.sleep(shutdown_at)
            if not isinstance(shutdown_at, float):
                resolving()  # (tied to a step: no saying when that is; the requests are born in the step of the shutdown)
            tms = list(ctx.request_interfaces)
            info["pending"] = {
                "outgoing": sum(len(getattr(tm, "outgoing_requests", None) or {}) for tm in tms),
                "incoming": sum(len(getattr(tm, "incoming_requests", None) or {}) for tm in tms),
                "connecting": sum(1 for c in fab.connects if c["owner"] == "ctx" and c["state"] == "pending"),
                "connecting_handshake": sum(1 for c in fab.connects if c["owner"] == "ctx" and c["state"] == "pending" and c["dst"][0] != "10.1.0.15" and not c["dst"][0].startswith("slow")),
                "accepting": sum(1 for e in ctx_ends() if e.side == "s" and e.protocol is None and not e.closing),
                "client_conns": sum(1 for e in ctx_ends() if e.side == "c" and not e.closing),
                "server_conns": sum(1 for e in ctx_ends() if e.side == "s" and not e.closing),
                "frames_in_flight": sum(1 for e in ctx_ends() for it in e.inbox if it[0] == "data"),
                "blockwise": sum(1 for r in recs if r["name"].startswith("blockwise") and r["done"] is None),
                "handlers_running": sum(1 for h in hlog if h["ev"] == "enter") - sum(1 for h in hlog if h["ev"] in ("exit", "cancelled")),
                "observers": obsres.count,
                "resolving": sum(1 for c in fab.connects if c["owner"] == "ctx" and c["state"] == "pending" and c["dst"][0].startswith("slow")),
                "clogged_conns": sum(1 for e in ctx_ends() if e.wbuf_size and not e.lost_scheduled),
                "observing": int(orec["done"] is not None and orec["done"][1] is None and orec["obs_end"] is None),
            }
            info["down"] = True
            info["unfinished_before"] = [r["name"] for r in recs if r["done"] is None]
            info["connecting_before"] = [c["dst"][0] for c in fab.connects if c["owner"] == "ctx" and c["state"] == "pending"]
            info["t_call"] = loop.time()
            info["mark_call"] = len(fab.log)
            # requests born in the very step in which shutdown is called: over an established connection, and needing a new one
            for name, uri, api in (("justborn-pooled", "coap+tcp://10.1.0.11/justborn", False), ("justborn-fresh", "coap+tcp://10.1.0.60/justborn", False), ("justborn-freshbw", "coap+tcp://10.1.0.62/justborn", True)):
                info["down"] = False
                submit(name, uri, blockwise=api)
                info["down"] = True
                info["unfinished_before"].append(name)
            if v.get("cancel_one") == "setup":
                young = {}  # host -> when the youngest connection set-up towards it began
                for c in fab.connects:
                    if c["owner"] == "ctx" and (c["state"] == "pending" or (c["state"] == "established" and c["end"].t_made is not None and c["end"].t_made >= loop.time() - 1e-9)):
                        young[c["dst"][0]] = c["t_start"]
                victim = sorted((r for r in recs if r["done"] is None and r["dst"] in young and r["dst"] != "10.1.0.15" and not r["name"].startswith(("justborn", "resolving"))), key=lambda r: -young[r["dst"]])
                if victim:
                    info["cancelled_in_setup"] = True
            elif v.get("cancel_one"):
                victim = [r for r in recs if r["name"].startswith(v["cancel_one"]) and r["done"] is None]
            else:
                victim = []
            if victim:
                victim[0]["rq"].response.cancel()
                info["cancelled"] = victim[0]["name"]
                info["cancelled_dst"] = victim[0]["dst"]
            prec = obox.get("prec")
            if v.get("cancel_obs") == "pending" and prec is not None and not prec["rq"].observation.cancelled:
                prec["rq"].observation.cancel()
                info["cancelled_obs"] = "pending"
            elif v.get("cancel_obs") == "established" and not orq.observation.cancelled:
                orq.observation.cancel()
                info["cancelled_obs"] = "established"
            ntasks_call = len(tasks)
            try:
                await ctx.shutdown()
            except Exception as e:
                info["shutdown_exc"] = e
            info["t_ret"] = loop.time()
            info["mark_ret"] = len(fab.log)
            info["loop_exc_at_ret"] = len(loop.exceptions)
            # the tasks that shutdown() started (children of this task while it was inside shutdown(), and theirs)
            tree = set()
            for t, parent in tasks[ntasks_call:]:
                if parent is main_task or parent in tree:
                    tree.add(t)
            info["shutdown_tasks"] = len(tree)
            info["shutdown_tasks_pending"] = sorted(_task_label(t) for t in tree if not t.done())
            info["open_at_return"] = [repr(e) for e in ctx_ends() if not e.closing]
            # requests submitted after shutdown must fail at once with the shutdown error, wherever they are addressed
            late = []
            probes = [("pooled", "coap+tcp://10.1.0.11/late", False), ("pooled", "coap+tcp://10.1.0.11/late", True), ("fresh", "coap+tcp://10.1.0.61/late", False), ("fresh", "coap+tcp://10.1.0.63/late", True), ("nohandshake", "coap+tcp://10.1.0.15/late", False), ("nohandshake", "coap+tcp://10.1.0.15/late", True), ("resolving", "coap+tcp://slow1.example/late", False), ("resolving", "coap+tcp://slow1.example/late", True), ("resolving", "coap+tcp://slow8.example/late", False), ("aiocoap-peer", "coap+tcp://%s/r" % OTHER, False)]
            answered = [r for r in recs if r["resp"] is not None]
            if answered:
                probes.append(("by-remote", answered[0]["resp"].remote, False))
            for kind, where, api in probes:
                if isinstance(where, str):
                    m = aiocoap.Message(code=aiocoap.GET, uri=where)
                else:
                    m = aiocoap.Message(code=aiocoap.GET, uri_path=["late"])
                    m.remote = where
                mark = len(fab.log)
                rq = ctx.request(m, handle_blockwise=api)
                rq.response.add_done_callback(lambda f: f.cancelled() or f.exception())
                t0 = loop.time()
                try:
                    await asyncio.wait_for(asyncio.shield(rq.response), 5)
                    outcome = "response"
                except asyncio.TimeoutError:
                    outcome = "hang"
                except Exception as e:
                    outcome = e
                late.append({"kind": kind, "api": "blockwise" if api else "raw", "outcome": outcome, "took": loop.time() - t0, "connects": sum(1 for e in fab.log[mark:] if e.kind == "connect" and e.owner == "ctx")})
            info["late"] = late
            # peers that have not hung up go on talking: a Ping, and a stray response / a new request
            probed = 0
            for p in raws:
                # (the peers that never send a Ping stay quiet: a connection that nobody closes and nothing happens on)
                if p.open and p.released is not None and p.pings:
                    probed += 1
                    p.send(rt.Frame(rt.PING, b"\xee", (), b""))
                    if p.kind == "server":
                        p.send(rt.Frame(0x45, b"\x99", (), b"stray"))
                    else:
                        p.send(rt.Frame(2, b"\x98", ((11, b"r"),), b"d=0;p=late"))
            info["probed"] = probed
            # a peer that tries to connect now must not be accepted
            harness_task(raw_connect("10.1.0.99", "at-once", False))
            info["raw_probe"] = True
            await asyncio.sleep(200.0)
        info["handlers"] = list(hlog)
        for r_ in recs:
            r_.pop("rq", None)
            r_.pop("resp", None)
        if ctask is not None and not ctask.done():
            ctask.cancel()
        left = [t for t, parent in tasks if not t.done() and t not in mine and t is not main_task]
        info["tasks_left"] = sorted(_task_label(t) for t in left)
        ends = _ends_summary(fab, rt, ctx_ends(), None if shutdown_at is None else info["mark_ret"])
        box.update(fab=fab, recs=recs, other=other_recs, info=info, obs_count=obsres.count, ends=ends, connects=[dict(c, end=None) for c in fab.connects if c["owner"] == "ctx"], raws=[(p.name, p.mode, p.released, p.open) for p in raws])
        if shutdown_at is None:
            await ctx.shutdown()
        await other.shutdown()
        return True

    res = scenario.run(main, seed, horizon=1e5)
    return res, box


def _frame_name(rt, f):
    names = {rt.CSM: "CSM", rt.PING: "Ping", rt.PONG: "Pong", rt.RELEASE: "Release", rt.ABORT: "Abort"}
    if f.code in names:
        return names[f.code]
    if f.code == 0:
        return "empty"
    if rt.is_request(f.code):
        return "request"
    if rt.is_response(f.code):
        return "response"
    return "code-%d" % f.code


def instants_tcp(box):
    """exact event instants (shutdown is also injected *at* them), one per 1e-9"""
    ts = {}
    for t in [e.t for e in box["fab"].log] + [h["t"] for h in box["info"]["handlers"]]:
        if 0 < t < TCP_ACTIVE:
            ts.setdefault(round(t, 9), t)
    return [ts[k] for k in sorted(ts)]


TCP_LIFECYCLE = ("connect", "established", "accepting", "accepted", "made", "close", "abort", "eof", "reset", "force-close", "lost")


def steps_tcp(box):
    """the connection life-cycle events of the victim's connection ends in the baseline, as (conn, side, kind, n)"""
    seen, out = {}, []
    for e in box["fab"].log:
        if e.conn is None or e.kind not in TCP_LIFECYCLE:
            continue
        key = (e.conn, e.side, e.kind)
        n = seen[key] = seen.get(key, -1) + 1
        if e.owner == "ctx" and 0 < e.t < TCP_ACTIVE:
            out.append((e.conn, e.side, e.kind, n))
    return out


F1 = "tcp-connect-despite-shutdown"  # connection set-up that goes on (or begins) although the context is shut down
F2 = "tcp-connection-survives-shutdown"  # a connection that existed when shutdown was called lives on afterwards
F4 = "tcp-cancelled-request-leaks-connection"  # a connection that comes up just when its request is cancelled belongs to nobody
F3 = "tcp-shutdown-raises"  # shutdown() does not complete: an exception leaves it (and what it had not yet done stays undone)


def judge_tcp(v, res, box, when, rep, case, T, base):
    from aiocoap import error

    if not res.ok:
        if res.horizon:
            rep.inconc("horizon")
        elif isinstance(res.error, TriggerMissed):
            rep.inconc("tcp: the fabric event %s of the baseline did not occur in the run with the shutdown tied to it" % res.error)
        elif res.hang:
            rep.violation("tcp-shutdown-hangs" + ("/clogged-peer" if v.get("clogged") else ""), "shutdown() (or the work around it) never completed: the event loop ran dry", {"variant": repr(v), "when": when}, case)
        else:
            rep.violation("tcp-scenario-exception/" + type(res.error).__name__ + ("/clogged-peer" if v.get("clogged") else ""), "an exception escaped from shutdown() or a request API: %r" % res.error, {"variant": repr(v), "when": when, "tb": rep.exception_witness(res.error)}, case)
        return
    fab, info = box["fab"], box["info"]
    pend = info["pending"]
    t_call, t_ret, mark_call, mark_ret = info["t_call"], info["t_ret"], info["mark_call"], info["mark_ret"]

    def brief(e):
        d = e.data
        return (round(e.t, 4), e.kind, e.conn, e.side, e.owner, (d[:48].hex() + ("..(%d bytes)" % len(d) if len(d) > 48 else "")) if isinstance(d, bytes) else d)

    wit = lambda **kw: dict(
        variant=repr(v), shutdown_at=when, t_call=t_call, t_ret=t_ret, pending=pend, fabric_after_call=[brief(e) for e in fab.log[mark_call:] if e.owner == "ctx"][:40],
        requests=[(r["name"], None if r["done"] is None else (round(r["done"][0], 4), repr(r["done"][1])[:60])) for r in box["recs"] if r["name"] in info["unfinished_before"]], log_errors=[x["msg"][:200] for x in res.log_errors[:2]], **kw
    )
    ends = box["ends"]
    raised = info.get("shutdown_exc")
    # a connection of the victim that the peer does not drain: close() was called and cannot complete. It is the documented
    # behaviour that shutdown() then gives up at the time-out and returns ('Shutdown timeout exceeded'), leaving the task
    # that waits for that transport behind; everything else the statement demands holds regardless, and what is found
    # amiss in such a run is keyed with the suffix /clogged-peer
    stalled = [e["repr"] for e in ends if e["close_pending"]]

    def violation(key, *a):
        rep.violation(key + ("/clogged-peer" if stalled else ""), *a)

    # shutdown() knew the connection and released it (or tried to, when something else had closed it in the same instant)
    released = lambda e: any("Release" in names for idx, t, names in e["frames"]) or "Release" in e["late_frames"]

    def family(e):
        """which connections outlive the shutdown: those it released (and did not close), or those it did not know because
        they were still being set up (or were set up later); anything else would be a third mechanism"""
        if released(e):
            return F2
        if e["side"] == "c" and e["peer"] == info.get("cancelled_dst") and e["made"] is not None and e["t_made"] >= t_call - 1e-9:
            # its set-up was completed in the instant in which the application cancelled the request it was made for
            return F4
        if e["side"] == "s":
            # shutdown() raised before it got to release the server's connections / it ended without having released this one
            return F3 + "/" + type(raised).__name__ if raised is not None else "tcp-accepted-connection-not-released"
        # a client-side connection that was there long before the call, next to another one to the same host
        if e["made"] is not None and e["made"] < mark_call and e["t_made"] < t_call - 1e-6 and any(o is not e and o["side"] == "c" and o["peer"] == e["peer"] and o["made"] is not None and o["made"] < mark_call for o in ends):
            return "tcp-duplicate-connection-orphaned"
        return F1

    # ---- shutdown completes: it does not raise, returns within the time-out, and what it started has come to an end ----
    rep.monitor("tcp_shutdown_does_not_raise")
    if raised is not None:
        violation("%s/%s" % (F3, type(raised).__name__), "shutdown() raised %r instead of completing" % raised, wit(tb=rep.exception_witness(raised)), case)
    rep.monitor("tcp_shutdown_returns")
    if t_ret - t_call > T + 1e-6:
        violation("tcp-shutdown-exceeds-timeout", "shutdown() took longer than SHUTDOWN_TIMEOUT", wit(took=t_ret - t_call), case)
    if info["shutdown_tasks"]:
        rep.monitor("tcp_shutdown_tasks_finished")
        if info["shutdown_tasks_pending"] and not stalled:
            survivors = [e["repr"] for e in ends if released(e) and (e["t_closing"] is None or e["t_closing"] > t_ret)]
            violation(
                (F2 + "/shutdown-tasks-left-pending") if survivors else "tcp-shutdown-tasks-left-pending/" + info["shutdown_tasks_pending"][0].replace(" ", "-"),
                "shutdown() has returned (after %.3f s) while tasks it started are still pending: it did not complete, and left something running" % (t_ret - t_call),
                wit(tasks=info["shutdown_tasks_pending"], connections_open_at_return=survivors[:5]), case)
    left = [x for x in info["tasks_left"] if x not in info["shutdown_tasks_pending"]]
    if left:
        violation("tcp-tasks-left-at-end/" + left[0].replace(" ", "-"), "200 s after shutdown() returned a task of the library is still pending", wit(tasks=left), case)
    # ---- pending requests / observations ----
    rep.monitor("tcp_pending_requests_failed")
    connects = box["connects"]

    def in_setup(r):
        """the request was waiting for a connection to be set up while shutdown ran"""
        return any(c["dst"][0] == r["dst"] and c["log"] < mark_ret and c["t_start"] >= r["t"] - 1e-9 and (c["t_end"] is None or c["t_end"] >= t_call - 1e-9) for c in connects)

    for r in box["recs"]:
        kind = r["name"].split("-")[0]
        if r["done"] is None:
            violation((F1 + "/outstanding-request-still-pending") if in_setup(r) else "tcp-request-still-pending-after-shutdown/%s" % kind, "an outstanding request never terminated although its context was shut down", wit(request=r["name"]), case)
            break
        t_done, exc = r["done"]
        if r["name"] in info["unfinished_before"]:
            if t_done > t_call + T + 1e-6:
                violation((F1 + "/outstanding-request-terminated-late") if in_setup(r) else "tcp-request-terminated-late/%s" % kind, "an outstanding request terminated later than the shutdown time-out (%.3f s after shutdown was called, with %r)" % (t_done - t_call, exc), wit(request=r["name"]), case)
            if exc is None:
                if t_done > t_call + 1e-9:
                    rep.count("tcp_completed_during_shutdown")
            elif info.get("cancelled") == r["name"]:
                pass  # cancelled by the application itself just before shutdown
            elif not isinstance(exc, error.Error):
                violation("tcp-request-failed-with-non-library-error/%s/%s" % (kind, type(exc).__name__), "an outstanding request was failed with an exception outside the library's error hierarchy at shutdown", wit(exc=repr(exc)), case)
        if r["name"] == "observe" and r["done"][1] is None and info.get("cancelled_obs") != "established":
            if r["obs_end"] is None:
                violation("tcp-observation-not-terminated", "a client-side observation got no terminal signal although its context was shut down", wit(), case)
            elif r["obs_end"][0] > t_call + T + 1e-6:
                violation("tcp-observation-terminated-late", "a client-side observation was terminated later than the shutdown time-out", wit(), case)
            elif not (r["obs_end"][1] == "StopAsyncIteration" or isinstance(r["obs_end"][1], error.Error)):
                violation("tcp-observation-terminated-with-non-library-error/" + type(r["obs_end"][1]).__name__, "a client-side observation ended with an exception outside the library's error hierarchy", wit(), case)
    # ---- handlers cancelled ----
    hl = info["handlers"]
    running = {}
    for h in hl:
        k = (h["remote"], h["token"])
        if h["ev"] == "enter" and h["t"] <= t_call + 1e-9:
            running[k] = h
        elif h["ev"] == "exit" and k in running and h["t"] <= t_call + 1e-9:
            running.pop(k, None)
    if running:
        rep.monitor("tcp_handlers_cancelled", len(running))
        for k, h in running.items():
            ends_ = [x for x in hl if (x["remote"], x["token"]) == k and x["ev"] in ("exit", "cancelled") and x["t"] >= h["t"]]
            if not ends_ or ends_[0]["ev"] != "cancelled" or ends_[0]["t"] > t_call + T + 1e-6:
                if ends_ and ends_[0]["ev"] == "exit" and abs(ends_[0]["t"] - t_call) < 1e-9:
                    continue  # finished in the very instant of the shutdown call
                violation("tcp-handler-not-cancelled", "a server handler that was running when shutdown() was called was not cancelled within the shutdown time-out", wit(handler=repr(h), ends=repr(ends_[:1])), case)
                break
    if box["obs_count"] != 0:
        violation("tcp-server-observation-not-ended", "a server-side observation survived shutdown (observer count %d)" % box["obs_count"], wit(), case)
    # ---- nothing is transmitted, no connection opened or accepted after shutdown returned ----
    rep.monitor("tcp_silent_after_shutdown")
    reported = set()
    for e in ends:
        sent = [n for idx, t, names in e["frames"] if idx >= mark_ret for n in names]
        if sent:
            key = "%s/frame-sent/%s" % (family(e), sent[0])
            if key not in reported:
                reported.add(key)
                violation(key, "the context wrote to a connection %s after shutdown() had returned" % ("that shutdown() had released" if released(e) else "that shutdown() has not released (set up while or after it ran)"), wit(connection=e["repr"], frames=[(round(t - t_ret, 4), names) for idx, t, names in e["frames"] if idx >= mark_ret][:5]), case)
    rep.monitor("tcp_no_connect_after_shutdown")
    opened = [c for c in connects if c["log"] >= mark_ret]
    if opened:
        violation(F1 + "/connection-opened", "the context started to open a connection after shutdown() had returned", wit(connects=[(round(c["t_start"] - t_ret, 4), c["dst"], c["state"]) for c in opened][:5]), case)
    accepted = [ev for ev in fab.log[mark_ret:] if ev.kind == "accepted" and ev.owner == "ctx"]
    if accepted:
        violation("tcp-connection-accepted-after-shutdown", "the context accepted a connection after shutdown() had returned", wit(events=[brief(ev) for ev in accepted[:3]]), case)
    # ---- nothing is left open ----
    if ends:
        rep.monitor("tcp_connections_closed", len(ends))
        reported = set()
        for e in ends:
            if e["closing"]:
                continue
            key = family(e) + ("/never-closed" if released(e) else "/connection-never-closed")
            if key not in reported:
                reported.add(key)
                violation(key, "200 s after shutdown() returned a connection of the context is still open (%s)" % ("Release was sent, the peer did not hang up, nobody closed it" if released(e) else "shutdown() did not release it: it was set up while or after shutdown ran"), wit(connection=e["repr"], frames=[names for idx, t, names in e["frames"]][-4:]), case)
    # ---- nothing raises in the loop ----
    rep.monitor("tcp_no_loop_exception")
    reported = set()
    for x in res.loop_exceptions:
        fatal = [f for f in fab.fatal if abs(f["t"] - x["vtime"]) < 1e-9 and f["exc"] == (x.get("exception") or "")[:300] and (x.get("message") or "").startswith("Fatal error: protocol.")]
        if fatal and fatal[0]["owner"] == "ctx":
            e = [e for e in ends if (e["conn"], e["side"]) == (fatal[0]["conn"], fatal[0]["side"])][0]
            key = "%s/%s-raises/%s" % (family(e) if x["vtime"] >= t_call - 1e-9 else "tcp-before-shutdown", "data-received" if "data_received" in x["message"] else "eof-received", x.get("exc_type"))
        elif fatal:
            key = "tcp-other-context-affected/loop-exception/%s" % x.get("exc_type")
        else:
            key = "tcp-loop-exception/" + str(x.get("exc_type"))
        if key not in reported:
            reported.add(key)
            violation(key, "a callback of the context raised in the event loop %s shutdown" % ("after" if x["vtime"] >= t_ret - 1e-9 else "during" if x["vtime"] >= t_call - 1e-9 else "before"), wit(loop=x, connection=fatal[0] if fatal else None), case)
    if res.unraisable:
        violation("tcp-unraisable-after-shutdown", "an exception was raised in a finalizer", wit(unraisable=res.unraisable[:2]), case)
    if res.logging_failures:
        violation("tcp-logging-call-failed", "a logging call inside the library raised", wit(failures=res.logging_failures[:2]), case)
    # ---- later requests fail at once with the shutdown error ----
    rep.monitor("tcp_later_request_fails_fast", len(info["late"]))
    reported = set()
    for q in info["late"]:
        outcome = q["outcome"]
        if outcome == "hang":
            key = "%s/later-request-hangs/%s" % (F1, q["api"]) if q["connects"] else "tcp-later-request-hangs/%s-%s" % (q["kind"], q["api"])
            what = "a request submitted after shutdown neither completed nor failed within 5 s" + (" (it waits for a connection that the context started to open)" if q["connects"] else "")
        elif outcome == "response" or not isinstance(outcome, error.LibraryShutdown):
            key = "tcp-later-request-wrong-outcome/%s-%s/%s" % (q["kind"], q["api"], type(outcome).__name__ if not isinstance(outcome, str) else outcome)
            what = "a request submitted after shutdown did not fail with the shutdown error"
        elif q["took"] > 1e-6:
            key = "%s/later-request-fails-late/%s" % (F1, q["api"]) if q["connects"] else "tcp-later-request-fails-late/%s-%s" % (q["kind"], q["api"])
            what = "a request submitted after shutdown failed only after %r s" % q["took"] + (" (once the connection that the context opened for it was there)" if q["connects"] else "")
        else:
            continue
        if key not in reported:
            reported.add(key)
            violation(key, what, wit(probe={k: repr(x) for k, x in q.items()}), case)
    # ---- the other context: its own exchange goes exactly as in the run without shutdown ----
    rep.monitor("tcp_other_context_unaffected")
    for r, b in zip(box["other"], base):
        same = r["k"] == b["k"] and abs(r["t"] - b["t"]) < 1e-9 and r["done"] is not None and r["done"][1] is None and r["done"][2] == b"other-ok" and abs(r["done"][0] - b["done"][0]) < 1e-9
        if not same:
            violation("tcp-other-context-affected", "an exchange of a second context in the same process did not go as it does without the shutdown", wit(other=repr(r), baseline=repr(b)), case)
            break
    if len(box["other"]) != len(base):
        violation("tcp-other-context-affected", "a second context in the same process made another number of exchanges than without the shutdown", wit(), case)
    # ---- how much of the new dimensions this case had ----
    if pend["connecting_handshake"]:
        rep.monitor("tcp_handshake_in_flight_at_shutdown")
    if pend["connecting"]:
        rep.monitor("tcp_connect_pending_at_shutdown")
    if sum(e["delivered_after"] or 0 for e in ends):
        rep.monitor("tcp_frames_arriving_after_shutdown")
    slowpeers = [p for p in box["raws"] if p[2] is not None and p[1] != "at-once"]
    if slowpeers:
        rep.monitor("tcp_peer_not_hanging_up", len(slowpeers))
    if info.get("raw_probe"):
        rep.monitor("tcp_connect_attempt_after_shutdown")
    if pend["frames_in_flight"]:
        rep.monitor("tcp_frames_in_flight_at_shutdown")
    if any(e["side"] == "s" and e["made"] is not None and e["made"] >= mark_call for e in ends):
        # the server took a connection from the backlog (created its protocol object) after shutdown() had been called
        rep.monitor("tcp_accept_during_shutdown")
    if pend["resolving"]:
        rep.monitor("tcp_resolving_at_shutdown", pend["resolving"])
    if stalled:
        rep.monitor("tcp_shutdown_stalled_by_clogged_peer")
    if pend["clogged_conns"]:
        rep.monitor("tcp_clogged_connection_at_shutdown")
    if when[1].startswith("step"):
        rep.monitor("tcp_shutdown_tied_to_connection_event")
    if info.get("cancelled_in_setup"):
        rep.monitor("tcp_request_cancelled_during_connection_setup")
    kinds = tuple(sorted(k for k, n in pend.items() if n))
    rep.case(("tcp", repr(sorted(v.items())), tuple(sorted((k, min(n, 3)) for k, n in pend.items() if n)), when[1]), nontrivial=bool(kinds))
    rep.seen("tcp_pending_kinds", kinds)


def run_shard(shard, rep, only=None):
    from harness import vloop

    vloop.install_time()
    import aiocoap  # noqa
    from aiocoap.numbers.constants import SHUTDOWN_TIMEOUT as T

    idx, of = shard["index"], shard["of"]
    for s in range(shard["nseeds"]):
        vseed = shard["seed"] + s
        v = variant(vseed)
        if only is not None and only[0] in ("tcp", "tcp-baseline"):
            break
        res, box = run(v, vseed, None)
        if not res.ok:
            rep.inconc("baseline scenario failed: hang=%r error=%r" % (res.hang, res.error))
            continue
        if idx == 0:
            res2, box2 = run(v, vseed, None)
            same = res2.ok and [(e.t, e.kind, e.data) for e in box["net"].log] == [(e.t, e.kind, e.data) for e in box2["net"].log]
            if not same:
                rep.inconc("baseline scenario is not deterministic")
                continue
            rep.monitor("baseline_deterministic")
        if res.loop_exceptions:
            rep.violation("baseline-loop-exception/" + str(res.loop_exceptions[0].get("exc_type")), "an exception reached the event loop in the busy scenario even without shutdown", {"loop": res.loop_exceptions[:2]}, ["baseline", s])
        ts = instants(box)
        points = []
        for t in ts:
            points.append((t - 1e-4, "before"))
            points.append((t + 1e-4, "after"))
        points = [p for p in points if p[0] > 0]
        for pi, (t, ba) in enumerate(points):
            if pi % of != idx:
                continue
            case = ["point", s, pi]
            if only is not None and only != case:
                continue
            r_, b_ = run(v, vseed, t)
            judge(v, r_, b_, (round(t, 6), ba), rep, case, T)
            if pi < 2 and s == 0 and idx == 0:
                rep.sample({"class": "shutdown-point", "variant": v, "t": t, "side": ba, "pending": b_.get("info", {}).get("pending")})
        rep.count("instants", len(ts))
    # ---- the same over TCP ----
    for s in range(shard.get("tcp_nseeds", 0)):
        vseed = shard["seed"] + s
        v = variant_tcp(vseed)
        if only is not None and (only[0] not in ("tcp", "tcp-baseline") or only[1] != s):
            continue
        res, box = run_tcp(v, vseed, None)
        if not res.ok or any(r["done"] is None or r["done"][1] is not None or r["done"][2] != b"other-ok" for r in box["other"]):
            rep.inconc("tcp baseline scenario failed: hang=%r error=%r other=%r" % (res.hang, res.error, box.get("other")))
            continue
        if idx == 0:
            res2, box2 = run_tcp(v, vseed, None)
            # (the order in which the final shutdown walks its set of connections depends on object addresses)
            # and so does the order in which the observers of a resource are notified: compare per connection end
            def per_end(b):
                d = {}
                for e in b["fab"].log:
                    if e.t < TCP_ACTIVE:
                        d.setdefault((e.conn, e.side), []).append(tuple(e))
                return d

            same = res2.ok and per_end(box) == per_end(box2)
            if not same:
                rep.inconc("tcp baseline scenario is not deterministic")
                continue
            rep.monitor("tcp_baseline_deterministic")
        if res.loop_exceptions[: box["info"]["loop_exc_at_end"]]:
            rep.violation("tcp-baseline-loop-exception/" + str(res.loop_exceptions[0].get("exc_type")), "an exception reached the event loop in the busy TCP scenario even without shutdown", {"loop": res.loop_exceptions[:2]}, ["tcp-baseline", s])
        ts = instants_tcp(box)
        points = []
        for i, t in enumerate(ts):
            points.append((t - 1e-4, "before"))
            if shard["tier"] == "thorough" or i % 4 == s % 4:
                points.append((t, "at"))
            points.append((t + 1e-4, "after"))
        points = [p for p in points if p[0] > 0]
        # ... and in the k-th loop iteration after every life-cycle event of the victim's connections (quick tier: k = 0 for
        # all of them, k = 1, 2 only for a connection being taken from the listening socket's backlog, k = 1 for a handshake completed)
        steps = steps_tcp(box)
        for conn, side, kind, nth in steps:
            for k in (0, 1, 2):
                if k == 0 or shard["tier"] == "thorough" or kind == "accepting" or (k == 1 and kind == "established"):
                    points.append((["step", conn, side, kind, nth, k], "step%d" % k))
        for pi, (t, ba) in enumerate(points):
            if pi % of != idx:
                continue
            case = ["tcp", s, pi]
            if only is not None and only != case:
                continue
            r_, b_ = run_tcp(v, vseed, t)
            judge_tcp(v, r_, b_, (round(t, 6) if isinstance(t, float) else "%s %s #%d of connection %d%s" % (t[0], t[3], t[4], t[1], t[2]), ba), rep, case, T, box["other"])
            if pi < 2 and s == 0 and idx == 0:
                rep.sample({"class": "tcp-shutdown-point", "variant": v, "t": t, "side": ba, "pending": b_.get("info", {}).get("pending")})
        rep.count("tcp_instants", len(ts))
        rep.count("tcp_connection_events", len(steps))
