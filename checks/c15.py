"""C15 — CoAP over TCP: framing independent of segmentation, signalling rules enforced.

A real `TcpConnection` (server role and client role, constructed the way
`TCPServer.create_server.new_connection` / `TCPClient._spawn_protocol` do) sits on a fake
asyncio stream transport with a recording token manager behind the real pool object.
Byte streams built by the independent `harness.reftcp` are pushed through
`data_received` in chosen chunkings; what reaches the token manager and what is
written to the transport is judged by a small model of the statement.
End-to-end clauses run a real `Context` (tcpclient / tcpserver) whose
`loop.create_connection` / `loop.create_server` hand out the same fake transports.

Three things are judged without any model of the stream, because a stream transport delivers nothing after
close(): nothing is handed to the token manager once the endpoint has closed its transport (whatever shares a chunk
with the frame that ended the connection would not have been received had the cut fallen elsewhere), a request handed
to a connection that has ended fails with a network error instead of being written into the void (the next block of
a block-wise exchange whose first block arrived right before the end; a request addressed to the stale remote), and
a frame ending in a bare payload marker (RFC 7252 section 3: a message format error) is an unparsable frame.
"""

import random
from collections import Counter

ID = "C15"
LEVEL = "exploration"
TECHNIQUE = (
    "differential runtime monitoring: real TcpConnection / TCPServer / TCPClient / Context on a fake asyncio stream "
    "transport and a virtual-time loop, fed reference-encoded RFC 8323 streams in exhaustive / single-byte / random "
    "chunkings; dispatches, written bytes and close state judged against an independent framing codec and a model of the statement; "
    "every connection-ending frame (malformed classes incl. the bare payload marker, critical signalling options, undefined 7.xx codes, "
    "Release, Abort) followed by further frames and cut at every single position, with a model-free 'nothing dispatched after close()' "
    "oracle on the bare connection and, through a tap on the token manager, on the real Context; end-to-end scenarios with block-wise "
    "exchanges (Block2 first block, 2.31 Continue) cut off by the connection end, responses/requests that come too late, chunks delivered "
    "back to back or with loop iterations in between, and requests addressed to the remote of the ended connection; every third fake transport "
    "models a peer that does not drain the write buffer, where writes issued after close() still reach the wire (Abort must be the last and only one; "
    "signalling messages with several unknown critical options are swept)"
)
LEVEL_TEXT = (
    "Held on every generated stream and chunking: all 2^(n-1) chunkings of every enumerated short stream "
    "(sequences of 1-4 tiny messages, <= 12 bytes; triples limited to <= 8 bytes in quick), single-byte / boundary-adversarial / random chunkings "
    "of generated sequences with body lengths across 12|13, 268|269, 65804|65805 and 70000, malformed / oversized frames at every "
    "position (incl. frames ending in a bare payload marker, for request, response, signalling and empty codes), every signalling code with elective "
    "and critical option sweeps, every kind of connection-ending frame followed by 1-3 further frames with every single cut position, and end-to-end "
    "Release/Abort/own-Abort/Ping/empty scenarios on a real Context (client role, reversed role, server) in which block-wise exchanges are cut off after "
    "their first block, responses and requests follow the connection-ending frame, chunks arrive back to back or with 1-3 loop iterations in between, "
    "and a request is addressed to the ended connection before and after connection_lost; says nothing about streams and schedules outside these generators."
)
LEVEL_NOTE = "Trusted: harness/reftcp.py (self-tested each run, imports nothing from aiocoap), the fake transport's mimicry of asyncio (no data_received after close(), connection_lost via call_soon, writes after close dropped), the model in checks/c15.py analyse()/judge(), the tap on the pool's token manager (process_request/process_response wrapped per scenario; if the attribute disappears the required monitor e2e_dispatch_tap stays at zero -> inconclusive)."
RULE = (
    "a case is one (stream, role, chunking) fed to a fresh connection, one outgoing message, or one end-to-end scenario; "
    "non-trivial when the stream has >= 2 chunks or a non-signalling message or a stop item; distinct = distinct "
    "(section, role, item kinds with length classes, chunking class and chunk count class, outcome) signatures; end-to-end signatures add request "
    "shapes, which requests got only a first block, whether a late response/request follows, pacing and stale-remote timing"
)
ASSUMPTIONS = [
    "harness/reftcp.py is a correct reading of RFC 8323 section 3.2 and RFC 7252 section 3.1 (self-tested each run)",
    "a frame is 'longer than the local maximum message size' when its total length (first header byte to end of payload, RFC 8323 5.3.1) exceeds the Max-Message-Size the endpoint advertised in its own CSM",
    "'unparsable frame' is judged for: option value / extended field running past the frame end, nibble 15 outside the payload marker, invalid UTF-8 in a critical string option of a request, a payload marker followed by no payload (RFC 7252 section 3: 'MUST be processed as a message format error'; any code, incl. signalling and empty); invalid UTF-8 in elective string options is only counted",
    "what happens to anything other than a CSM arriving before the peer's CSM, to an undefined signalling code (7.00, 7.06-7.31) and to an empty message with token or body is left open (tolerate or Abort; only 'not dispatched before CSM' is judged there)",
    "a stream transport delivers nothing after close(): once the endpoint has called close() on its transport - whatever made it do so - nothing that follows in the stream may be handed to the token manager, else the dispatched set depends on where the stream was cut; a Pong written after close() is dropped by asyncio and only counted",
    "a request handed to a connection whose transport is closing or closed (next block of a block-wise exchange, request addressed to the stale remote) must fail with aiocoap.error.NetworkError within bounded time; pending requests after the endpoint's OWN Abort are only counted (the statement names Release/Abort from the peer)",
    "signalling option numbers live in their own per-code space (RFC 8323 5.2): every odd number is an unknown critical option in 7.01-7.05 (known ones are 2 and 4), every even number must be ignored whatever its value",
    "asyncio drops writes issued after transport.close() only when the write buffer was empty at close() (selector transport: write() looks at _conn_lost, which close() raises only then) and never calls data_received after close(); with a buffer the peer has not drained (every third fake transport) they are flushed with it and reach the wire",
    "'send Abort and close': exactly one Abort, and it is the last frame that reaches the wire on the connection - judged on wire bytes only, so a Pong or second Abort written after close() counts only where a real transport would deliver it (abort/frame-after-abort/<code>, abort/second-abort)",
]
REQUIRED_MONITORS = {
    "quick": {
        "dispatch_equals_sent": 500000, "exhaustive_chunkings": 500000, "outgoing_bytes": 3000, "csm_gate": 50000, "abort_and_close": 100000, "abort_under_write_backlog": 20000,
        "oversize_abort": 8, "elective_sig_option_ignored": 10000, "critical_sig_option_abort": 10000, "ping_pong": 20000, "empty_ignored": 15000,
        "release_abort_fail_pending": 1000, "e2e_server": 1000, "e2e_outgoing_request": 1000, "no_escape": 500000, "own_csm": 2,
        "no_dispatch_after_close": 400000, "marker_without_payload_abort": 30000, "afterstop_single_cut": 10000, "e2e_dispatch_tap": 4000,
        "blockwise_followup_after_close": 500, "late_response_after_close": 300, "late_request_after_close": 300, "e2e_server_connection_end": 500,
        "request_to_closed_connection": 1500, "abort_last_on_wire": 100000, "several_critical_sig_options": 1000,
    },
    "thorough": {
        "dispatch_equals_sent": 10000000, "exhaustive_chunkings": 10000000, "outgoing_bytes": 300000, "csm_gate": 1000000, "abort_and_close": 3000000, "abort_under_write_backlog": 600000,
        "oversize_abort": 300, "elective_sig_option_ignored": 300000, "critical_sig_option_abort": 300000, "ping_pong": 1000000, "empty_ignored": 1000000,
        "release_abort_fail_pending": 100000, "e2e_server": 100000, "e2e_outgoing_request": 100000, "no_escape": 10000000, "own_csm": 2,
        "no_dispatch_after_close": 8000000, "marker_without_payload_abort": 800000, "afterstop_single_cut": 300000, "e2e_dispatch_tap": 200000,
        "blockwise_followup_after_close": 30000, "late_response_after_close": 20000, "late_request_after_close": 20000, "e2e_server_connection_end": 30000,
        "request_to_closed_connection": 80000, "abort_last_on_wire": 2000000, "several_critical_sig_options": 1000,
    },
}
EXHAUSTIVE = {
    "chunkings_of_short_streams": "all 2^(n-1) chunkings of every enumerated stream: every sequence [x], [x,y], [CSM,x,y] of <= 12 bytes and every [x,y,z], [CSM,x,y,z] of <= 8 bytes (quick) / <= 12 bytes (thorough) over the 22-message alphabet short_alphabet(); both roles",
    "bad_frame_positions": "every malformed / oversized class at every position 0..len of a 4-message base sequence",
    "signalling_option_sweep": "codes 7.01-7.05 x option numbers {elective, critical} lists x value shapes",
    "single_cuts_around_connection_end": "every kind of connection-ending frame (6 malformed classes, critical option in 7.01-7.05, undefined 7.xx code, Release, Abort, empty-with-token) x 8 follower patterns x both roles: every single cut position of the stream, plus whole / single-byte / per-frame",
}

STRING = {3, 8, 11, 15, 20, 35, 39}
UINT = {6, 7, 12, 14, 17, 28, 60, 258}
BLOCK = {23, 27}
BODY_LENGTHS = [0, 1, 12, 13, 14, 268, 269, 270, 65804, 65805, 65806, 70000]
REQ_CODES = [1, 2, 3, 4, 5, 6, 7, 31]
RESP_CODES = [64, 65, 66, 67, 68, 69, 95, 128, 129, 132, 133, 143, 160, 163, 165, 191]
SIG_NAMES = {0xE1: "csm", 0xE2: "ping", 0xE3: "pong", 0xE4: "release", 0xE5: "abort"}

PEER_OF_SERVER = ("2001:db8::2", 40000, 0, 0)
SOCK_OF_SERVER = ("2001:db8::1", 5683, 0, 0)
SOCK_OF_CLIENT = ("2001:db8::99", 45000, 0, 0)


def plan(tier, seed):
    n = 16
    return [{"name": "c15-%d" % i, "seed": seed * 1000 + i, "index": i, "of": n, "tier": tier} for i in range(n)]


# =============================================================================
# fake asyncio stream transport
# =============================================================================


class FakeTransport:
    """What a Protocol sees of asyncio's selector socket transport. Every third transport models a peer that stops
    reading after the first write (the CSM): what is written afterwards stays in the user-space write buffer, which
    close() flushes before closing and abort() throws away. As in asyncio (write() only looks at _conn_lost, which
    close() raises only when the buffer is empty), what is written AFTER close() is appended to a buffer that was not
    empty at close() and reaches the wire with it; with an empty buffer at close() it is dropped."""

    created = 0
    force_stall = None  # replay: the transport of the replayed case reads as slowly as it did in the run

    def __init__(self, loop, proto, peername, sockname):
        FakeTransport.created += 1
        self.stalls = FakeTransport.created % 3 == 0 if FakeTransport.force_stall is None else FakeTransport.force_stall
        self.stall_at = None  # len(out) from which on bytes are only buffered
        self.discarded = 0
        self.loop = loop
        self.proto = proto
        self.out = bytearray()  # bytes that would have reached the wire
        self.late = []  # all writes after close() (dropped by asyncio unless the buffer was backed up at close())
        self.flushing = False  # close() found a non-empty write buffer: later writes still join it
        self.wire_after_close = 0  # bytes written after close() that reach the wire
        self.closing = False
        self.lost = False
        self.extra = {"peername": peername, "sockname": sockname}
        self.close_calls = 0
        self.out_at_close = None
        self.tm = None  # recording token manager (bare rigs): lets close() note how much had been dispatched by then
        self.mark_at_close = None

    # -- asyncio.Transport API ---------------------------------------------
    def write(self, data):
        if not isinstance(data, (bytes, bytearray, memoryview)):
            raise TypeError("data argument must be a bytes-like object, not %r" % type(data).__name__)
        if self.closing:
            self.late.append(bytes(data))
            if self.flushing:
                self.out += data
                self.wire_after_close += len(data)
            return
        self.out += data
        if self.stalls and self.stall_at is None:
            self.stall_at = len(self.out)

    def writelines(self, lines):
        self.write(b"".join(lines))

    def close(self):
        self.close_calls += 1
        if self.closing:
            return
        self.closing = True
        self.out_at_close = len(self.out)
        self.flushing = self.stall_at is not None and len(self.out) > self.stall_at
        if self.tm is not None:
            self.mark_at_close = len(self.tm.events)
        self.loop.call_soon(self._call_connection_lost, None)

    def abort(self):
        if self.stall_at is not None and not self.closing:
            self.discarded = len(self.out) - self.stall_at
            del self.out[self.stall_at :]
        self.close()
        self.flushing = False

    def _call_connection_lost(self, exc):
        if self.lost:
            return
        self.lost = True
        self.proto.connection_lost(exc)

    def is_closing(self):
        return self.closing

    def get_extra_info(self, name, default=None):
        return self.extra.get(name, default)

    def set_protocol(self, proto):
        self.proto = proto

    def get_protocol(self):
        return self.proto

    def can_write_eof(self):
        return True

    def write_eof(self):
        pass

    def pause_reading(self):
        pass

    def resume_reading(self):
        pass

    def is_reading(self):
        return not self.closing

    def get_write_buffer_size(self):
        return 0 if self.stall_at is None else len(self.out) - self.stall_at

    def get_write_buffer_limits(self):
        return (16384, 65536)

    def set_write_buffer_limits(self, high=None, low=None):
        pass

    # -- the network side --------------------------------------------------
    def deliver(self, data):
        """Like the selector's read callback: nothing is delivered after close()."""
        if self.closing:
            return False
        self.proto.data_received(data)
        return True


class FakeServer:
    def __init__(self, env, factory):
        self.env = env
        self.factory = factory
        self.closed = False

    def close(self):
        self.closed = True

    async def wait_closed(self):
        return None

    def is_serving(self):
        return not self.closed

    def accept(self):
        proto = self.factory()
        t = FakeTransport(self.env.loop, proto, PEER_OF_SERVER, SOCK_OF_SERVER)
        proto.connection_made(t)
        return t


# =============================================================================
# environment, recording token manager, rig around one raw TcpConnection
# =============================================================================


class RecTM:
    """Recording stand-in for the TokenManager behind the pool object."""

    __slots__ = ("events", "errors")

    def __init__(self):
        self.events = []  # snapshots (kind, code, token, options, payload)
        self.errors = []

    @staticmethod
    def snap(kind, msg):
        return (kind, int(msg.code), bytes(msg.token), tuple((int(o.number), bytes(o.encode())) for o in msg.opt.option_list()), bytes(msg.payload))

    def process_request(self, msg):
        self.events.append(self.snap("req", msg))

    def process_response(self, msg):
        self.events.append(self.snap("resp", msg))
        return True

    def dispatch_error(self, exc, remote):
        self.errors.append(exc)


class Env:
    def __init__(self, rep):
        import logging
        from harness import vloop, reftcp

        assert reftcp.selftest()
        self.rep = rep
        self.rt = reftcp
        self.vloop = vloop
        self.loop = vloop.new_loop()
        import aiocoap
        from aiocoap import error
        from aiocoap.transports import tcp

        self.aiocoap = aiocoap
        self.error = error
        self.tcp = tcp
        for name in ("c15", "coap", "coap-server"):
            lg = logging.getLogger(name)
            lg.setLevel(1000)
            lg.propagate = False
        self.log = logging.getLogger("c15")
        self.own_csm = {}  # role -> bytes
        self.local_max = {}  # role -> advertised Max-Message-Size
        self.conns = []  # fake transports handed out by create_connection
        self.servers = []
        self.connect_error = None
        env = self

        async def create_connection(factory, host=None, port=None, *, ssl=None, **kw):
            proto = factory()
            t = FakeTransport(env.loop, proto, (host, port, 0, 0), SOCK_OF_CLIENT)
            env.conns.append(t)
            proto.connection_made(t)
            return t, proto

        async def create_server(factory, host=None, port=None, **kw):
            s = FakeServer(env, factory)
            env.servers.append(s)
            return s

        self.loop.create_connection = create_connection
        self.loop.create_server = create_server

    def close(self):
        self.vloop.close_loop(self.loop)

    def spin(self):
        """Run everything that is ready (connection_lost scheduled by close())."""
        self.loop.call_soon(self.loop.stop)
        self.loop.run_forever()

    def note_own_csm(self, role, data):
        rt = self.rt
        rep = self.rep
        self.own_csm[role] = data
        rep.monitor("own_csm")
        try:
            frames, rest = rt.decode_stream(data)
        except rt.Malformed as e:
            rep.violation("outgoing/initial-csm-unparsable", "bytes written on connection_made are not a well-formed RFC 8323 frame", {"role": role, "bytes": data.hex(), "why": e.kind}, ["owncsm", role])
            frames, rest = [], b""
        if len(frames) != 1 or rest or frames[0].code != rt.CSM:
            rep.violation("outgoing/first-message-not-csm", "the first thing written on a new connection is not exactly one CSM (RFC 8323 5.3)", {"role": role, "bytes": data.hex()}, ["owncsm", role])
            self.local_max[role] = 1152
            return
        mms = [v for n, v in frames[0].options if n == 2]
        self.local_max[role] = int.from_bytes(mms[0], "big") if mms else 1152
        rep.seen("advertised_max_message_size", self.local_max[role])


class Rig:
    __slots__ = ("env", "role", "tm", "pool", "conn", "t", "csm_len", "escape", "undelivered", "fed")

    def __init__(self, env, role):
        tcp = env.tcp
        self.env = env
        self.role = role
        self.tm = RecTM()
        if role == "server":
            pool = tcp.TCPServer()
            pool._tokenmanager = self.tm
            pool.log = env.log
            conn = tcp.TcpConnection(pool, env.log, env.loop, is_server=True)
            pool._pool.add(conn)
            t = FakeTransport(env.loop, conn, PEER_OF_SERVER, SOCK_OF_SERVER)
        else:
            pool = tcp.TCPClient()
            pool._tokenmanager = self.tm
            pool.log = env.log
            pool.loop = env.loop
            conn = tcp.TcpConnection(pool, env.log, env.loop, is_server=False)
            pool._pool[("peer.example", 5683)] = conn
            t = FakeTransport(env.loop, conn, ("2001:db8::2", 5683, 0, 0), SOCK_OF_CLIENT)
        self.pool = pool
        self.conn = conn
        self.t = t
        t.tm = self.tm
        conn.connection_made(t)
        self.csm_len = len(t.out)
        own = bytes(t.out)
        if env.own_csm.get(role) != own:
            env.note_own_csm(role, own)
        self.escape = None
        self.undelivered = 0
        self.fed = 0

    def feed(self, chunks):
        t = self.t
        dr = self.conn.data_received
        n = 0
        for ch in chunks:
            if t.closing:
                self.undelivered = len(chunks) - n
                break
            n += 1
            try:
                dr(ch)
            except Exception as e:  # an API the property constrains: nothing may escape
                self.escape = e
                break
        self.fed = n
        if t.closing and not t.lost:
            self.env.spin()

    def written_frames(self):
        """Frames written after the own CSM; (frames, problem)"""
        rt = self.env.rt
        data = bytes(self.t.out[self.csm_len :])
        if not data:
            return [], None
        try:
            frames, rest = rt.decode_stream(data)
        except rt.Malformed as e:
            return [], "malformed:" + e.kind
        if rest:
            return frames, "trailing-partial-frame"
        return frames, None


# =============================================================================
# stream items and the model of the statement
# =============================================================================


class Item:
    __slots__ = ("kind", "data", "frame", "cls", "snap", "elective", "name")

    def __init__(self, kind, data, frame=None, cls=None, elective=None, name=None):
        self.kind = kind  # req resp csm ping pong release abort empty emptyx bad sigcrit sigunk
        self.data = data
        self.frame = frame
        self.cls = cls
        self.elective = elective  # None | "utf8" | "non-utf8": carries unknown elective signalling options
        self.name = name
        self.snap = None
        if kind in ("req", "resp"):
            self.snap = (kind, frame.code, frame.token, frame.options, frame.payload)

    def brief(self):
        d = {"kind": self.kind, "len": len(self.data), "hex": self.data[:48].hex() + ("..." if len(self.data) > 48 else "")}
        if self.cls:
            d["class"] = self.cls
        if self.elective:
            d["elective_unknown_option"] = self.elective
        return d


def lcls(v):
    for i, b in enumerate((0, 1, 12, 13, 268, 269, 65804, 65805)):
        if v <= b:
            return i if v == b else i + 100
    return 999


def item_sig(it):
    return (it.kind, it.cls, it.elective, lcls(len(it.data)), len(it.frame.token) if it.frame is not None else -1, min(len(it.frame.options), 4) if it.frame is not None else -1)


def frame_item(rt, frame, elective=None, name=None):
    """Item for a well-formed frame, classified by its code."""
    data = rt.encode(frame)
    c = frame.code
    if rt.is_request(c):
        kind = "req"
    elif rt.is_response(c):
        kind = "resp"
    elif c in SIG_NAMES:
        kind = SIG_NAMES[c]
    elif c == 0:
        kind = "empty" if data == b"\x00\x00" else "emptyx"
    elif c >= 224:
        kind = "sigunk"  # 7.00, 7.06-7.31: signalling codes RFC 8323 does not define
    else:
        raise ValueError("code outside the statement's classes: %r" % c)
    if kind in SIG_NAMES.values() and any(n & 1 for n, _ in frame.options):
        return Item("sigcrit", data, frame, cls="sig-critical-option/" + rt.code_str(c), name=name)
    return Item(kind, data, frame, elective=elective, name=name)


class Expect:
    __slots__ = ("disp", "pongs", "stop", "stop_i", "cls", "later", "after_csm", "has_empty", "has_ping", "elective", "nontrivial")


def analyse(items):
    e = Expect()
    e.disp = []
    e.pongs = []
    e.stop = None
    e.stop_i = None
    e.cls = None
    e.has_empty = False
    e.has_ping = False
    e.elective = None
    csm = False
    for i, it in enumerate(items):
        k = it.kind
        if k in ("bad", "sigcrit"):
            e.stop, e.stop_i, e.cls = "abort", i, it.cls
            break
        if k == "csm":
            csm = True
            if it.elective and e.elective != "non-utf8":
                e.elective = it.elective
            continue
        if not csm:
            # anything but a CSM first: peer breaks RFC 8323 5.3; outcome open, only the gate is judged
            e.stop, e.stop_i = "precsm", i
            break
        if it.elective and e.elective != "non-utf8":
            e.elective = it.elective
        if k in ("req", "resp"):
            e.disp.append(it.snap)
        elif k == "ping":
            e.pongs.append(it.frame.token)
            e.has_ping = True
        elif k == "pong":
            pass
        elif k in ("release", "abort"):
            e.stop, e.stop_i = "peerclose", i
            break
        elif k == "empty":
            e.has_empty = True
        elif k == "emptyx":
            e.stop, e.stop_i = "emptyx", i
            break
        elif k == "sigunk":
            # neither the statement nor RFC 8323 say what an undefined 7.xx code does: tolerate or Abort, both accepted
            e.stop, e.stop_i = "sigunk", i
            break
    e.later = Counter(it.snap for it in items[e.stop_i + 1 :] if it.snap is not None) if e.stop else Counter()
    first_csm = None
    for i, it in enumerate(items):
        # a CSM carrying an unknown critical option is still "the peer's CSM" for the gate: what is
        # dispatched after the Abort it provokes is counted (dispatch_after_own_abort), not judged
        if it.kind == "csm" or (it.kind == "sigcrit" and it.frame.code == 0xE1):
            first_csm = i
            break
    e.after_csm = Counter(it.snap for it in (items[first_csm + 1 :] if first_csm is not None else []) if it.snap is not None)
    e.nontrivial = bool(e.disp or e.stop or e.has_empty or e.has_ping)
    return e


def diff_field(got, want):
    for name, i in (("code", 1), ("token", 2), ("options", 3), ("payload", 4)):
        if got[i] != want[i]:
            return name
    return "kind"


def snap_brief(s):
    return {"as": s[0], "code": "%d.%02d" % (s[1] >> 5, s[1] & 31), "token": s[2].hex(), "options": [(n, v[:16].hex()) for n, v in s[3][:8]], "payload_len": len(s[4]), "payload_head": s[4][:16].hex()}


def judge(env, rig, items, exp, case, chunks, section):
    """Decide one (stream, chunking) run. Returns an outcome tag for the signature."""
    rep = env.rep
    rt = env.rt
    t = rig.t
    dispatched = rig.tm.events
    bad = []

    def wit(**kw):
        stream = b"".join(it.data for it in items)
        w = {
            "role": rig.role,
            "items": [it.brief() for it in items],
            "stream_len": len(stream),
            "stream_hex": stream[:160].hex() + ("..." if len(stream) > 160 else ""),
            "chunk_sizes": [len(c) for c in chunks][:64] + (["... %d chunks" % len(chunks)] if len(chunks) > 64 else []),
            "chunks_delivered": rig.fed,
            "dispatched": [snap_brief(s) for s in dispatched[:8]],
            "written_after_own_csm": bytes(t.out[rig.csm_len :])[:120].hex(),
            "writes_after_close": [x[:40].hex() for x in t.late[:4]],
            "transport_closing": t.closing,
            "expected_stop": exp.stop,
        }
        w.update(kw)
        return w

    def viol(key, what, **kw):
        bad.append(key)
        v = rep.violations.get(key)
        full = v is not None and len(v["witnesses"]) >= rep.MAX_WITNESSES_PER_KEY  # the reporter keeps no further witness
        rep.violation(key, what, None if full else wit(**kw), list(case) + [{"stalls": t.stalls}])

    def closer_cause():
        """Mechanism name of the first frame from the model's stop item on that can end the connection."""
        for it in items[exp.stop_i :] if exp.stop is not None else []:
            if it.kind in ("release", "abort"):
                return "peer-" + it.kind
            if it.kind in ("bad", "sigcrit"):
                return "own-abort/" + it.cls
            if it.kind == "sigunk":
                return "own-abort/unknown-signalling-code"
        return "unmodelled-close/" + (exp.stop or "clean-stream")

    def unsent_key(default):
        """A dispatched message nobody sent: when a frame that had to be aborted follows the stop item, it is that frame."""
        for it in items[exp.stop_i + 1 :]:
            if it.kind == "bad":  # (a "sigcrit" item has a signalling code: never a request/response)
                return "abort/%s/bad-frame-dispatched" % it.cls
        return default

    # ---- nothing may escape data_received ------------------------------------------------
    rep.monitor("no_escape")
    if rig.escape is not None:
        e = rig.escape
        viol(escape_key(e), "TcpConnection.data_received let %s escape" % type(e).__name__, exc=repr(e), tb=rep.exception_witness(e))

    # ---- (b) whatever was written must be whole RFC 8323 frames --------------------------
    frames, problem = rig.written_frames()
    if problem:
        viol("outgoing/reaction-bytes-not-frames/" + problem.split(":")[0], "bytes written in reaction to input are not whole well-formed RFC 8323 frames (%s)" % problem)
    aborts = [f for f in frames if f.code == rt.ABORT]
    pongs = [f.token for f in frames if f.code == rt.PONG]
    others = [f for f in frames if f.code not in (rt.ABORT, rt.PONG)]

    # ---- "send Abort and close": the Abort is the last thing on the wire, and there is one -------------------
    # Judged on what reaches the wire: what the endpoint writes after close() only gets there when the peer had not
    # drained the write buffer by then (every third transport); otherwise asyncio drops it and nothing is demanded.
    if aborts:
        if t.stall_at is not None:
            rep.monitor("abort_last_on_wire")
        tail = frames[frames.index(aborts[0]) + 1 :]
        if tail:
            if any(f.code == rt.ABORT for f in tail):
                viol("abort/second-abort", "a second Abort (7.05) reached the wire after the first one", after_abort=[rt.describe(f) for f in tail[:3]])
            rest_ = [f for f in tail if f.code != rt.ABORT]
            if rest_:
                viol("abort/frame-after-abort/" + rt.code_str(rest_[0].code), "a %s frame reached the wire after the endpoint's Abort (written after close() into a write buffer the peer had not drained)" % rt.code_str(rest_[0].code), after_abort=[rt.describe(f) for f in tail[:3]])

    # ---- empty messages must never reach the token manager --------------------------------
    got = dispatched
    zero = [d for d in dispatched if d[1] == 0]
    if zero:
        pure = any(it.kind == "empty" for it in items)
        viol("empty/dispatched-as-%s" % ("request" if zero[0][0] == "req" else "response") + ("" if pure else "/with-token-or-body"), "an empty message (code 0.00) was handed to the token manager as a %s" % ("request" if zero[0][0] == "req" else "response"))
        got = [d for d in dispatched if d[1] != 0]

    # ---- once the endpoint has closed its transport nothing more may be dispatched ----------------
    # A stream transport delivers nothing after close(): whatever followed the closing frame in a LATER chunk is never
    # seen. Handling what follows it in the SAME chunk makes the set of dispatched messages depend on the segmentation.
    if t.closing and t.mark_at_close is not None:
        rep.monitor("no_dispatch_after_close")
        after = [d for d in dispatched[t.mark_at_close :] if d[1] != 0]
        if after:
            viol("dispatch-after-close/" + closer_cause(), "%d message(s) were handed to the token manager after the endpoint had closed its transport (frames sharing a chunk with the frame that ended the connection; in a later chunk they would never have been received)" % len(after), after_close=[snap_brief(s) for s in after[:4]])

    nd = len(exp.disp)
    # An Abort/close that came EARLIER than the model's stop item shows as missing dispatches or
    # missing Pongs. If a signalling message with an unknown elective option precedes the stop item,
    # that is reported once under the elective-option key instead of its secondary symptoms.
    early = False
    if exp.stop is not None and exp.elective and (t.closing or aborts) and rig.escape is None:
        if (len(got) < nd and got == exp.disp[: len(got)]) or len(pongs) < len(exp.pongs):
            early = True
            rep.monitor("elective_sig_option_ignored")
            viol("sig-elective-option/aborted" + ("/non-utf8-value" if exp.elective == "non-utf8" else ""), "a signalling message carrying an unknown ELECTIVE option made the endpoint abort/close instead of ignoring the option (messages that followed it were not processed)")
    # ---- (a) the judged prefix ---------------------------------------------------------------
    rep.monitor("dispatch_equals_sent")
    if section == "short":
        rep.monitor("exhaustive_chunkings")
    prefix_ok = True
    if got[:nd] != exp.disp:
        prefix_ok = False
        if len(got) < nd and got == exp.disp[: len(got)]:
            if rig.escape is not None or early:
                pass  # the cause is already reported
            elif exp.stop is None and (t.closing or aborts):
                pass  # reported below as an unjustified abort
            else:
                viol("dispatch/missing-message", "fewer messages were dispatched than were sent (%d of %d)" % (len(got), nd))
        else:
            for a, b in zip(got, exp.disp):
                if a != b:
                    viol("dispatch/differs/" + diff_field(a, b), "a dispatched message differs from the sent one in its %s" % diff_field(a, b), got_msg=snap_brief(a), want_msg=snap_brief(b))
                    break
    extras = got[nd:] if prefix_ok else []

    outcome = "ok"
    if exp.stop is None:
        # ---- clean stream: exactly the sent messages, connection stays up -------------------------
        if extras:
            viol("dispatch/extra-message", "more messages were dispatched than were sent", extra=[snap_brief(s) for s in extras[:4]])
        if exp.elective:
            rep.monitor("elective_sig_option_ignored")
        if t.closing or aborts:
            if exp.elective:
                viol("sig-elective-option/aborted" + ("/non-utf8-value" if exp.elective == "non-utf8" else ""), "a signalling message carrying an unknown ELECTIVE option made the endpoint abort/close instead of ignoring the option")
            elif rig.escape is None:
                viol("wellformed-stream/aborted", "a well-formed stream (CSM first, no oversized/malformed frame) made the endpoint %s" % ("send Abort" if aborts else "close"))
            outcome = "closed"
        if exp.has_ping or pongs:
            rep.monitor("ping_pong")
            if pongs != exp.pongs and not (t.closing or aborts) and rig.escape is None:
                if len(pongs) < len(exp.pongs):
                    viol("ping/no-pong", "a Ping was not answered by a Pong")
                elif len(pongs) > len(exp.pongs):
                    viol("ping/unsolicited-pong", "more Pongs than Pings")
                else:
                    viol("ping/pong-token-differs", "Pong does not carry the token of the Ping", pong_tokens=[p.hex() for p in pongs], ping_tokens=[p.hex() for p in exp.pongs])
        if exp.has_empty:
            rep.monitor("empty_ignored")
            if others and not zero:
                viol("empty/answered", "bytes other than Pongs were written in reaction to a stream with empty messages", extra=[rt.describe(f) for f in others[:3]])
        elif others:
            viol("written/unexpected-frame", "a frame that is neither Pong nor Abort was written by the bare connection", extra=[rt.describe(f) for f in others[:3]])
    else:
        outcome = exp.stop
        # extras after the stop point
        stray = []
        later = Counter(exp.later)
        for s in extras:
            if later[s] > 0:
                later[s] -= 1
            else:
                stray.append(s)
        if exp.stop == "abort":
            rep.monitor("abort_and_close")
            if t.stall_at is not None:
                rep.monitor("abort_under_write_backlog")
            if exp.cls.startswith("sig-critical"):
                rep.monitor("critical_sig_option_abort")
            if exp.cls.startswith("oversize"):
                rep.monitor("oversize_abort")
            if exp.cls == "marker-without-payload":
                rep.monitor("marker_without_payload_abort")
            if stray:
                # a signalling frame is never a request/response: what was dispatched is a later bad frame if there is one
                key = unsent_key("") if items[exp.stop_i].kind == "sigcrit" else ""
                viol(key or "abort/%s/bad-frame-dispatched" % exp.cls, "a frame that must be answered by Abort was handed to the token manager", extra=[snap_brief(s) for s in stray[:3]])
            if extras and not stray:
                rep.count("dispatch_after_own_abort")
            if rig.escape is None:
                if not aborts and not t.closing:
                    viol("abort/%s/no-abort-no-close" % exp.cls, "neither Abort sent nor connection closed after a frame of class %s" % exp.cls)
                elif not aborts:
                    viol("abort/%s/closed-without-abort" % exp.cls, "connection closed but no Abort (7.05) written before the close for class %s" % exp.cls)
                elif not t.closing:
                    viol("abort/%s/abort-without-close" % exp.cls, "Abort written but transport not closed for class %s" % exp.cls)
            if exp.pongs:
                rep.monitor("ping_pong")
            if pongs[: len(exp.pongs)] != exp.pongs and rig.escape is None and not early:
                viol("ping/no-pong", "a Ping preceding the aborted frame was not answered with its token", pong_tokens=[p.hex() for p in pongs], ping_tokens=[p.hex() for p in exp.pongs])
            if t.late:
                rep.count("writes_after_own_close")
        elif exp.stop == "precsm":
            rep.monitor("csm_gate")
            allowed = Counter(exp.after_csm)
            sent_anywhere = {it.snap for it in items if it.snap is not None}
            unended = next((k for k in range(exp.stop_i + 1, len(items)) if items[k].kind in ("bad", "sigcrit")), None)
            for s in got:
                if allowed[s] > 0:
                    allowed[s] -= 1
                elif s not in sent_anywhere and unsent_key(""):
                    viol(unsent_key(""), "a frame that must be answered by Abort was handed to the token manager", msg=snap_brief(s))
                    break
                elif unended is not None and not t.closing and not aborts and s in {it.snap for it in items[unended + 1 :]}:
                    # sent after a frame that had to end the connection and did not (a CSM ending in a bare payload marker
                    # taken for the peer's CSM, for one): the missing Abort is the failure, the open gate its consequence
                    viol("abort/%s/no-abort-no-close" % items[unended].cls, "neither Abort sent nor connection closed after a frame of class %s (messages that followed it were dispatched)" % items[unended].cls, msg=snap_brief(s))
                    break
                else:
                    viol("csm-gate/dispatched-before-csm", "a request/response was dispatched although the peer's CSM had not been received", msg=snap_brief(s))
                    break
            rep.count("precsm_outcome_" + ("abort" if aborts else ("closed" if t.closing else "tolerated")))
        elif exp.stop == "peerclose":
            if stray:
                viol(unsent_key("dispatch/unsent-message"), "a message that was never sent was dispatched", extra=[snap_brief(s) for s in stray[:3]])
            if extras and not stray:
                rep.count("dispatch_after_peer_release_or_abort")
            errs = [e for e in rig.tm.errors if e is not None]
            closer = items[exp.stop_i]
            rep.count("peerclose_error_signalled" if errs else ("peerclose_no_error_signalled" + ("_closer_has_elective_%s_option" % closer.elective if closer.elective else "") + ("_own_abort" if aborts else "") + ("_after_elective_%s_option" % exp.elective if exp.elective and not closer.elective else "")))
            if exp.pongs:
                rep.monitor("ping_pong")
            if pongs[: len(exp.pongs)] != exp.pongs and rig.escape is None and not early:
                viol("ping/no-pong", "a Ping preceding Release/Abort was not answered with its token")
        elif exp.stop in ("emptyx", "sigunk"):
            if stray:
                viol(unsent_key("dispatch/unsent-message"), "a message that was never sent was dispatched", extra=[snap_brief(s) for s in stray[:3]])
            rep.count(exp.stop + "_outcome_" + ("abort" if aborts else ("closed" if t.closing else "tolerated")))
    if bad:
        outcome = "violation"
    return outcome


def escape_key(e):
    """escape/<ExceptionType>/<innermost aiocoap function>"""
    import traceback

    where = "unknown"
    for fs in reversed(traceback.extract_tb(e.__traceback__)):
        if "/aiocoap/" in fs.filename:
            where = fs.name
            break
    return "escape/%s/%s" % (type(e).__name__, where)


# =============================================================================
# generators
# =============================================================================


def uint_bytes(v):
    return v.to_bytes((v.bit_length() + 7) // 8, "big")


def gen_text(r, n):
    alphabet = ["a", "Z", "0", "/", "?", "&", "=", "%", " ", "ä", "€", "\U0001f600", "\x00", "\x7f"]
    return "".join(r.choice(alphabet) for _ in range(n))


def gen_option(r, critical_only=False, number=None):
    """(number, canonical raw value) of a request/response option."""
    n = number
    if n is None:
        k = r.random()
        if k < 0.35:
            n = r.choice(sorted(STRING - ({8, 20} if critical_only else set())))
        elif k < 0.6:
            n = r.choice(sorted(UINT - {258}))
        elif k < 0.7:
            n = r.choice(sorted(BLOCK))
        else:
            n = r.choice([1, 4, 9, 252, 292, 2000, 2001, 65000, 65535])
    if n in STRING:
        return n, gen_text(r, r.choice([0, 1, 1, 3, 7, 12, 13, 14, 40, 270])).encode("utf8")
    if n in UINT:
        return n, uint_bytes(r.choice([0, 1, 255, 256, 65535, 65536, 2**24 - 1, 2**32 - 1, r.getrandbits(r.choice([1, 8, 16, 31]))]))
    if n in BLOCK:
        return n, uint_bytes((r.choice([0, 1, 15, 16, 4095, 2**20 - 1]) << 4) | (8 if r.getrandbits(1) else 0) | r.randrange(8))
    ln = r.choice([0, 1, 2, 8, 12, 13, 14, 268, 269, 270, 300])
    return n, r.randbytes(ln)


def gen_options(r, maxn=5):
    n = r.choice([0, 0, 1, 1, 2, 3, maxn])
    opts = []
    for _ in range(n):
        o = gen_option(r)
        opts.append(o)
        if r.random() < 0.25:
            opts.append(gen_option(r, number=o[0]))  # repeated option
    opts.sort(key=lambda o: o[0])  # stable: wire order
    return tuple(opts)


def gen_token(r):
    return r.randbytes(r.choice([0, 1, 1, 2, 4, 7, 8, 8]))


def body_for_length(rt, r, L, mode):
    """(options, payload) whose RFC 7252 body is exactly L bytes long. mode: payload | mixed | options"""
    if L == 0:
        return (), b""
    if mode == "options" or L == 1:
        # one or two opaque options, no payload
        for hdr in (3, 4, 5):  # 1 + 2 (delta 2000) + 0/1/2 (length ext)
            vl = L - hdr
            if vl < 0:
                continue
            if vl > 65804:
                break
            o = ((2000, b"\x5a" * vl),)
            if len(rt.encode_options(o)) == L:
                return o, b""
        if L <= 12:
            o = tuple((4, b"") for _ in range(L))  # L one-byte options: 0x40, then 0x00 (delta 0) repeated
            if len(rt.encode_options(o)) == L:
                return o, b""
        mode = "mixed"
    opts = ()
    if mode == "mixed":
        for _ in range(8):
            cand = gen_options(r, 3)
            if len(rt.encode_options(cand)) + 2 <= L:
                opts = cand
                break
    plen = L - len(rt.encode_options(opts)) - 1
    if plen <= 0:
        opts = ()
        plen = L - 1
    if plen <= 0:
        return ((4, b""),), b""  # L == 1
    fill = r.choice([b"\xff", b"\x00", b"p", None])
    payload = r.randbytes(plen) if fill is None or plen < 64 else fill * plen
    return opts, payload


def gen_message(rt, r, kind=None, L=None, mode=None):
    kind = kind or r.choice(["req", "resp"])
    code = r.choice(REQ_CODES if kind == "req" else RESP_CODES)
    token = gen_token(r)
    if L is None:
        L = r.choice(BODY_LENGTHS[:8] + [r.randrange(0, 40), r.randrange(0, 600), r.randrange(0, 600)]) if r.random() < 0.9 else r.choice(BODY_LENGTHS[8:])
    opts, payload = body_for_length(rt, r, L, mode or r.choice(["payload", "mixed", "mixed", "options"]))
    return frame_item(rt, rt.Frame(code, token, opts, payload))


def gen_csm(rt, r, elective=False):
    opts = []
    if r.random() < 0.7:
        opts.append((2, uint_bytes(r.choice([1152, 1153, 65536, 2**20, 2**32 - 1, 70000, 0, 2**40]))))
    if r.random() < 0.6:
        opts.append((4, b""))
    el = None
    if elective:
        n, v, el = gen_elective(r)
        opts.append((n, v))
    opts.sort(key=lambda o: o[0])
    return frame_item(rt, rt.Frame(rt.CSM, b"" if r.random() < 0.8 else gen_token(r), tuple(opts), b""), elective=el)


ELECTIVE_NUMBERS = [6, 8, 10, 12, 14, 16, 20, 28, 60, 252, 258, 292, 548, 1000, 2048, 65000, 65536]
CRITICAL_NUMBERS = [1, 3, 5, 7, 9, 11, 13, 15, 17, 19, 21, 23, 27, 31, 35, 39, 269, 2049, 65001, 65803]
VALUE_SHAPES = [b"", b"\x00", b"a", b"text", b"\xff", b"\xff\xfe", b"\xc3", b"\x80abc", b"\x00" * 9, b"\xab" * 13, b"\xe2\x82\xac", b"z" * 269]


def is_utf8(v):
    try:
        v.decode("utf8")
        return True
    except UnicodeDecodeError:
        return False


def gen_elective(r):
    n = r.choice(ELECTIVE_NUMBERS)
    v = r.choice(VALUE_SHAPES) if r.random() < 0.8 else r.randbytes(r.randrange(0, 20))
    return n, v, ("utf8" if is_utf8(v) else "non-utf8")


def gen_signal(rt, r, code, elective=False, critical=False):
    opts = []
    el = None
    if code == rt.CSM:
        if r.random() < 0.5:
            opts.append((2, uint_bytes(r.choice([1152, 2**20, 2**32 - 1]))))
        if r.random() < 0.5:
            opts.append((4, b""))
    elif code in (rt.PING, rt.PONG):
        if r.random() < 0.3:
            opts.append((2, b""))  # Custody
    elif code == rt.RELEASE:
        if r.random() < 0.4:
            opts.append((2, b"coap+tcp://other.example"))  # Alternative-Address (repeatable)
            if r.random() < 0.3:
                opts.append((2, b"[2001:db8::7]:61616"))
        if r.random() < 0.4:
            opts.append((4, uint_bytes(r.choice([0, 1, 3600, 2**24]))))  # Hold-Off
    elif code == rt.ABORT:
        if r.random() < 0.4:
            opts.append((2, uint_bytes(r.choice([0, 1, 7, 65001]))))  # Bad-CSM-Option
    if elective:
        n, v, el = gen_elective(r)
        opts.append((n, v))
    if critical:
        opts.append((r.choice(CRITICAL_NUMBERS), r.choice(VALUE_SHAPES)))
        if r.random() < 0.35:  # a second one: still one Abort
            opts.append((r.choice(CRITICAL_NUMBERS), r.choice(VALUE_SHAPES)))
    opts.sort(key=lambda o: o[0])
    payload = b"" if r.random() < 0.6 else b"diagnostic " + gen_text(r, r.randrange(0, 20)).encode("utf8")
    token = gen_token(r) if code in (rt.PING, rt.PONG) or r.random() < 0.2 else b""
    return frame_item(rt, rt.Frame(code, token, tuple(opts), payload), elective=el)


def gen_sigunk(rt, r):
    """A well-formed frame with a 7.xx code RFC 8323 does not define."""
    code = r.choice(UNKNOWN_SIG_CODES)
    return frame_item(rt, rt.Frame(code, gen_token(r) if r.random() < 0.3 else b"", r.choice([(), (), ((2, b"x"),), ((9, b""),)]), r.choice([b"", b"", b"diag"])))


BAD_CLASSES = ["tkl-above-8", "option-overruns-frame", "option-nibble-15", "option-ext-truncated", "non-utf8-string-option", "sig-critical-option", "marker-without-payload"]
UNKNOWN_SIG_CODES = [0xE0, 0xE6, 0xE7, 0xF0, 0xFF]  # 7.00, 7.06, 7.07, 7.16, 7.31


def gen_bad(rt, r, cls, code=None, token=None):
    """A frame that must be answered by Abort + close. code / token pin what the end-to-end scenarios need to recognise."""
    if cls == "marker-without-payload":
        # RFC 7252 section 3 (the body format RFC 8323 3.2 inherits): "The presence of a marker followed by a zero-length
        # payload MUST be processed as a message format error" - whatever the code and whatever options precede it
        if code is None:
            k = r.random()
            code = r.choice(REQ_CODES + RESP_CODES) if k < 0.55 else (r.choice([rt.CSM, rt.PING, rt.PONG, rt.RELEASE, rt.ABORT]) if k < 0.9 else 0)
        if token is None:
            token = gen_token(r) if (code < 224 and code != 0) or code in (rt.PING, rt.PONG) or r.random() < 0.2 else b""
        if code >= 224:
            opts = r.choice([(), (), ((6, b""),), ((4, b""),) if code == rt.CSM else ((8, b"el"),)])
        elif code == 0:
            opts = ()
        else:
            opts = tuple(sorted([gen_option(r, critical_only=True) for _ in range(r.choice([0, 1, 1, 2]))], key=lambda o: o[0]))
        body = rt.encode_options(opts) + b"\xff"
        try:
            rt.parse_body(body)
        except rt.Malformed as e:
            assert e.kind == cls, e.kind
        else:
            raise AssertionError("generator: body parses")
        return Item("bad", rt.encode_raw(code, token, body), cls=cls)
    code = code or r.choice(REQ_CODES + RESP_CODES)
    token = gen_token(r) if token is None else token
    good = rt.encode_options(tuple(sorted([gen_option(r, critical_only=True) for _ in range(r.randrange(0, 3))], key=lambda o: o[0])))
    if cls == "tkl-above-8":
        tkl = r.randrange(9, 16)
        body = r.choice([b"", b"\xb1a", b"\xffpayload"])
        return Item("bad", rt.encode_raw(code, r.randbytes(tkl), body, tkl=tkl), cls=cls)
    if cls == "option-overruns-frame":
        ln = r.choice([1, 5, 12])
        body = bytes([0xB0 | ln]) + r.randbytes(r.randrange(0, ln)).replace(b"\xff", b"a")
        body = r.choice([b"", good]) + bytes([0x10 | ln]) + b"a" * r.randrange(0, ln) if r.random() < 0.5 else body
        try:
            rt.parse_body(body)
        except rt.Malformed as e:
            assert e.kind == cls, e.kind
        else:
            raise AssertionError("generator: body parses")
        return Item("bad", rt.encode_raw(code, token, body), cls=cls)
    if cls == "option-nibble-15":
        b = r.choice([0xF0, 0xF1, 0x0F, 0x1F, 0xFE, 0xEF, 0xDF, 0xFD])
        body = r.choice([b"", b"\x40"]) + bytes([b]) + r.choice([b"", b"abc"])
        try:
            rt.parse_body(body)
        except rt.Malformed as e:
            if e.kind != cls:
                body = bytes([0xF0])
        return Item("bad", rt.encode_raw(code, token, body), cls=cls)
    if cls == "option-ext-truncated":
        body = r.choice([bytes([0xD0]), bytes([0x0D]), bytes([0xE0, 0x00]), bytes([0x0E, 0x01]), bytes([0xE0]), bytes([0xDD, 0x00])])
        return Item("bad", rt.encode_raw(code, token, body), cls=cls)
    if cls == "non-utf8-string-option":
        n = r.choice([3, 11, 15, 35, 39])  # critical string options
        v = r.choice([b"\xff", b"\xff\xfe", b"\xc3", b"ab\x80", b"\xe2\x82", b"\xed\xa0\x80"])
        code = code if code is not None and rt.is_request(code) else r.choice(REQ_CODES)
        return Item("bad", rt.encode(rt.Frame(code, token, ((n, v),), r.choice([b"", b"x"]))), cls=cls)
    if cls == "sig-critical-option":
        code = r.choice([rt.CSM, rt.PING, rt.PONG, rt.RELEASE, rt.ABORT])
        it = gen_signal(rt, r, code, critical=True)
        assert it.kind == "sigcrit"
        return it
    raise ValueError(cls)


def gen_oversize(rt, r, total, code=None, tkl=None):
    """A well-formed frame whose TOTAL length is exactly `total` (> 65805+6)."""
    tkl = r.choice([0, 1, 8]) if tkl is None else tkl
    code = code or r.choice([1, 2, 69])
    L = total - 1 - 4 - 1 - tkl
    assert L >= 65805
    token = r.randbytes(tkl)
    opts = ((11, b"big"),) if r.random() < 0.5 else ()
    plen = L - len(rt.encode_options(opts)) - 1
    fr = rt.Frame(code, token, opts, r.choice([b"\x00", b"\xff", b"q"]) * plen)
    data = rt.encode(fr)
    assert len(data) == total, (len(data), total)
    return fr, data


# =============================================================================
# chunkings
# =============================================================================


def chunk_mask(data, mask):
    out = []
    start = 0
    n = len(data)
    for i in range(n - 1):
        if mask >> i & 1:
            out.append(data[start : i + 1])
            start = i + 1
    out.append(data[start:])
    return out


def chunk_cuts(data, cuts):
    out = []
    start = 0
    for c in sorted(set(cuts)):
        if 0 < c < len(data) and c > start:
            out.append(data[start:c])
            start = c
    out.append(data[start:])
    return out


def chunkings(r, items, data, quick=True):
    """[(class, chunks)] for a long stream: whole, single-byte (or hybrid), frame-aligned,
    boundary-adversarial and random."""
    n = len(data)
    out = [("whole", [data])]
    if n <= 1:
        return out
    starts = []
    pos = 0
    for it in items:
        starts.append(pos)
        pos += len(it.data)
    if n <= 2500:
        out.append(("single", [data[i : i + 1] for i in range(n)]))
    else:
        cuts = set()
        for s, it in zip(starts, items):
            e = s + len(it.data)
            cuts.update(range(s, min(s + 48, e)))
            cuts.update(range(max(s, e - 8), e + 1))
        p = 0
        while p < n:
            p += r.choice([1, 2, 7, 512, 1460, 4096, 16384])
            cuts.add(p)
        out.append(("hybrid-single", chunk_cuts(data, cuts)))
    out.append(("per-frame", chunk_cuts(data, starts)))
    # cuts right around frame starts and inside headers
    cuts = set()
    for s in starts:
        for d in (-2, -1, 1, 2, 3, 4, 5, 6, 7):
            if r.random() < 0.5:
                cuts.add(s + d)
    out.append(("adversarial", chunk_cuts(data, cuts)))
    for _ in range(2 if quick else 4):
        k = r.choice([1, 2, 3, 5, 9, 17])
        out.append(("random", chunk_cuts(data, [r.randrange(1, n) for _ in range(k)])))
    return out


def ccls(n):
    return n if n <= 4 else (8 if n <= 8 else (64 if n <= 64 else 999))


# =============================================================================
# sections on the bare connection
# =============================================================================


def short_alphabet(rt):
    """Tiny messages (2-5 bytes, one 11-byte one) for the exhaustive chunking sweep."""
    F = rt.Frame
    a = {}

    def add(name, it):
        it.name = name
        a[name] = it

    add("csm", frame_item(rt, F(rt.CSM, b"", (), b"")))
    add("csm-mms", frame_item(rt, F(rt.CSM, b"", ((2, b"\x04\x80"),), b"")))
    add("csm-el", frame_item(rt, F(rt.CSM, b"", ((6, b""),), b""), elective="utf8"))
    add("csm-crit", frame_item(rt, F(rt.CSM, b"", ((1, b""),), b"")))
    add("get", frame_item(rt, F(1, b"\xa1", (), b"")))
    add("getp", frame_item(rt, F(1, b"\xa2", ((11, b"a"),), b"")))
    add("post", frame_item(rt, F(2, b"", (), b"hi")))
    add("r205", frame_item(rt, F(69, b"\xb1", (), b"h")))
    add("r404", frame_item(rt, F(132, b"", (), b"")))
    add("empty", frame_item(rt, F(0, b"", (), b"")))
    add("emptyx", frame_item(rt, F(0, b"\xaa", (), b"")))
    add("ping", frame_item(rt, F(rt.PING, b"", (), b"")))
    add("pingt", frame_item(rt, F(rt.PING, b"\xc1", (), b"")))
    add("pong", frame_item(rt, F(rt.PONG, b"", (), b"")))
    add("rel", frame_item(rt, F(rt.RELEASE, b"", (), b"")))
    add("abt", frame_item(rt, F(rt.ABORT, b"", (), b"")))
    add("bad-overrun", Item("bad", bytes.fromhex("1001b5"), cls="option-overruns-frame"))
    add("bad-nib", Item("bad", bytes.fromhex("1001f0"), cls="option-nibble-15"))
    add("bad-ext", Item("bad", bytes.fromhex("1001d0"), cls="option-ext-truncated"))
    add("bad-utf8", Item("bad", bytes.fromhex("2001b1ff"), cls="non-utf8-string-option"))
    add("bad-tkl9", Item("bad", bytes.fromhex("0901" + "11" * 9), cls="tkl-above-8"))
    add("bad-marker", Item("bad", bytes.fromhex("1001ff"), cls="marker-without-payload"))
    assert a["csm-crit"].kind == "sigcrit" and a["emptyx"].kind == "emptyx" and a["empty"].data == b"\x00\x00"
    return a


def short_streams(alpha, tier):
    names = list(alpha)
    seqs = [[x] for x in names]
    seqs += [[x, y] for x in names for y in names]
    seqs += [["csm", x, y] for x in names for y in names]
    limit3 = 12 if tier == "thorough" else 8
    tri = [[x, y, z] for x in names for y in names for z in names if x != "csm"]
    tri += [["csm", x, y, z] for x in names for y in names for z in names]
    out = []
    for s in seqs:
        if 2 <= sum(len(alpha[n].data) for n in s) <= 12:
            out.append(s)
    for s in tri:
        if sum(len(alpha[n].data) for n in s) <= limit3:
            out.append(s)
    return out


class Sections:
    def __init__(self, env, shard, only=None):
        self.env = env
        self.rep = env.rep
        self.rt = env.rt
        self.shard = shard
        self.only = only
        self.quick = shard.get("tier", "quick") == "quick"
        self.alpha = short_alphabet(env.rt)

    def rng(self, *parts):
        return random.Random("%d/%s" % (self.shard["seed"], "/".join(str(p) for p in parts)))

    def mine(self, i):
        return i % self.shard["of"] == self.shard["index"]

    # -- one stream, several chunkings ---------------------------------------------------
    def run_stream(self, section, role, items, chunk_list, case_base, only_ci=None, sample=False):
        env = self.env
        rep = self.rep
        exp = analyse(items)
        isig = tuple(item_sig(it) for it in items)
        for ci, (ccl, chunks) in enumerate(chunk_list):
            if only_ci is not None and ci != only_ci:
                continue
            rig = Rig(env, role)
            rig.feed(chunks)
            outcome = judge(env, rig, items, exp, case_base + [ci], chunks, section)
            rep.case((section, role, isig, ccl, ccls(len(chunks)), outcome), nontrivial=exp.nontrivial or len(chunks) > 1)
            rep.count("outcome_" + outcome)
        if sample:
            rep.sample({"section": section, "role": role, "items": [it.brief() for it in items], "expected_stop": exp.stop, "chunkings": [c for c, _ in chunk_list]})

    # -- exhaustive chunkings of short streams -----------------------------------------
    def short_one(self, role, names, only_mask=None):
        items = [self.alpha[n] for n in names]
        data = b"".join(it.data for it in items)
        n = len(data)
        env = self.env
        rep = self.rep
        exp = analyse(items)
        isig = tuple(names)
        masks = range(1 << (n - 1)) if only_mask is None else [only_mask]
        for mask in masks:
            chunks = chunk_mask(data, mask)
            rig = Rig(env, role)
            rig.feed(chunks)
            outcome = judge(env, rig, items, exp, ["short", role, names, mask], chunks, "short")
            rep.case(("short", role, isig, len(chunks), outcome), nontrivial=True)
        rep.count("short_streams_fully_chunked")

    def short(self):
        streams = short_streams(self.alpha, self.shard.get("tier", "quick"))
        self.rep.seen("short_stream_count", len(streams))
        k = 0
        for si, names in enumerate(streams):
            for role in ("server", "client"):
                k += 1
                if self.mine(k):
                    self.short_one(role, names)
        self.rep.sample({"section": "short", "example_stream": streams[len(streams) // 2], "alphabet": {n: it.data.hex() for n, it in self.alpha.items()}})

    # -- random sequences ---------------------------------------------------------------------
    def gen_seq(self, r):
        rt = self.rt
        items = []
        big_left = 1
        if r.random() < 0.9:
            items.append(gen_csm(rt, r, elective=r.random() < 0.15))
        n = r.choice([1, 2, 3, 4, 6, 10])
        stop_at = r.randrange(n + 1) if r.random() < 0.4 else None
        for i in range(n):
            if stop_at == i:
                k = r.random()
                if k < 0.65:
                    items.append(gen_bad(rt, r, r.choice(BAD_CLASSES)))
                elif k < 0.93:
                    items.append(gen_signal(rt, r, r.choice([rt.RELEASE, rt.ABORT]), elective=r.random() < 0.2))
                else:
                    items.append(gen_sigunk(rt, r))
            k = r.random()
            if k < 0.55:
                it = gen_message(rt, r)
                if len(it.data) > 60000:
                    if big_left == 0:
                        it = gen_message(rt, r, L=r.choice([0, 12, 13, 268, 269]))
                    else:
                        big_left -= 1
                items.append(it)
            elif k < 0.68:
                items.append(gen_signal(rt, r, rt.PING, elective=r.random() < 0.15))
            elif k < 0.73:
                items.append(gen_signal(rt, r, rt.PONG, elective=r.random() < 0.15))
            elif k < 0.85:
                items.append(frame_item(rt, rt.Frame(0, b"", (), b"")))
            elif k < 0.92:
                items.append(gen_csm(rt, r, elective=r.random() < 0.3))
            elif k < 0.95:
                items.append(frame_item(rt, rt.Frame(0, gen_token(r) or b"\x01", (), r.choice([b"", b"x"]))))
            else:
                items.append(gen_message(rt, r, L=r.choice([0, 1, 12, 13])))
        return items

    def seq_one(self, role, i, only_ci=None):
        r = self.rng("seq", i)
        items = self.gen_seq(r)
        data = b"".join(it.data for it in items)
        self.run_stream("seq", role, items, chunkings(r, items, data, self.quick), ["seq", role, i], only_ci, sample=(i < 2 and role == "server"))

    def seq(self):
        n = 600 if self.quick else 50000
        for j in range(n):
            i = self.shard["index"] + j * self.shard["of"]
            for role in ("server", "client"):
                self.seq_one(role, i)

    # -- body-length grid ------------------------------------------------------------------------
    def len_one(self, role, L, tkl, kind, mode, only_ci=None):
        rt = self.rt
        r = self.rng("len", L, tkl, kind, mode)
        code = r.choice(REQ_CODES if kind == "req" else RESP_CODES)
        opts, payload = body_for_length(rt, r, L, mode)
        msg = frame_item(rt, rt.Frame(code, r.randbytes(tkl), opts, payload))
        assert len(rt.encode_body(opts, payload)) == L
        items = [self.alpha["csm"], msg, self.alpha["getp"]]
        data = b"".join(it.data for it in items)
        self.run_stream("len", role, items, chunkings(r, items, data, self.quick), ["len", role, L, tkl, kind, mode], only_ci)
        self.rep.seen("body_lengths_received", L)

    def lengths(self):
        k = 0
        for L in BODY_LENGTHS:
            for tkl in (0, 1, 8):
                for kind in ("req", "resp"):
                    for mode in ("payload", "mixed", "options"):
                        for role in ("server", "client"):
                            k += 1
                            if self.mine(k):
                                self.len_one(role, L, tkl, kind, mode)

    # -- malformed frames at every position -----------------------------------------------------
    def badpos_one(self, role, cls, pos, v, only_ci=None):
        rt = self.rt
        r = self.rng("badpos", cls, pos, v)
        base = [gen_csm(rt, r), gen_message(rt, r, kind="req", L=r.choice([0, 5, 13, 300])), gen_message(rt, r, kind="resp", L=r.choice([0, 12, 269])), gen_signal(rt, r, rt.PING), gen_message(rt, r, kind="req", L=r.choice([1, 14]))]
        bad = gen_bad(rt, r, cls)
        items = base[:pos] + [bad] + base[pos:]
        data = b"".join(it.data for it in items)
        self.run_stream("badpos", role, items, chunkings(r, items, data, self.quick), ["badpos", role, cls, pos, v], only_ci, sample=(pos == 2 and v == 0 and role == "server" and cls == "option-overruns-frame"))

    def badpos(self):
        k = 0
        for cls in BAD_CLASSES:
            for pos in range(6):
                for v in range(20 if self.quick else 1500):
                    for role in ("server", "client"):
                        k += 1
                        if self.mine(k):
                            self.badpos_one(role, cls, pos, v)

    # -- signalling option sweep ---------------------------------------------------------------
    def sigopt_one(self, role, code, number, vi, early=False, double=False, only_ci=None):
        rt = self.rt
        value = VALUE_SHAPES[vi]
        known = {rt.CSM: [(2, b"\x10\x00\x00"), (4, b"")], rt.PING: [], rt.PONG: [], rt.RELEASE: [(4, b"\x05")], rt.ABORT: [(2, b"\x03")]}[code]
        # double: two unknown critical options in one message (the same number twice, or a second number)
        more = [(number, b""), (number + 2 * (vi % 3), value)] if double else []
        opts = tuple(sorted(known + [(number, value)] + more, key=lambda o: o[0]))
        if double:
            self.rep.monitor("several_critical_sig_options")
        el = None if number & 1 else ("utf8" if is_utf8(value) else "non-utf8")
        token = b"\x77" if code in (rt.PING, rt.PONG) else b""
        sig = frame_item(rt, rt.Frame(code, token, opts, b""), elective=el)
        # late: after a plain CSM; early: the option sits in the very first CSM of the connection
        items = [sig, self.alpha["getp"]] if early else [self.alpha["csm"], sig, self.alpha["getp"]]
        data = b"".join(it.data for it in items)
        first = 0 if early else 2
        cl = [("whole", [data]), ("single", [data[i : i + 1] for i in range(len(data))]), ("per-frame", chunk_cuts(data, [first, first + len(sig.data)]))]
        self.run_stream("sigopt", role, items, cl, ["sigopt", role, code, number, vi, early, double], only_ci)

    def sigopt(self):
        rt = self.rt
        k = 0
        for code in (rt.CSM, rt.PING, rt.PONG, rt.RELEASE, rt.ABORT):
            for number in ELECTIVE_NUMBERS + CRITICAL_NUMBERS:
                for vi in range(len(VALUE_SHAPES)):
                    for role in ("server", "client"):
                        k += 1
                        if self.mine(k):
                            self.sigopt_one(role, code, number, vi)
                            if code == rt.CSM:
                                self.sigopt_one(role, code, number, vi, early=True)
                            if number & 1:
                                self.sigopt_one(role, code, number, vi, early=(code == rt.CSM and vi % 2 == 1), double=True)

    # -- what follows the frame that ends the connection, cut at every single position ---------------
    AFTERSTOP_CLOSERS = ["bad/" + c for c in BAD_CLASSES if c != "sig-critical-option"] + ["sigcrit/%d" % c for c in (0xE1, 0xE2, 0xE3, 0xE4, 0xE5)] + ["sigunk", "release", "abort", "emptyx"]
    AFTERSTOP_FOLLOWERS = ["req", "resp", "ping+req", "req+resp+req", "csm+req", "empty+resp", "bad+req", "release+resp"]

    def afterstop_one(self, role, closer, followers, v, only_ci=None):
        rt = self.rt
        r = self.rng("afterstop", closer, followers, v)
        small = lambda kind: gen_message(rt, r, kind=kind, L=r.choice([0, 1, 5, 12, 13, 14]))  # noqa: E731
        pre = [gen_csm(rt, r)]
        if r.random() < 0.5:
            pre.append(small(r.choice(["req", "resp"])))
        what, _, arg = closer.partition("/")
        if what == "bad":
            c = gen_bad(rt, r, arg)
        elif what == "sigcrit":
            c = gen_signal(rt, r, int(arg), critical=True)
        elif what == "sigunk":
            c = gen_sigunk(rt, r)
        elif what == "emptyx":
            c = frame_item(rt, rt.Frame(0, gen_token(r) or b"\x01", (), r.choice([b"", b"x"])))
        else:
            c = gen_signal(rt, r, rt.RELEASE if what == "release" else rt.ABORT, elective=r.random() < 0.2)
        tail = []
        for f in followers.split("+"):
            if f in ("req", "resp"):
                tail.append(small(f))
            elif f == "ping":
                tail.append(gen_signal(rt, r, rt.PING))
            elif f == "csm":
                tail.append(gen_csm(rt, r))
            elif f == "empty":
                tail.append(self.alpha["empty"])
            elif f == "bad":
                tail.append(gen_bad(rt, r, r.choice(BAD_CLASSES)))
            elif f == "release":
                tail.append(gen_signal(rt, r, rt.RELEASE))
        items = pre + [c] + tail
        data = b"".join(it.data for it in items)
        a = sum(len(it.data) for it in pre)
        b = a + len(c.data)
        cl = [("whole", [data]), ("single", [data[i : i + 1] for i in range(len(data))]), ("per-frame", chunk_cuts(data, [sum(len(it.data) for it in items[:k]) for k in range(1, len(items))]))]
        for p in range(1, len(data)):
            where = "before-closer" if p <= a else ("inside-closer" if p < b else ("at-closer-end" if p == b else "inside-followers"))
            cl.append(("one-cut-" + where, [data[:p], data[p:]]))
        self.rep.monitor("afterstop_single_cut", len(cl) if only_ci is None else 1)
        self.run_stream("afterstop", role, items, cl, ["afterstop", role, closer, followers, v], only_ci, sample=(v == 0 and role == "client" and closer == "sigcrit/226" and followers == "resp"))

    def afterstop(self):
        k = 0
        for v in range(1 if self.quick else 40):
            for closer in self.AFTERSTOP_CLOSERS:
                for followers in self.AFTERSTOP_FOLLOWERS:
                    for role in ("server", "client"):
                        k += 1
                        if self.mine(k):
                            self.afterstop_one(role, closer, followers, v)

    # -- frames around the advertised Max-Message-Size -----------------------------------------
    OVERSIZE_VARIANTS = ["at-max", "max+1", "max+1-tkl8", "max+1-tkl0-late", "max+1-first", "max+4096"]

    def oversize_one(self, role, variant, v, only_ci=None):
        rt = self.rt
        env = self.env
        r = self.rng("oversize", variant, v)
        if role not in env.local_max:
            Rig(env, role)
        mx = env.local_max[role]
        if mx < 70000 or mx > (1 << 26):
            self.rep.inconc("advertised Max-Message-Size %d is outside the range the oversize generator handles" % mx)
            return
        csm = gen_csm(rt, r)
        g1 = gen_message(rt, r, kind="req", L=r.choice([0, 13]))
        g2 = self.alpha["getp"]
        if variant == "at-max":
            fr, data = gen_oversize(rt, r, mx)
            items = [csm, g1, Item("req" if rt.is_request(fr.code) else "resp", data, fr), g2]
        else:
            total = mx + (4096 if variant == "max+4096" else 1)
            tkl = 8 if "tkl8" in variant else (0 if "tkl0" in variant else None)
            fr, data = gen_oversize(rt, r, total, tkl=tkl)
            big = Item("bad", data, cls="oversize")
            items = {"max+1-first": [big, csm, g2], "max+1-tkl0-late": [csm, g1, g2, self.alpha["ping"], big]}.get(variant, [csm, g1, big, g2])
        stream = b"".join(it.data for it in items)
        starts = []
        p = 0
        for it in items:
            starts.append(p)
            p += len(it.data)
        bigstart = starts[[i for i, it in enumerate(items) if len(it.data) > 70000][0]]
        cl = [("whole", [stream])]
        cuts = set(range(bigstart, bigstart + 12))
        cuts.update(range(bigstart + 12, len(stream), 65536))
        cl.append(("header-single", chunk_cuts(stream, cuts)))
        cl.append(("random", chunk_cuts(stream, [r.randrange(1, len(stream)) for _ in range(4)] + [len(stream) - 1])))
        self.run_stream("oversize", role, items, cl, ["oversize", role, variant, v], only_ci)

    def oversize(self):
        k = 0
        for v in range(2 if self.quick else 40):
            for variant in self.OVERSIZE_VARIANTS:
                for role in ("server", "client"):
                    k += 1
                    if self.mine(k):
                        self.oversize_one(role, variant, v)

    # -- (b) outgoing serialisation ----------------------------------------------------------------
    def build_message(self, frame):
        from aiocoap import Message
        from aiocoap.numbers.optionnumbers import OptionNumber

        m = Message(code=frame.code, payload=frame.payload)
        m.token = frame.token
        for n, raw in frame.options:
            m.opt.add_option(OptionNumber(n).create_option(decode=raw))
        return m

    def out_one(self, role, frame, path, case, tag):
        rt = self.rt
        rep = self.rep
        rig = Rig(self.env, role)
        want = rt.encode(frame)
        try:
            m = self.build_message(frame)
        except Exception as e:
            rep.inconc("could not build an aiocoap Message for an outgoing case: %r" % e)
            return
        try:
            if path == "pool":
                m.remote = rig.conn
                rig.pool.send_message(m, None)
            else:
                rig.conn._send_message(m)
        except Exception as e:
            rep.violation("outgoing/send-raises/%s" % type(e).__name__, "sending a representable message over TCP raised %r" % e, {"frame": rt.describe(frame), "path": path, "tb": rep.exception_witness(e)}, case)
            return
        got = bytes(rig.t.out[rig.csm_len :])
        rep.monitor("outgoing_bytes")
        L = len(rt.encode_body(frame.options, frame.payload))
        rep.seen("body_lengths_sent", L if L in BODY_LENGTHS else -1)
        outcome = "ok"
        if got != want:
            outcome = "violation"
            key = "outgoing/bytes-differ"
            detail = {}
            try:
                frames, rest = rt.decode_stream(got)
            except rt.Malformed as e:
                frames, rest = None, b""
                detail["got_malformed"] = e.kind
            if frames is not None and len(frames) == 1 and not rest:
                g = frames[0]
                if (g.code, g.token, g.payload) == (frame.code, frame.token, frame.payload):
                    wc, gc = Counter(frame.options), Counter(g.options)
                    if not (gc - wc) and (wc - gc):
                        key = "outgoing/option-stripped/" + "+".join(str(n) for n in sorted({n for n, _ in (wc - gc)}))
                detail["got_frame"] = rt.describe(g)
            elif not got:
                key = "outgoing/nothing-written"
            else:
                # the length field does not delimit the message that follows it
                key = "outgoing/length-field-wrong/body-%s" % (L if L in BODY_LENGTHS else "other")
            rep.violation(key, "bytes written for an outgoing message differ from the RFC 8323 3.2 serialisation", dict(detail, role=role, path=path, frame=rt.describe(frame), body_length=L, got_head=got[:24].hex(), want_head=want[:24].hex(), got_len=len(got), want_len=len(want)), case)
        rep.case(("out", role, path, tag, frame.code >> 5, len(frame.token), lcls(L), min(len(frame.options), 4), outcome), nontrivial=bool(frame.options or frame.payload or frame.token))

    def outgrid_one(self, role, L, tkl, mode, path):
        rt = self.rt
        r = self.rng("outgrid", L, tkl, mode)
        opts, payload = body_for_length(rt, r, L, mode)
        code = r.choice(REQ_CODES + RESP_CODES)
        self.out_one(role, rt.Frame(code, r.randbytes(tkl), opts, payload), path, ["outgrid", role, L, tkl, mode, path], "grid")

    def outrand_one(self, role, i):
        rt = self.rt
        r = self.rng("out", i)
        k = r.random()
        if k < 0.8:
            it = gen_message(rt, r)
        else:
            it = gen_signal(rt, r, r.choice([rt.CSM, rt.PING, rt.PONG, rt.RELEASE, rt.ABORT]))
        path = "pool" if (r.random() < 0.5 and it.kind in ("req", "resp")) else "conn"
        self.out_one(role, it.frame, path, ["out", role, i], "rand")

    def out_noresponse(self, role):
        rt = self.rt
        # a request carrying the No-Response option (RFC 7967), sent the way the token manager sends
        self.out_one(role, rt.Frame(3, b"\x01\x02", ((11, b"actuator"), (258, b"\x1a")), b"on"), "pool", ["out-noresponse", role], "no-response")

    def outgoing(self):
        k = 0
        for L in BODY_LENGTHS:
            for tkl in (0, 8):
                for mode in ("payload", "mixed", "options"):
                    for path in ("conn", "pool"):
                        for role in ("server", "client"):
                            k += 1
                            if self.mine(k):
                                self.outgrid_one(role, L, tkl, mode, path)
        n = 300 if self.quick else 30000
        for j in range(n):
            i = self.shard["index"] + j * self.shard["of"]
            self.outrand_one("server" if i % 2 else "client", i)
        if self.shard["index"] < 2:
            self.out_noresponse(("server", "client")[self.shard["index"]])

    # =========================================================================
    # end-to-end on a real Context
    # =========================================================================

    def feed_transport(self, t, chunks, case, what):
        """Deliver chunks like the selector would; an escape is a violation."""
        for ch in chunks:
            try:
                if not t.deliver(ch):
                    return
            except Exception as e:
                self.rep.violation(escape_key(e), "TcpConnection.data_received let %s escape (%s)" % (type(e).__name__, what), {"tb": self.rep.exception_witness(e), "chunk": ch[:64].hex()}, case)
                return

    def pick_chunking(self, r, data, starts):
        k = r.randrange(4)
        if k == 0 or len(data) < 2:
            return "whole", [data]
        if k == 1:
            return "single", [data[i : i + 1] for i in range(len(data))]
        if k == 2:
            return "per-frame", chunk_cuts(data, starts)
        return "random", chunk_cuts(data, [r.randrange(1, len(data)) for _ in range(r.choice([1, 2, 5]))])

    async def e2e_client_case(self, i):
        import asyncio

        env, rep, rt = self.env, self.rep, self.rt
        aiocoap = env.aiocoap
        case = ["e2ec", i]
        r = self.rng("e2ec", i)
        del env.conns[:]
        del env.servers[:]
        # the requests are pending either on a client-role connection (normal) or on a connection
        # the context accepted as a server (role reversal: request addressed to the remote object)
        role = "client" if r.random() < 0.7 else "server"
        if role == "client":
            ctx = await aiocoap.Context.create_client_context(transports=["tcpclient"], loggername="coap")
        else:
            import aiocoap.resource as resource

            ctx = await aiocoap.Context.create_server_context(resource.Site(), transports=["tcpserver"], loggername="coap-server")
        futs = []
        try:
            if role == "server":
                if len(env.servers) != 1:
                    rep.inconc("e2e: expected one fake listening server, got %d" % len(env.servers))
                    return
                env.conns.append(env.servers[0].accept())
            nreq = r.choice([1, 1, 2, 3])
            sent = []
            shapes = []
            for j in range(nreq):
                segs = [r.choice(["a", "sensor", "x" * 13, "ä"]) for _ in range(r.randrange(0, 3))]
                k = r.random()
                # bigput: a body no single message may carry before the peer's CSM is known (RFC 8323 5.3.1 base value 1152):
                # goes out as the first block of a Block1 transfer
                shape = "get" if k < 0.5 else ("put" if k < 0.8 else "bigput")
                put = shape != "get"
                payload = b"" if shape == "get" else r.randbytes(r.choice([1, 12, 13, 268, 269, 700] if shape == "put" else [1200, 1500, 2048, 2500, 4100]))
                if role == "client":
                    m = aiocoap.Message(code=aiocoap.PUT if put else aiocoap.GET, uri="coap+tcp://peer.example/" + "/".join(segs), payload=payload)
                else:
                    m = aiocoap.Message(code=aiocoap.PUT if put else aiocoap.GET, uri_path=segs, payload=payload)
                    m.remote = env.conns[0].proto
                sent.append((3 if put else 1, segs, payload))
                shapes.append(shape)
                futs.append(asyncio.ensure_future(ctx.request(m).response))
            await asyncio.sleep(0.001)
            # requests racing for the first connection to a host may each have opened one; all but the one filed in the pool
            # are given up again (how many were opened is the client's business, C18 looks at their fate)
            live = [c for c in env.conns if not c.closing]
            if len(live) != 1:
                rep.inconc("e2e client: expected one live fake connection, got %d of %d" % (len(live), len(env.conns)))
                return
            if len(env.conns) > 1:
                rep.count("e2e_client_surplus_connections_given_up", len(env.conns) - 1)
            t = live[0]
            # ---- (b) what the real stack wrote: own CSM, then the requests ------------------
            rep.monitor("e2e_outgoing_request")
            try:
                frames, rest = rt.decode_stream(bytes(t.out))
            except rt.Malformed as e:
                rep.violation("outgoing/e2e-bytes-not-frames", "bytes written by the client context are not well-formed RFC 8323 frames (%s)" % e.kind, {"bytes": bytes(t.out)[:200].hex()}, case)
                return
            reqs = [f for f in frames if rt.is_request(f.code)]
            okb = (not rest) and frames and frames[0].code == rt.CSM and len(reqs) == nreq and len(frames) == nreq + 1
            block1 = {}  # request index -> Block1 value of a first block that announces more
            if okb:
                for j, (f, (code, segs, payload)) in enumerate(zip(reqs, sent)):
                    want_opts = ([(3, b"peer.example")] if role == "client" else []) + [(11, s.encode("utf8")) for s in segs]
                    opts = list(f.options)
                    b1 = [v for n, v in opts if n == 27]
                    if shapes[j] == "bigput" and b1:
                        # RFC 7959 2.2: first block NUM 0 with M set, carrying the first 2^(SZX+4) bytes; SZX 7 is BERT
                        # (RFC 8323 6): a positive multiple of 1024. Size1 (RFC 7959 4) may announce the total length.
                        v = int.from_bytes(b1[0], "big")
                        szx, size = v & 7, len(f.payload)
                        s1 = [int.from_bytes(x, "big") for n, x in opts if n == 60]
                        if len(b1) != 1 or v >> 4 != 0 or not v & 8 or not 0 < size < len(payload) or payload[:size] != f.payload or (size != 1 << (szx + 4) if szx < 7 else size % 1024) or s1 not in ([], [len(payload)]):
                            okb = False
                        opts = [o for o in opts if o[0] not in (27, 60)]
                        block1[j] = v
                    elif f.payload != payload:
                        okb = False
                    if f.code != code or opts != want_opts or len(f.token) > 8:
                        okb = False
                if len({f.token for f in reqs}) != len(reqs):
                    okb = False
            if not okb:
                rep.violation("outgoing/e2e-request-differs", "requests written by the client context do not decode (independently) to what the application sent", {"frames": [rt.describe(f) for f in frames[:6]], "rest": rest[:40].hex(), "sent": repr(sent)[:400]}, case)
                return
            # ---- the scripted peer -----------------------------------------------------------------
            # [CSM] responses (final ones, and first blocks of a longer exchange: Block2 with M set, 2.31 Continue) [Pong]
            # CLOSER [Ping] [a response that comes too late]; CLOSER: Release / Abort from the peer, or a frame that makes the
            # endpoint itself Abort (or, for an undefined 7.xx code, possibly not)
            items = []
            csm_first = r.random() < 0.85
            if csm_first:
                items.append(gen_csm(rt, r, elective=r.random() < 0.1))
            answered = {}
            partial = {}
            if csm_first:
                resp = []
                for j in range(nreq):
                    k = r.random()
                    if k < 0.25:
                        pl = r.randbytes(r.choice([0, 5, 13, 269]))
                        # (a final answer to the first block of a Block1 upload: a conforming peer that wants no more
                        # of it says so with an error, 4.13 Request Entity Too Large; a success code without Block1
                        # option there would mean it ignored a critical option)
                        resp.append(frame_item(rt, rt.Frame(141 if j in block1 else 69, reqs[j].token, (), pl)))
                        answered[j] = pl
                    elif k < 0.6:
                        if j in block1:
                            v = block1[j]
                            resp.append(frame_item(rt, rt.Frame(95, reqs[j].token, ((27, uint_bytes(v)),), b"")))
                            partial[j] = "continue"
                        else:
                            szx = r.choice([0, 2, 6])
                            resp.append(frame_item(rt, rt.Frame(69 if shapes[j] == "get" else 68, reqs[j].token, ((23, bytes([8 | szx])),), r.randbytes(1 << (szx + 4)))))
                            partial[j] = "block2"
                r.shuffle(resp)
                items += resp
            if r.random() < 0.3:
                items.append(gen_signal(rt, r, rt.PONG))
            k = r.random()
            closer_kind = "release" if k < 0.36 else ("abort" if k < 0.72 else ("bad" if k < 0.93 else "sigunk"))
            if closer_kind in ("release", "abort"):
                closer_code = rt.RELEASE if closer_kind == "release" else rt.ABORT
                closer = gen_signal(rt, r, closer_code, elective=r.random() < 0.15)
                name = SIG_NAMES[closer_code]
                cause = "peer-" + name
            elif closer_kind == "bad":
                closer = gen_bad(rt, r, r.choice(BAD_CLASSES))
                name = None
                cause = "own-abort/" + closer.cls.split("/7.")[0]
            else:
                closer = gen_sigunk(rt, r)
                name = None
                cause = "own-abort/unknown-signalling-code"
            items.append(closer)
            if r.random() < 0.3:
                items.append(frame_item(rt, rt.Frame(rt.PING, b"\x09", (), b"")))
            late = None
            unanswered = [j for j in range(nreq) if j not in answered and j not in partial]
            if unanswered and r.random() < 0.45:
                late = r.choice(unanswered)
                late_pl = r.randbytes(r.choice([0, 5, 13]))
                items.append(frame_item(rt, rt.Frame(69, reqs[late].token, (), late_pl)))
            data = b"".join(it.data for it in items)
            starts = []
            p = 0
            for it in items:
                starts.append(p)
                p += len(it.data)
            ccl, chunks = self.pick_chunking(r, data, starts)
            # schedule: chunks handed over back to back (what a TLS layer does with several records of one segment), or
            # with the loop running in between (separate read events)
            pace = r.choice([0, 0, 1, 3])
            tap = self.tap_dispatch(t)
            await self.feed_transport_paced(t, chunks, case, "client context", pace)
            closed = t.closing
            must_abort_unmet = False
            if closer_kind == "bad":
                rep.monitor("abort_and_close")
                if closer.cls == "marker-without-payload":
                    rep.monitor("marker_without_payload_abort")
                try:
                    aborted = any(f.code == rt.ABORT for f in rt.decode_stream(bytes(t.out))[0])
                except rt.Malformed:
                    aborted = False
                w0 = {"local_role": role, "peer_items": [it.brief() for it in items], "chunking": ccl, "chunk_sizes": [len(c) for c in chunks][:40], "transport_closing": closed, "written": bytes(t.out)[-60:].hex()}
                if not aborted and not closed:
                    must_abort_unmet = True
                    rep.violation("abort/%s/no-abort-no-close" % closer.cls, "neither Abort sent nor connection closed by the context after a frame of class %s" % closer.cls, w0, case)
                elif not aborted:
                    rep.violation("abort/%s/closed-without-abort" % closer.cls, "connection closed by the context but no Abort (7.05) written before the close for class %s" % closer.cls, w0, case)
                elif not closed:
                    must_abort_unmet = True
                    rep.violation("abort/%s/abort-without-close" % closer.cls, "Abort written by the context but transport not closed for class %s" % closer.cls, w0, case)
            stale = {}
            if closed and not t.lost and r.random() < 0.5:
                stale["closing"] = self.stale_request(ctx, t, case, "closing")  # transport closing, connection_lost still to come
            await asyncio.sleep(0.001)
            pending = [f for f in futs if not f.done()]
            if pending:
                await asyncio.wait(pending, timeout=400)  # virtual seconds
            rep.monitor("release_abort_fail_pending")
            outcome = "ok"
            # Requests answered before the closing message must have their response unless an unknown
            # elective signalling option precedes it (aiocoap may abort there: judged by the bare-connection
            # sections under sig-elective-option/*, not here).
            clean_until = {}
            seen_elective = False
            for it in items:
                if it.elective:
                    seen_elective = True
                if it.kind == "resp":
                    clean_until[it.frame.token] = not seen_elective
            late_requests = 0  # requests the stack wrote after it had closed the transport (asyncio drops them)
            for x in t.late:
                try:
                    late_requests += sum(1 for f in rt.decode_stream(x)[0] if rt.is_request(f.code))
                except rt.Malformed:
                    pass

            def wit(**kw):
                w = {"local_role": role, "requests": repr([(c, s_, len(p_)) for c, s_, p_ in sent])[:300], "peer_items": [it.brief() for it in items], "chunking": ccl, "chunk_sizes": [len(c) for c in chunks][:40], "loop_iterations_between_chunks": pace, "csm_first": csm_first, "answered": sorted(answered), "first_block_only": partial, "late_response_for": late, "transport_closing": closed, "requests_written_after_close": late_requests}
                w.update(kw)
                return w

            def viol(key, what, **kw):
                rep.violation(key, what, wit(**kw), case)
                return "violation"

            dispatched_late = self.judge_tap(tap, t, cause, wit, case)
            if dispatched_late:
                outcome = "violation"
            if closed and partial:
                rep.monitor("blockwise_followup_after_close")
            if closed and late is not None:
                rep.monitor("late_response_after_close")
            for j, f in enumerate(futs):
                if j in answered:
                    if not f.done() or f.cancelled() or f.exception() is not None:
                        if not clean_until.get(reqs[j].token, False):
                            rep.count("e2e_response_after_elective_option_not_delivered")
                        elif csm_first:
                            outcome = viol("e2e-client/response-not-delivered", "a response sent after the CSM and before %s did not complete its request" % (name or "the closing frame"), request=j, state=repr(f)[:200])
                    elif bytes(f.result().payload) != answered[j] or int(f.result().code) != (141 if j in block1 else 69):
                        outcome = viol("e2e-client/response-differs", "the delivered response differs from the one sent", request=j)
                    continue
                delivered = f.done() and not f.cancelled() and f.exception() is None
                if must_abort_unmet:
                    outcome = "violation"  # reported above; what the requests do on a connection that wrongly stayed up says nothing
                    continue
                if closer_kind == "sigunk" and not closed:
                    # the endpoint chose to tolerate the undefined code: the stream went on, a response after it counts
                    rep.count("e2e_unknown_signalling_code_tolerated")
                    if j == late and csm_first and not seen_elective and not delivered:
                        outcome = viol("e2e-client/response-not-delivered", "a response sent after a tolerated undefined signalling code did not complete its request", request=j, state=repr(f)[:200])
                    continue
                if j == late and delivered and reqs[j].token in dispatched_late:
                    # the response FOLLOWS the frame that ended the connection: received only because it shared a chunk with it
                    outcome = viol("dispatch-after-close/e2e-response-delivered/" + cause, "a response that followed the connection-ending frame completed a request (the endpoint had already closed its transport; cut differently, the same stream fails the request)", request=j, state=repr(f)[:200])
                    continue
                followup = j in partial and late_requests > 0
                if not f.done():
                    if followup:
                        outcome = viol("send-after-close/request-never-completes/blockwise-followup", "a block-wise exchange whose first block was answered right before the connection ended never completed: the request for the next block was written to the closed transport (still pending 400 virtual seconds later)", request=j)
                    elif name:
                        outcome = viol("peer-close/%s/pending-not-failed" % name, "a request pending on the connection was not failed after the peer's %s (still pending 400 virtual seconds later)" % name, request=j)
                    else:
                        rep.count("e2e_pending_after_own_abort_not_failed")
                elif not name and not followup:
                    rep.count("e2e_pending_after_own_abort_" + ("failed" if not delivered else "completed"))  # the statement is silent
                elif f.cancelled() or f.exception() is None:
                    outcome = viol("peer-close/%s/pending-completed-without-error" % name if name else "send-after-close/blockwise-followup/completed-without-error", "a pending, unanswered request completed without an error after %s" % ("the peer's " + name if name else "the connection had been closed"), request=j, state=repr(f)[:200])
                elif not isinstance(f.exception(), env.error.NetworkError):
                    ex = f.exception()
                    outcome = viol(("peer-close/%s/not-a-network-error/%s" % (name, type(ex).__name__)) if name else "send-after-close/blockwise-followup/not-a-network-error/%s" % type(ex).__name__, "pending request failed with %s, which is not an aiocoap.error.NetworkError" % type(ex).__name__, request=j, exc=repr(ex))
                else:
                    rep.seen("pending_failure_types", type(f.exception()).__name__)
            # ---- a request addressed to the remote of the connection that has ended ---------------------------
            if closed:
                if r.random() < 0.7 or not stale:
                    stale["lost"] = self.stale_request(ctx, t, case, "lost")
                fs = [f for f in stale.values() if f is not None and not f.done()]
                if fs:
                    await asyncio.wait(fs, timeout=100)
                for when, f in stale.items():
                    if f is None:
                        outcome = "violation"
                        continue
                    futs.append(f)
                    rep.monitor("request_to_closed_connection")
                    if not f.done():
                        outcome = viol("send-after-close/request-never-completes/stale-remote", "a request addressed to a connection that had ended (%s) was written to the closed transport and never completed (still pending 100 virtual seconds later)" % ("transport closing, connection_lost still to come" if when == "closing" else "after connection_lost"), when=when)
                    elif f.cancelled() or f.exception() is None:
                        outcome = viol("send-after-close/stale-remote/completed-without-error", "a request addressed to a connection that had ended completed without an error", when=when, state=repr(f)[:200])
                    elif not isinstance(f.exception(), env.error.NetworkError):
                        ex = f.exception()
                        outcome = viol("send-after-close/stale-remote/not-a-network-error/%s" % type(ex).__name__, "a request addressed to a connection that had ended failed with %s, which is not an aiocoap.error.NetworkError" % type(ex).__name__, when=when, exc=repr(ex))
            rep.case(("e2ec", role, tuple(shapes), csm_first, tuple(item_sig(it) for it in items), tuple(sorted(partial.items())), late is not None, ccl, min(pace, 1), tuple(sorted(stale)), outcome), nontrivial=True)
            if i < 2:
                rep.sample({"section": "e2e-client", "requests": repr([(c, s_, len(p_)) for c, s_, p_ in sent])[:200], "peer_items": [it.brief() for it in items], "chunking": ccl, "loop_iterations_between_chunks": pace, "failures": [type(f.exception()).__name__ if f.done() and not f.cancelled() and f.exception() else ("result" if f.done() else "pending") for f in futs]})
        finally:
            for f in futs:
                if not f.done():
                    f.cancel()
            await self.shutdown_ctx(ctx)

    def tap_dispatch(self, t):
        """Observe 'messages handed to the token manager' on a real Context: -> list of (kind, token, transport was already
        closing), or None when the pool object has no token manager to tap (the required monitor then stays at zero)."""
        tm = getattr(getattr(t.proto, "_ctx", None), "_tokenmanager", None)
        if tm is None or not hasattr(tm, "process_request") or not hasattr(tm, "process_response"):
            return None
        log = []
        preq, presp = tm.process_request, tm.process_response

        def process_request(msg):
            log.append(("req", bytes(msg.token), t.closing))
            return preq(msg)

        def process_response(msg):
            log.append(("resp", bytes(msg.token), t.closing))
            return presp(msg)

        tm.process_request = process_request
        tm.process_response = process_response
        return log

    def judge_tap(self, log, t, cause, wit, case):
        """Model-free: nothing reaches the token manager once the endpoint has closed its transport. -> tokens dispatched late"""
        if log is None:
            return set()
        self.rep.monitor("e2e_dispatch_tap")
        after = [(k, tok) for k, tok, closing in log if closing]
        if after:
            self.rep.violation("dispatch-after-close/e2e-%s-dispatched/%s" % ("request" if after[0][0] == "req" else "response", cause or "unmodelled-close"), "the context handed %d message(s) to its token manager after it had closed the transport (frames sharing a chunk with the frame that ended the connection)" % len(after), wit(dispatched_after_close=[(k, tok.hex()) for k, tok in after[:4]]), case)
        return {tok for _, tok in after}

    def stale_request(self, ctx, t, case, when):
        """The application addresses a new request to the remote of a connection that has ended (as it may with the .remote
        of an earlier response). -> future of its response, None if that already went wrong."""
        import asyncio

        aiocoap = self.env.aiocoap
        m = aiocoap.Message(code=aiocoap.GET, uri_path=["after", when])
        m.remote = t.proto
        try:
            return asyncio.ensure_future(ctx.request(m).response)
        except self.env.error.NetworkError as e:
            f = asyncio.get_running_loop().create_future()
            f.set_exception(e)  # raising the network error right away is failing with a network error too
            return f
        except Exception as e:
            self.rep.violation("send-after-close/stale-remote/request-raises/%s" % type(e).__name__, "Context.request() for a connection that had ended raised %s" % type(e).__name__, {"when": when, "tb": self.rep.exception_witness(e)}, case)
            return None

    async def feed_transport_paced(self, t, chunks, case, what, pace):
        """feed_transport with `pace` loop iterations between two chunks."""
        import asyncio

        if not pace:
            return self.feed_transport(t, chunks, case, what)
        for ch in chunks:
            try:
                if not t.deliver(ch):
                    return
            except Exception as e:
                self.rep.violation(escape_key(e), "TcpConnection.data_received let %s escape (%s)" % (type(e).__name__, what), {"tb": self.rep.exception_witness(e), "chunk": ch[:64].hex()}, case)
                return
            for _ in range(pace):
                await asyncio.sleep(0)


    async def e2e_server_case(self, i):
        import asyncio

        env, rep, rt = self.env, self.rep, self.rt
        aiocoap = env.aiocoap
        import aiocoap.resource as resource

        case = ["e2es", i]
        r = self.rng("e2es", i)
        late_hits = []

        class X(resource.Resource):
            async def render_get(self, request):
                return aiocoap.Message(payload=b"value-x")

        class Echo(resource.Resource):
            async def render_post(self, request):
                return aiocoap.Message(code=aiocoap.CHANGED, payload=bytes(request.payload))

        class Late(resource.Resource):
            async def render_get(self, request):
                late_hits.append(1)
                return aiocoap.Message(payload=b"late")

        site = resource.Site()
        site.add_resource(["x"], X())
        site.add_resource(["echo"], Echo())
        site.add_resource(["late"], Late())
        del env.servers[:]
        ctx = await aiocoap.Context.create_server_context(site, transports=["tcpserver"], loggername="coap-server")
        try:
            if len(env.servers) != 1:
                rep.inconc("e2e server: expected one fake listening server, got %d" % len(env.servers))
                return
            t = env.servers[0].accept()
            own = len(t.out)
            items = [gen_csm(rt, r, elective=r.random() < 0.1)]
            want = Counter()
            n = r.choice([1, 2, 3, 5, 8])
            nempty = nping = 0
            for j in range(n):
                k = r.random()
                tok = bytes([j + 1]) + r.randbytes(r.randrange(0, 7))
                if k < 0.3:
                    items.append(frame_item(rt, rt.Frame(1, tok, ((11, b"x"),), b"")))
                    want[(69, tok, b"value-x")] += 1
                elif k < 0.5:
                    pl = r.randbytes(r.choice([1, 12, 13, 268, 269, 800]))
                    items.append(frame_item(rt, rt.Frame(2, tok, ((11, b"echo"),), pl)))
                    want[(68, tok, pl)] += 1
                elif k < 0.8:
                    items.append(frame_item(rt, rt.Frame(0, b"", (), b"")))
                    nempty += 1
                else:
                    items.append(frame_item(rt, rt.Frame(rt.PING, tok, (), b"")))
                    want[(rt.PONG, tok, b"")] += 1
                    nping += 1
            # ---- optionally the connection ends: a frame the server must Abort on (recognisable by its token where the class
            # leaves the token intact), Release / Abort from the peer, or an undefined 7.xx code; then requests that come too late
            tail = None
            tail_kind = None
            cause = None
            bad_token = b"\xee" + r.randbytes(r.randrange(0, 7))
            late_tokens = []
            if r.random() < 0.45:
                k = r.random()
                tail_kind = "bad" if k < 0.6 else ("release" if k < 0.75 else ("abort" if k < 0.9 else "sigunk"))
                if tail_kind == "bad":
                    tail = gen_bad(rt, r, r.choice(BAD_CLASSES), code=r.choice([1, 2, 3]), token=bad_token)
                    cause = "own-abort/" + tail.cls.split("/7.")[0]
                elif tail_kind == "sigunk":
                    tail = gen_sigunk(rt, r)
                    cause = "own-abort/unknown-signalling-code"
                else:
                    tail = gen_signal(rt, r, rt.RELEASE if tail_kind == "release" else rt.ABORT)
                    cause = "peer-" + tail_kind
                items.append(tail)
                for j in range(r.choice([0, 1, 1, 2])):
                    tok = bytes([0xF0 + j]) + r.randbytes(r.randrange(0, 7))
                    late_tokens.append(tok)
                    items.append(frame_item(rt, rt.Frame(1, tok, ((11, b"late"),), b"")))
            data = b"".join(it.data for it in items)
            starts = []
            p = 0
            for it in items:
                starts.append(p)
                p += len(it.data)
            ccl, chunks = self.pick_chunking(r, data, starts)
            pace = r.choice([0, 0, 1, 3])
            tap = self.tap_dispatch(t)
            await self.feed_transport_paced(t, chunks, case, "server context", pace)
            await asyncio.sleep(0.001)
            rep.monitor("e2e_server")
            if nempty:
                rep.monitor("empty_ignored")
            if nping:
                rep.monitor("ping_pong")
            outcome = "ok"

            def wit(**kw):
                w = {"items": [it.brief() for it in items], "chunking": ccl, "chunk_sizes": [len(c) for c in chunks][:40], "loop_iterations_between_chunks": pace, "written_after_own_csm": bytes(t.out[own:])[:200].hex(), "writes_after_close": [x[:40].hex() for x in t.late[:4]], "closing": t.closing}
                w.update(kw)
                return w

            try:
                frames, rest = rt.decode_stream(bytes(t.out[own:]))
            except rt.Malformed as e:
                rep.violation("outgoing/e2e-bytes-not-frames", "bytes written by the server context are not well-formed RFC 8323 frames (%s)" % e.kind, wit(), case)
                return
            got = Counter((f.code, f.token, f.payload) for f in frames)
            missing = want - got
            extra = got - want
            aborted = any(f.code == rt.ABORT for f in frames)
            if rest:
                rep.violation("outgoing/e2e-bytes-not-frames", "a partial frame was written by the server context", wit(), case)
                outcome = "violation"
            if tail is not None:
                rep.monitor("e2e_server_connection_end")
                if tail_kind == "bad":
                    rep.monitor("abort_and_close")
                    if tail.cls == "marker-without-payload":
                        rep.monitor("marker_without_payload_abort")
                    if not aborted and not t.closing:
                        rep.violation("abort/%s/no-abort-no-close" % tail.cls, "neither Abort sent nor connection closed by the server context after a frame of class %s" % tail.cls, wit(), case)
                        outcome = "violation"
                    elif not aborted:
                        rep.violation("abort/%s/closed-without-abort" % tail.cls, "connection closed by the server context but no Abort (7.05) written before the close for class %s" % tail.cls, wit(), case)
                        outcome = "violation"
                    elif not t.closing:
                        rep.violation("abort/%s/abort-without-close" % tail.cls, "Abort written by the server context but transport not closed for class %s" % tail.cls, wit(), case)
                        outcome = "violation"
                elif aborted or t.closing:
                    rep.count("e2e_server_%s_outcome_%s" % (tail_kind, "abort" if aborted else "closed"))
                else:
                    rep.count("e2e_server_%s_outcome_tolerated" % tail_kind)
                # responses written after close() never reach the wire but show what was processed
                after_close = []
                for x in t.late:
                    try:
                        after_close += rt.decode_stream(x)[0]
                    except rt.Malformed:
                        pass
                for c, tk, p_ in list(extra) + [(f.code, f.token, f.payload) for f in after_close]:
                    if tk == bad_token and tail_kind == "bad" and rt.is_response(c):
                        rep.violation("abort/%s/bad-frame-answered" % tail.cls, "a frame that must be answered by Abort was processed as a request and answered %s" % rt.code_str(c), wit(response=(rt.code_str(c), tk.hex(), p_[:20].hex())), case)
                        outcome = "violation"
                dispatched_late = self.judge_tap(tap, t, cause, wit, case)
                if dispatched_late:
                    outcome = "violation"
                if late_tokens and t.closing:
                    rep.monitor("late_request_after_close")
                    if late_hits and dispatched_late & set(late_tokens):
                        rep.violation("dispatch-after-close/e2e-request-rendered/" + cause, "a request that followed the connection-ending frame was rendered by the site (received only because it shared a chunk with that frame)", wit(renderings=len(late_hits)), case)
                        outcome = "violation"
                known = {bad_token} | set(late_tokens)
                for c, tk, p_ in extra:
                    if c in (rt.ABORT, rt.PONG) or tk in known:
                        continue
                    rep.violation("e2e-server/unexpected-frame", "the server context wrote a frame nothing asked for", wit(frame=(rt.code_str(c), tk.hex(), p_[:20].hex())), case)
                    outcome = "violation"
            elif self.judge_tap(tap, t, None, wit, case):
                outcome = "violation"
            elif t.closing or aborted:
                key = "sig-elective-option/aborted" + ("/non-utf8-value" if items[0].elective == "non-utf8" else "") if items[0].elective else "wellformed-stream/aborted"
                rep.violation(key, "a well-formed stream made the server context abort/close", wit(), case)
                outcome = "violation"
            else:
                for code, tok, pl in missing:
                    if code == rt.PONG:
                        k2 = "ping/pong-token-differs" if any(c == rt.PONG for c, _, _ in extra) else "ping/no-pong"
                        rep.violation(k2, "a Ping was not answered by a Pong carrying its token", wit(token=tok.hex()), case)
                    else:
                        rep.violation("e2e-server/response-missing-or-differs", "a request received over TCP was not answered with the expected response", wit(token=tok.hex(), extra=[(c, tk.hex(), len(p_)) for c, tk, p_ in extra][:4]), case)
                    outcome = "violation"
                spurious = [(c, tk, p_) for (c, tk, p_) in extra if not any(c == mc and c != rt.PONG for mc, _, _ in missing)]
                for c, tk, p_ in spurious:
                    if c == rt.PONG:
                        continue
                    if nempty and rt.is_response(c) and tk == b"":
                        rep.violation("empty/answered", "an empty message (code 0.00) was answered with a %s response instead of being ignored" % rt.code_str(c), wit(response=(rt.code_str(c), tk.hex(), p_[:20].hex())), case)
                    else:
                        rep.violation("e2e-server/unexpected-frame", "the server context wrote a frame nothing asked for", wit(frame=(rt.code_str(c), tk.hex(), p_[:20].hex())), case)
                    outcome = "violation"
            rep.case(("e2es", tuple(item_sig(it) for it in items), ccl, min(pace, 1), outcome), nontrivial=True)
            if i < 2:
                rep.sample({"section": "e2e-server", "items": [it.brief() for it in items], "chunking": ccl, "loop_iterations_between_chunks": pace, "written": [rt.describe(f) for f in frames[:6]]})
        finally:
            await self.shutdown_ctx(ctx)


    async def shutdown_ctx(self, ctx):
        try:
            await ctx.shutdown()
        except Exception as e:  # shutdown behaviour is C18's subject; only counted here
            self.rep.count("context_shutdown_raised_" + type(e).__name__)

    def e2e_one(self, kind, i):
        coro = self.e2e_client_case(i) if kind == "e2ec" else self.e2e_server_case(i)
        before = len(self.env.loop.exceptions)
        try:
            self.env.loop.run_until_complete(coro)
        except (self.env.vloop.Hang, self.env.vloop.HorizonExceeded) as e:
            self.rep.inconc("e2e scenario %s: loop watchdog %s" % (kind, type(e).__name__))
        except Exception as e:
            self.rep.inconc("e2e scenario %s: harness exception %s" % (kind, self.rep.exception_witness(e)[-1200:]))
        self.env.spin()
        if len(self.env.loop.exceptions) > before:
            self.rep.count("loop_exception_handler_calls", len(self.env.loop.exceptions) - before)
            for x in self.env.loop.exceptions[before:]:
                self.rep.seen("loop_exception_types", str(x.get("exc_type")))

    def e2e(self):
        n = 150 if self.quick else 10000
        for j in range(n):
            i = self.shard["index"] + j * self.shard["of"]
            self.e2e_one("e2ec", i)
            self.e2e_one("e2es", i)

    # -- behaviours the statement leaves open: recorded in the evidence, never judged ----------------
    def unjudged(self):
        rt = self.rt
        probes = {
            "unknown-signalling-code-7.06": ["00e1", "00e6", "2101a2b161"],
            "reserved-code-class-1.00": ["00e1", "0020"],
            "reserved-code-class-6.00": ["00e1", "00c0"],
            "header-announcing-4GiB-frame": ["00e1", "f0ffffffff"],
            "non-utf8-in-elective-string-option-of-request": ["00e1", "200181ff"],
        }
        for name, hexes in probes.items():
            for role in ("server", "client"):
                rig = Rig(self.env, role)
                rig.feed([b"".join(bytes.fromhex(h) for h in hexes)])
                frames, _ = rig.written_frames()
                out = "escape" if rig.escape is not None else ("abort" if any(f.code == rt.ABORT for f in frames) else ("closed" if rig.t.closing else "tolerated"))
                self.rep.count("unjudged/%s/%s/%s-dispatched-%d" % (name, role, out, len(rig.tm.events)))

    # -- replay ---------------------------------------------------------------------------------
    def replay(self, case):
        if isinstance(case[-1], dict):  # bare-connection cases carry whether their transport's peer read slowly
            FakeTransport.force_stall = case[-1].get("stalls")
            case = case[:-1]
        k = case[0]
        if k == "short":
            self.short_one(case[1], case[2], only_mask=case[3])
        elif k == "seq":
            self.seq_one(case[1], case[2], only_ci=case[3] if len(case) > 3 else None)
        elif k == "len":
            self.len_one(case[1], case[2], case[3], case[4], case[5], only_ci=case[6] if len(case) > 6 else None)
        elif k == "badpos":
            self.badpos_one(case[1], case[2], case[3], case[4], only_ci=case[5] if len(case) > 5 else None)
        elif k == "sigopt":
            self.sigopt_one(case[1], case[2], case[3], case[4], early=bool(case[5]), double=bool(case[6]), only_ci=case[7] if len(case) > 7 else None)
        elif k == "oversize":
            self.oversize_one(case[1], case[2], case[3], only_ci=case[4] if len(case) > 4 else None)
        elif k == "afterstop":
            self.afterstop_one(case[1], case[2], case[3], case[4], only_ci=case[5] if len(case) > 5 else None)
        elif k == "outgrid":
            self.outgrid_one(*case[1:])
        elif k == "out":
            self.outrand_one(case[1], case[2])
        elif k == "out-noresponse":
            self.out_noresponse(case[1])
        elif k in ("e2ec", "e2es"):
            self.e2e_one(k, case[1])
        elif k == "owncsm":
            Rig(self.env, case[1])
        else:
            self.rep.inconc("unknown replay case %r" % (case,))


def run_shard(shard, rep, only=None):
    import warnings

    warnings.simplefilter("ignore", DeprecationWarning)
    # a request dispatched right before the frame that ends the connection: its rendering task is cancelled before its first step
    warnings.filterwarnings("ignore", message="coroutine .* was never awaited", category=RuntimeWarning)
    env = Env(rep)
    try:
        s = Sections(env, shard, only)
        if only is not None:
            s.replay(only)
            return
        if shard["index"] == 0:
            s.unjudged()
        s.short()  # first: its witnesses are the smallest
        s.sigopt()
        s.lengths()
        s.badpos()
        s.afterstop()
        s.oversize()
        s.outgoing()
        s.seq()
        s.e2e()
    finally:
        env.close()
