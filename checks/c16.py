"""C16 — CoAP URIs <-> Uri-* options: RFC 7252 6.4 decomposition, 6.5 composition, rejection
classes, host:port strings.

Oracle: harness.refuri (own RFC 3986 parser, percent-codec, IPv6 text parser, 6.4 / 6.5).

Case classes (a replay case is [class, index]; every case has its own PRNG derived from
(shard seed, class, index), so a single case can be regenerated without running the rest):
  uri   generated valid CoAP URI            -> oracles (a) decomposition, (b) recomposition
  opt   generated option set (+ a twin)     -> oracle (c) options -> URI -> options, distinctness
  bad   valid URI damaged into one of the stated rejection classes -> oracle (d)
  arb   arbitrary strings / token soup / mutated URIs             -> oracle (d) totality
  hp    host, port pairs                    -> oracle (e)
  junk  authority with arbitrary text around a bracketed literal  -> oracle (d) + (e) on the host:port string
  ws    valid URI with raw TAB / CR / LF / other C0 controls / SPACE / DEL inserted anywhere  -> oracle (d)
  zone  IPv6 literals with zone identifiers: one literal in several RFC 6874 spellings of its ZoneID (escaped unreserved
        characters, either hex case, names that begin with "25", names that need escapes) as the host of a URI -> (a), (b);
        as the destination (RFC 4007 form, what transports' addresses carry) of an option set, alone or with Uri-Port /
        Uri-Host -> (c); as a Uri-Host option value that is an IP literal (RFC 7252 6.5 step 3) -> composed URI valid, names
        that literal, accepted again with that destination; with a bare "%zone" in URI text -> (d)
  fixed hand-written witnesses (RFC examples, repository test URIs, one per known mechanism)

Input groups with mechanism key families of their own (each has a g* monitor counter):
  compose/bracketed-non-literal-host/...   Uri-Host values (host kind "name-soup", option sets flagged "host-soup") over an
      alphabet with brackets and the other gen-delims at any position: a value that begins with "[" and ends with "]"
      without being an IP literal has to be composed percent-encoded like any other reg-name data
  decompose/pct-encoded-dot-segment/...    dot segments with any subset of their dots written %2e / %2E, at any place of the path:
      they are dot segments (RFC 3986 2.3, 6.2.2.2, 6.2.2.3), not Uri-Path values "." / ".." and not named segments
  accept/junk-around-ip-literal/...        "[::1]junk:5684", "junk[::1]", "[::1]]": not host[:port] (RFC 3986 3.2.2); accepted
      with the extra text dropped (uri/...) or split by hostportsplit into something that joins to another string (hostportsplit/...)
  accept/whitespace-or-control-dropped/... text with raw controls / spaces (not a URI) accepted and decomposed as if they were not there
  decompose/zone-id/..., compose/zone-id/...   the two text forms of a zone identifier (harness/refuri.py, "Zone identifiers"): "%25" ZoneID,
      percent-decoded, in URI text (RFC 6874); "%" and the verbatim name in the host[:port] string of a destination (RFC 4007
      11.2; util.hostportsplit's documented '[::1%eth0]:56830' -> '::1%eth0', the hostinfo of the transports' addresses).
      A remote's hostinfo is read in the second form, wherever it came from: "coap://[fe80::1%25lo]/" has to end up with the
      destination fe80::1%lo (not zone "25lo"), every spelling of one ZoneID with the same destination, and a destination
      [fe80::1%lo] has to be composed as [fe80::1%25lo]
"""

import random
import traceback

ID = "C16"
LEVEL = "exploration"
TECHNIQUE = "differential runtime monitoring: the real Message.set_request_uri / get_request_uri / UndecidedRemote / hostportsplit / hostportjoin driven with generated URIs, option sets, damaged URIs, arbitrary strings, authorities with text around bracketed literals, URIs with raw control / space characters inserted and IPv6 literals with zone identifiers in all their RFC 6874 spellings (as URI host, as destination of an option set, as Uri-Host value), judged by an independent RFC 3986 + RFC 6874 + RFC 7252 section 6.4/6.5 reference (harness/refuri.py)"
LEVEL_TEXT = "Held on every generated case: ~3.9e5 (quick) / ~1.6e7 (thorough) URIs, option sets, damaged URIs, arbitrary strings and host/port pairs over 6 schemes in mixed case, names / escaped names / escaped names whose decoded value has brackets and other gen-delims at any position incl. first and last / IPv4 / IPv4 look-alikes / IPv6 in all text forms / zone ids / IPvFuture, all port classes, path and query segments over the whole Unicode range incl. reserved characters and empty segments, dot segments with any subset of their dots percent-encoded (either hex case) as first / middle / last segment, authorities with arbitrary text before / behind a bracketed literal (also through hostportsplit), raw TAB / CR / LF / other C0 controls / SPACE / DEL at arbitrary positions of a URI, zone identifiers (interface-like names, indices, names beginning with '25', names that need escapes) in several ZoneID spellings each (escaped unreserved characters, either hex case) as URI host / destination of an option set / IP-literal Uri-Host value; says nothing about inputs outside the generators' classes."
LEVEL_NOTE = "Trusted: harness/refuri.py (self-tested each run on the RFC 7252 6.3 / Appendix B and RFC 3986 examples). Judged leniently on purpose: order of lower-casing vs percent-decoding of the host, where the port is stored, explicit default ports, 'coap://h/?' ([] or ['']), IPv4 text with leading zeros, text with raw non-ASCII characters (IRI), incomplete % sequences, ports > 65535; a URI with percent-encoded dot segments may also be refused with a URL error; text with raw controls / spaces (not a URI: rejection is what is demanded) may be accepted if every such character is kept as data exactly as its percent-encoding would be -- only its silent removal is reported; an escaped reg-name whose decoded value is a complete IP literal ('%5B%3A%3A1%5D') or IPv4 address is not judged, nor is a Uri-Host option holding such a value (RFC 7252 6.5 step 3 composes it as that literal); a string with text around brackets that hostportsplit splits so that hostportjoin restores it is tolerated; a zone identifier whose decoded name has other than unreserved characters may be refused with a URL error (if accepted it is judged like any other); URI text with a bare '%zone' (not RFC 6874 syntax) may be accepted if the destination has exactly that zone; for a Uri-Host option holding an IP literal only the weaker demand is made that the composed URI is valid, names that literal and is accepted again with it as the destination (6.4 puts no Uri-Host back)."
RULE = (
    "cases are (a/b) generated valid URIs decomposed by Message(uri=...) and recomposed by get_request_uri(), (c) option sets built on a "
    "Message with an UndecidedRemote, composed, decomposed again and compared, plus a structurally neighbouring twin that must not compose to the "
    "same URI, (d) URIs damaged into a stated rejection class, arbitrary strings, authorities with text around a bracketed literal and URIs with raw "
    "control / space characters inserted (accepted text must account for every character: what was dropped makes a violation), (e) host/port pairs "
    "through hostportjoin/hostportsplit and the bracket-with-text strings through hostportsplit (ValueError or a split that joins back to the string). "
    "The hostinfo of a message's remote is read as host[:port] with a zone identifier in RFC 4007 form (bare '%', verbatim name), URI text in RFC 6874 form ('%25', percent-decoded ZoneID): the zone of the destination must be the zone the URI names, whatever the spelling. "
    "A URI with percent-encoded dot segments must decompose like the equivalent one with literal dots (or be refused) and never to Uri-Path values '.' / '..'. "
    "A case is non-trivial unless it is a bare scheme://name[/] URI; distinct = distinct (class, scheme, host kind, port class, number of path "
    "and query segments, character classes present in path / query / host, kind and place of dot segments / bracket text / raw controls, outcome) signatures"
)
ASSUMPTIONS = [
    "harness/refuri.py is a correct reading of RFC 3986 section 2 / 3 / 5.2.4 / 6.2.2, RFC 6874 and RFC 7252 sections 6.1-6.5 (self-tested on the RFC examples each run)",
    "'degenerate' option lists are exactly Uri-Path == [''] and Uri-Query == ['']; Uri-Path values '.' and '..' are outside the option domain (RFC 7252 5.10.1) and not generated as options",
    "Uri-Host option values in generated option sets are lower-case and non-empty; values that are a complete IP literal or IPv4 address are outside the judged domain (anything else, brackets included, is reg-name data that 6.4 can produce from a percent-encoded reg-name)",
    "a percent-encoded dot segment is equivalent to the literal one (RFC 3986 2.3: '.' is unreserved) and is removed like it (6.2.2.3)",
    "raw C0 controls, SPACE and DEL are not URI characters anywhere in a URI (RFC 3986 section 2 / Appendix A); square brackets occur only as the delimiters of an IP literal that is the whole host (3.2.2)",
    "a remote's hostinfo carries a zone identifier in the RFC 4007 form ('[fe80::1%eth0]:5683'), which is what util.hostportsplit documents, what the transports' endpoint addresses produce and what they pass on to getaddrinfo / if_nametoindex; URI text carries it in the RFC 6874 form",
    "URI text is str without lone surrogates; the URL errors are aiocoap.error.MalformedUrlError and IncompleteUrlError",
]
_BASE_MONITORS = {
    "a_decomposition": 2000,
    "b_recomposed_ref": 2000,
    "b_recomposed_self": 2000,
    "b_equivalent": 2000,
    "c_options_roundtrip": 1000,
    "c_distinct": 1000,
    "d_rejected": 1000,
    "d_totality": 1000,
    "e_hostport": 1000,
}
# g1: a Uri-Host that begins with "[" and ends with "]" without being an IP literal was composed and judged (from a URI / as an option set);
# g2: a URI with a percent-encoded dot segment was decomposed and judged; g3: text around a bracketed literal / raw controls or spaces
# went through set_request_uri resp. hostportsplit and the outcome was judged; g4: a URI whose host is an IPv6 literal with a zone identifier was
# decomposed and judged (all / those whose ZoneID spelling has escapes / those whose zone name begins with "25"), an option set whose destination has a
# zone identifier and no Uri-Host was composed and judged, an option set whose Uri-Host is an IP literal (with zone) was composed and judged, URI text
# with a bare "%zone" was judged
REQUIRED_MONITORS = {
    "quick": dict(_BASE_MONITORS, g1_bracketed_host_uri=700, g1_bracketed_host_options=400, g2_escaped_dot_segment=1500, g3_junk_around_literal_uri=8000, g3_junk_around_literal_hostportsplit=8000, g3_control_or_space_uri=15000, lone_surrogate_text=60, g4_zone_uri=12000, g4_zone_uri_escaped_spelling=4000, g4_zone_uri_name_begins_25=1200, g4_zone_destination_options=4000, g4_zone_literal_uri_host_options=2000, g4_bare_zone_uri=1500),
    "thorough": dict(_BASE_MONITORS, g1_bracketed_host_uri=28000, g1_bracketed_host_options=16000, g2_escaped_dot_segment=60000, g3_junk_around_literal_uri=320000, g3_junk_around_literal_hostportsplit=320000, g3_control_or_space_uri=600000, lone_surrogate_text=2400, g4_zone_uri=480000, g4_zone_uri_escaped_spelling=160000, g4_zone_uri_name_begins_25=48000, g4_zone_destination_options=160000, g4_zone_literal_uri_host_options=80000, g4_bare_zone_uri=60000),
}
EXHAUSTIVE = {"fixed_witnesses": "every entry of FIXED (RFC 7252 6.3 / Appendix B examples, the repository's test URIs, one witness per known mechanism) in every run"}

# "coap://h/a#" (fragment delimiter, empty fragment) and "coap://@h/" (userinfo delimiter, empty userinfo) do have a
# fragment / userinfo component in RFC 3986 terms (a defined-but-empty component is not an absent one, section 5.2.2 /
# 6.2.3), so the strict reading of "fragment" / "user info" in the statement demands rejection. Setting this to False
# demotes both to observed statistics.
STRICT_EMPTY_COMPONENTS = True

SCHEMES = ["coap", "coaps", "coap+tcp", "coaps+tcp", "coap+ws", "coaps+ws"]
CLASSES = {"uri": 0, "opt": 1, "bad": 2, "arb": 3, "hp": 4, "fixed": 5, "junk": 6, "ws": 7, "zone": 8}
PER_SHARD = {
    "quick": {"uri": 7000, "opt": 3500, "bad": 2500, "arb": 4000, "hp": 2000, "junk": 1500, "ws": 2500, "zone": 1200},
    "thorough": {"uri": 280000, "opt": 140000, "bad": 100000, "arb": 160000, "hp": 80000, "junk": 60000, "ws": 100000, "zone": 48000},
}


def plan(tier, seed):
    n = 16
    return [{"name": "c16-%d" % i, "seed": seed * 1000 + i, "index": i, "of": n, "tier": tier, "n": PER_SHARD[tier]} for i in range(n)]


def case_rng(seed, cls, i):
    return random.Random((seed * 16 + CLASSES[cls]) * 10**9 + i)


# =============================================================================== generators

UNRES = "abcxyzABCXYZ0189-._~"
SUBD = "!$&'()*+,;="
GEND = "/?#[]:@"
OTHER_ASCII = ' "<>\\^`{|}\x00\x01\t\n\r\x1f\x7f'
NONASCII = ["ä", "Ä", "ß", "é", "€", "中", "́", "‍", "�", "﻿", "￿", " ", "\u0080", " ", "İ", "\U0001f600", "\U00010000", "\U0010ffff", "／", "："]


def rand_codepoint(r):
    while True:
        c = r.choice([r.randrange(0x80, 0x800), r.randrange(0x800, 0x10000), r.randrange(0x10000, 0x110000), r.randrange(0, 0x80)])
        if not 0xD800 <= c <= 0xDFFF:
            return chr(c)


def gen_char(r):
    k = r.random()
    if k < 0.40:
        return r.choice(UNRES)
    if k < 0.52:
        return r.choice(SUBD)
    if k < 0.70:
        return r.choice(GEND)
    if k < 0.77:
        return "%"
    if k < 0.83:
        return r.choice(OTHER_ASCII)
    if k < 0.94:
        return r.choice(NONASCII)
    return rand_codepoint(r)


def gen_segment(r):
    n = r.choice([0, 1, 1, 2, 2, 3, 3, 5, 8, 20])
    s = "".join(gen_char(r) for _ in range(n))
    if r.random() < 0.08:
        # text that *looks* like an escape or a delimiter soup
        s = r.choice(["%2F", "%2f", "%25", "%", "%%", "a%2", "%zz", "a/b", "a&b", "a=b", "a?b", "a#b", "k=v&w", "..a", ".a.", "...", "a..", "+", " ", "%C3%A4", "?", "/", "&", "=", "#", "//", "??", "&&", ":", "@", "a:b@c"])
    if s in (".", ".."):
        s = s + "a"
    return s


def hexbyte(r, b, style):
    if style == 0:
        return "%%%02X" % b
    if style == 1:
        return "%%%02x" % b
    h = "%02X" % b
    return "%" + (h[0].lower() if r.random() < 0.5 else h[0]) + (h[1].lower() if r.random() < 0.5 else h[1])


def enc(r, s, literal_ok, raw_nonascii=False, p_literal=0.85):
    out = []
    style = r.randrange(3)
    for c in s:
        if c in literal_ok and r.random() < p_literal:
            out.append(c)
        elif raw_nonascii and ord(c) >= 0xA0 and r.random() < 0.7:
            out.append(c)
        else:
            out.extend(hexbyte(r, b, style) for b in c.encode("utf8"))
    return "".join(out)


def mixcase(r, s, p=0.4):
    return "".join((c.upper() if c.islower() else c.lower()) if c.isascii() and c.isalpha() and r.random() < p else c for c in s)


LABELCH = "abcdexyz0123456789-_~"
HOST_RESERVED_ESCAPES = ["/", "?", "#", "@", ":", "[", "]", "%", " ", "\x00", "\x7f", '"', "\\", "<", "^", "|"]
LOOKALIKES = ["256.1.1.1", "1.2.3", "1.2.3.4.5", "1.2.3.4.", "999", "1.2.3.4a", "0x7f.0.0.1", "1.2.3.1000", "01.2.3.4", "1.02.3.4", "1.2.3.004", "1..2.3", "...", "1.2.3.", ".1.2.3", "1.2..3"]


def gen_name_value(r):
    labels = ["".join(r.choice(LABELCH) for _ in range(r.choice([1, 2, 3, 6, 12]))) for _ in range(r.choice([1, 1, 2, 3]))]
    if r.random() < 0.15:
        k = r.randrange(len(labels))
        labels[k] += r.choice(SUBD)
    name = ".".join(labels) + ("." if r.random() < 0.05 else "")
    if all(c in "0123456789." for c in name):
        name = "h" + name
    return name


def gen_ipv4(r):
    return ".".join(str(r.choice([0, 1, 9, 10, 99, 100, 127, 199, 200, 249, 250, 255, r.randrange(256)])) for _ in range(4))


def gen_ipv6_text(r):
    """-> text of a valid RFC 3986 IPv6address in one of its many spellings."""
    style = r.random()
    if style < 0.25:
        g = [0] * 8
        for _ in range(r.choice([0, 1, 2, 3])):
            g[r.randrange(8)] = r.choice([1, 0xFFFF, 0xDB8, 0x2001, 0xFE80, r.randrange(65536)])
    else:
        g = [r.choice([0, 0, 0, 1, 0xA, 0xFFFF, 0xDB8, 0x2001, 0xFE80, r.randrange(65536)]) for _ in range(8)]
    if r.random() < 0.08:
        g = r.choice([[0] * 8, [0] * 7 + [1], [1] + [0] * 7, [0] * 5 + [0xFFFF, 0x0102, 0x0304], [0xFFFF] * 8])

    def h16(x):
        s = "%x" % x
        if r.random() < 0.25:
            s = s.rjust(r.randrange(len(s), 5), "0")
        return mixcase(r, s, 0.3)

    v4tail = r.random() < 0.2
    n = 6 if v4tail else 8
    parts = [h16(x) for x in g[:n]]
    # optionally compress one run of zero groups
    runs = []
    i = 0
    while i < n:
        if g[i] == 0:
            j = i
            while j < n and g[j] == 0:
                j += 1
            runs.append((i, j))
            i = j
        else:
            i += 1
    if runs and r.random() < 0.75:
        a, b = r.choice(runs)
        if b - a > 1 and r.random() < 0.3:  # compress only part of the run
            a2 = r.randrange(a, b)
            b2 = r.randrange(a2 + 1, b + 1)
            a, b = a2, b2
        text = ":".join(parts[:a]) + "::" + ":".join(parts[b:])
        if v4tail:
            text += ("" if text.endswith("::") else ":")
    else:
        text = ":".join(parts) + (":" if v4tail else "")
    if v4tail:
        text += "%d.%d.%d.%d" % (g[6] >> 8, g[6] & 255, g[7] >> 8, g[7] & 255)
    return text


def gen_zone(r):
    return "".join(r.choice("ethwlan0123456789ETH-._~") for _ in range(r.choice([1, 2, 4, 6])))


# Decoded host values over an alphabet in which the gen-delims -- brackets above all -- occur at any position including the
# first and the last: everything a reg-name can carry percent-encoded and therefore everything a Uri-Host option can hold.
HOST_SOUP = ["[", "]", "[", "]", "/", "?", "#", "@", ":", "::", "::1", "::2", "1", "x", "a", "b=", "fe80", ".", "-", "%", "25", "eth0", "v1.", "=", "&", "ä"]


def gen_host_soup(r):
    """-> non-empty lower-case decoded host value; brackets anywhere, with a bias towards the first and last position.
    (Values that are complete IP literals or IPv4 addresses do occur; the oracles set them aside as ambiguous.)"""
    while True:
        toks = []
        for _ in range(r.choice([0, 1, 1, 2, 2, 3, 4, 6])):
            k = r.random()
            if k < 0.80:
                toks.append(r.choice(HOST_SOUP))
            elif k < 0.90:
                toks.append(gen_ipv6_text(r).lower())
            elif k < 0.95:
                toks.append("[" + gen_ipv6_text(r).lower() + "]")
            else:
                toks.append(gen_name_value(r))
        v = "".join(toks)
        if r.random() < 0.45:
            v = "[" + v
        if r.random() < 0.45:
            v = v + "]"
        if v:
            return v


HOST_KINDS = [("name", 30), ("name-pct", 16), ("name-reserved", 4), ("name-soup", 7), ("ipv4", 12), ("lookalike", 5), ("ipv6", 16), ("ipv6-zone", 7), ("ipvfuture", 1), ("iri-host", 2)]
HK_NAMES = [k for k, w in HOST_KINDS for _ in range(w)]


def gen_host(r, kind):
    if kind == "name":
        return mixcase(r, gen_name_value(r)) if r.random() < 0.4 else gen_name_value(r)
    if kind == "name-pct":
        v = gen_name_value(r)
        if r.random() < 0.5:
            k = r.randrange(len(v) + 1)
            v = v[:k] + r.choice(["ä", "Ä", "ß", "中", "\U0001f600", "bücher"]) + v[k:]
        v = mixcase(r, v)
        return enc(r, v, LABELCH + LABELCH.upper() + SUBD + ".", p_literal=0.6)
    if kind == "name-reserved":
        v = gen_name_value(r)
        k = r.randrange(len(v) + 1)
        c = r.choice(HOST_RESERVED_ESCAPES)
        return v[:k] + hexbyte(r, ord(c), r.randrange(3)) + v[k:]
    if kind == "name-soup":
        from harness import refuri as ref

        v = gen_host_soup(r)
        if r.random() < 0.25:
            v = mixcase(r, v)
        return enc(r, v, ref.REGNAME, p_literal=0.85)
    if kind == "ipv4":
        return gen_ipv4(r)
    if kind == "lookalike":
        return r.choice(LOOKALIKES)
    if kind == "ipv6":
        return "[" + gen_ipv6_text(r) + "]"
    if kind == "ipv6-zone":
        return "[" + gen_ipv6_text(r) + "%25" + gen_zone(r) + "]"
    if kind == "ipvfuture":
        return "[" + r.choice(["v1.fe", "vF.a:b", "V7.x", "v1f.-._~!$&'()*+,;=:"]) + "]"
    if kind == "iri-host":
        return r.choice(["bücher.example", "Ä", "中文.example", "hé", "\U0001f600.x", "áb"])
    raise AssertionError(kind)


PORT_KINDS = [("none", 35), ("random", 22), ("default", 8), ("empty", 5), ("zero", 4), ("one", 3), ("max", 5), ("leading-zero", 5)]
PK_NAMES = [k for k, w in PORT_KINDS for _ in range(w)]


def gen_port(r, kind, scheme):
    from harness import refuri as ref

    if kind == "none":
        return ""
    if kind == "random":
        return ":%d" % r.randrange(1, 65536)
    if kind == "default":
        return ":%d" % ref.DEFAULT_PORT[scheme]
    if kind == "empty":
        return ":"
    if kind == "zero":
        return ":0"
    if kind == "one":
        return ":1"
    if kind == "max":
        return ":65535"
    return ":" + "0" * r.randrange(1, 4) + str(r.choice([ref.DEFAULT_PORT[scheme], 80, 1, 0, 65535, r.randrange(65536)]))


def gen_dot_segment(r, p_escape):
    """"." or ".." with every dot independently written ".", "%2e" or "%2E"."""
    return "".join(r.choice(["%2e", "%2E"]) if r.random() < p_escape else "." for _ in range(r.choice([1, 2, 2, 1])))


def gen_uri(r, hk=None, plain=False):
    """-> (text, meta). meta carries the structural description used for signatures."""
    from harness import refuri as ref

    scheme = r.choice(SCHEMES)
    stext = mixcase(r, scheme, 0.5) if r.random() < 0.3 else scheme
    hk = hk or r.choice(HK_NAMES)
    host = gen_host(r, hk)
    pk = r.choice(PK_NAMES)
    port = gen_port(r, pk, scheme)
    iri = (not plain) and r.random() < 0.05
    qsafe = ref.QUERYCH.replace("&", "")
    pstyle = r.random()
    if pstyle < 0.08:
        segs, path = [], ""
    elif pstyle < 0.16:
        segs, path = [], "/"
    else:
        segs = [gen_segment(r) for _ in range(r.choice([1, 1, 2, 2, 3, 5]))]
        path = "".join("/" + enc(r, s, ref.PCHAR, iri) for s in segs)
    dots = edots = False
    if not plain and r.random() < 0.08:
        # dot segments as first / middle / last segment, alone or behind other segments; any subset of their dots escaped
        dots = True
        pieces = path.split("/")[1:] if path else []
        p_escape = r.choice([0.0, 0.0, 0.5, 0.5, 1.0])
        for _ in range(r.choice([1, 1, 2, 3])):
            d = gen_dot_segment(r, p_escape)
            edots = edots or "%" in d
            pieces.insert(r.randrange(len(pieces) + 1), d)
        path = "".join("/" + p for p in pieces)
    qstyle = r.random()
    if qstyle < 0.45:
        args, query = [], ""
    elif qstyle < 0.50:
        args, query = [""], "?"
    else:
        args = [gen_segment(r) for _ in range(r.choice([1, 1, 2, 3]))]
        query = "?" + "&".join(enc(r, a, qsafe, iri) for a in args)
    text = stext + "://" + host + port + path + query
    meta = {"scheme": scheme, "hk": hk, "pk": pk, "npath": len(segs), "nquery": len(args), "iri": any(ord(c) >= 0x80 for c in text), "dots": dots + edots, "pc": textsig("".join(segs)) + ("e" if "" in segs else ""), "qc": textsig("".join(args)) + ("e" if "" in args else ""), "mixed_scheme": stext != scheme}
    return text, meta


def textsig(s):
    cl = set()
    for c in s:
        o = ord(c)
        if c in UNRES or c.isalnum() and o < 128:
            cl.add("u")
        elif c in SUBD:
            cl.add("s")
        elif c in GEND:
            cl.add("g")
        elif c == "%":
            cl.add("%")
        elif o < 0x80:
            cl.add("c")
        elif o < 0x10000:
            cl.add("n")
        else:
            cl.add("a")
    return "".join(sorted(cl))


# -- option sets ------------------------------------------------------------------------


def gen_optset(r):
    """-> dict(scheme, dest=(kind, value, zone, port|None), uri_host, uri_port, path, query, flags)"""
    scheme = r.choice(SCHEMES)
    flags = set()
    dk = r.choice(["ipv4", "ipv4", "ipv6", "ipv6", "ipv6-zone", "name"])
    from harness import refuri as ref

    if dk == "ipv4":
        dest = ("ipv4", ref.parse_ipv4(gen_ipv4_strict(r)), None)
    elif dk == "name":
        dest = ("name", gen_name_value(r), None)
    else:
        v = ref.parse_ipv6(gen_ipv6_text(r))
        dest = ("ipv6", v, gen_zone(r) if dk == "ipv6-zone" else None)
    dport = r.choice([None, None, 5683, 5684, 1, 65535, r.randrange(1, 65536)])
    k = r.random()
    if dk == "name":
        uri_host = None if k < 0.5 else gen_opt_host(r, flags)
    else:
        uri_host = None if k < 0.35 else gen_opt_host(r, flags)
    k = r.random()
    uri_port = None if k < 0.5 else r.choice([1, 80, 5683, 5684, 65535, r.randrange(1, 65536)])
    if k > 0.97:
        uri_port = 0
        flags.add("port0")
    path = [gen_segment(r) for _ in range(r.choice([0, 0, 1, 1, 2, 2, 3, 5]))]
    query = [gen_segment(r) for _ in range(r.choice([0, 0, 0, 1, 1, 2, 3]))]
    if path == [""]:
        path = r.choice([[], ["", ""], ["a", ""]])
    if query == [""]:
        query = r.choice([[], ["", ""], ["", "a"]])
    return {"scheme": scheme, "dest": dest, "dport": dport, "uri_host": uri_host, "uri_port": uri_port, "path": path, "query": query, "flags": sorted(flags)}


def gen_ipv4_strict(r):
    return gen_ipv4(r)


def gen_opt_host(r, flags):
    v = gen_name_value(r)
    k = r.random()
    if k < 0.2:
        j = r.randrange(len(v) + 1)
        v = v[:j] + r.choice(["ä", "ß", "中", "\U0001f600", "Ä"]) + v[j:]
        flags.add("host-nonascii")
    elif k < 0.26:
        j = r.randrange(len(v) + 1)
        v = v[:j] + r.choice(HOST_RESERVED_ESCAPES) + v[j:]
        flags.add("host-reserved")
    elif k < 0.40:
        from harness import refuri as ref

        v = gen_host_soup(r)
        flags.add("host-soup")
        if ref.bracketed_non_literal(v):
            flags.add("host-bracketed")
    return v


def optset_expected(o):
    """The resource an option set denotes (RFC 7252 6.5 steps 1-5): comparable with refuri.resource_key."""
    from harness import refuri as ref

    if o["uri_host"] is not None:
        hk = ("name", o["uri_host"], None)
    else:
        hk = tuple(o["dest"])
    port = o["uri_port"] if o["uri_port"] is not None else (o["dport"] if o["dport"] is not None else ref.DEFAULT_PORT[o["scheme"]])
    return (o["scheme"],) + hk + (port, tuple(o["path"]), tuple(o["query"]))


def optset_hostinfo(o):
    from harness import refuri as ref

    kind, value, zone = o["dest"]
    # (a destination's host[:port] string has the zone identifier in the RFC 4007 form: "[fe80::1%eth0]:5683")
    h = value if kind == "name" else (ref.scoped_host_text(value, zone) if kind == "ipv6" else ref.host_text(kind, value, zone))
    return h if o["dport"] is None else "%s:%d" % (h, o["dport"])


def in_domain(o):
    if o["path"] == [""] or o["query"] == [""]:
        return False
    if any(s in (".", "..") for s in o["path"]):
        return False
    if o["uri_host"] == "":
        return False
    if o["uri_host"] is not None:
        from harness import refuri as ref

        # a value that is a complete IP literal / IPv4 address is what RFC 7252 6.5 step 3 composes as that literal: not a name
        if ref.is_ip_literal_text(o["uri_host"]) or ref.lax_ipv4(o["uri_host"]):
            return False
    return True


def gen_twin(r, o):
    """A structurally neighbouring, different option set (the typical ways two resources collapse)."""
    t = {k: (list(v) if isinstance(v, list) else v) for k, v in o.items()}
    moves = []
    path, query = o["path"], o["query"]
    for i, s in enumerate(path):
        if "/" in s:
            moves.append(("split-path", i))
        if "?" in s:
            moves.append(("path-to-query", i))
        if "#" in s:
            moves.append(("cut-fragment", i))
        if s and s != "%":
            moves.append(("literal-escape-path", i))
        if s == "":
            moves.append(("drop-empty-path", i))
    if len(path) >= 2:
        moves.append(("merge-path", r.randrange(len(path) - 1)))
    for i, s in enumerate(query):
        if "&" in s:
            moves.append(("split-query", i))
        if s:
            moves.append(("literal-escape-query", i))
        if s == "":
            moves.append(("drop-empty-query", i))
    if len(query) >= 2:
        moves.append(("merge-query", r.randrange(len(query) - 1)))
    if path and query:
        moves.append(("query-into-path", 0))
    if o["uri_host"] and "/" in o["uri_host"]:
        moves.append(("host-to-path", 0))
    if o["uri_port"] is not None:
        moves.append(("drop-port", 0))
    moves.append(("append-empty-path", 0))
    moves.append(("append-empty-query", 0))
    mv, i = r.choice(moves)
    from harness import refuri as ref

    if mv == "split-path":
        t["path"][i : i + 1] = path[i].split("/", 1)
    elif mv == "merge-path":
        t["path"][i : i + 2] = [path[i] + "/" + path[i + 1]]
    elif mv == "path-to-query":
        a, b = path[i].split("?", 1)
        t["path"] = path[:i] + [a]
        t["query"] = [b] + ["/".join(path[i + 1 :])] * (1 if path[i + 1 :] else 0) + query
    elif mv == "cut-fragment":
        t["path"] = path[:i] + [path[i].split("#", 1)[0]]
        t["query"] = []
    elif mv == "literal-escape-path":
        t["path"][i] = ref.pct_encode(path[i], "")
    elif mv == "literal-escape-query":
        t["query"][i] = ref.pct_encode(query[i], "")
    elif mv == "drop-empty-path":
        del t["path"][i]
    elif mv == "drop-empty-query":
        del t["query"][i]
    elif mv == "split-query":
        t["query"][i : i + 1] = query[i].split("&", 1)
    elif mv == "merge-query":
        t["query"][i : i + 2] = [query[i] + "&" + query[i + 1]]
    elif mv == "query-into-path":
        t["path"][-1] = path[-1] + "?" + "&".join(query)
        t["query"] = []
    elif mv == "host-to-path":
        a, b = o["uri_host"].split("/", 1)
        t["uri_host"] = a
        t["path"] = b.split("/") + path
    elif mv == "drop-port":
        t["uri_port"] = None
    elif mv == "append-empty-path":
        t["path"] = path + [""] if path else ["", ""]
    elif mv == "append-empty-query":
        t["query"] = query + [""] if query else ["", ""]
    return mv, t


# -- damaged URIs -------------------------------------------------------------------------

BAD_CLASSES = ["no-scheme", "no-host", "fragment", "fragment-empty", "userinfo", "userinfo-empty", "port-non-numeric", "port-non-numeric", "non-utf8", "non-utf8", "port-range"]
# "port-range" (> 65535) is not among the stated rejection classes: a URL error or acceptance are both fine, anything else is not
BAD_PORTS = ["abc", "12a", "a12", "-1", "+80", "0x50", "１２", "١٢", "5683x", "56 83", "1e3", "5683.", "http"]
BAD_UTF8 = ["%FF", "%ff", "%C3%28", "%E2%82", "%ED%A0%80", "%C0%AF", "%F5%80%80%80", "%80", "%FE", "%c3", "%F0%9F%98", "%E2%28%A1"]


def gen_bad(r):
    """-> (class, text, host kind). Takes a valid URI apart and damages exactly one aspect."""
    from harness import refuri as ref

    cls = r.choice(BAD_CLASSES)
    hk = r.choice(["name", "name", "name-pct", "ipv4", "ipv6", "ipv6-zone"])
    text, meta = gen_uri(r, hk=hk, plain=True)
    scheme, authority, path, query, _ = ref.split_components(text)
    q = "" if query is None else "?" + query
    if cls == "no-scheme":
        k = r.randrange(6)
        if k == 0:
            out = "//" + authority + path + q
        elif k == 1:
            out = (path or "/") + q
        elif k == 2:
            out = ""
        elif k == 3:
            out = q or "?a"
        elif k == 4:
            h = authority.split(":")[0]
            out = (h if hk in ("name", "ipv4") and ":" not in h else "x") + path + q
        else:
            out = "." + (path or "/") + q
    elif cls == "no-host":
        k = r.randrange(6)
        if k == 0:
            out = scheme + ":" + (path or "/") + q if not (path or "/").startswith("//") else scheme + ":/x" + q
        elif k == 1:
            out = scheme + "://" + path + q
        elif k == 2:
            out = scheme + "://:%d" % r.randrange(65536) + path + q
        elif k == 3:
            out = scheme + ":" + (path[1:] if path.startswith("/") and not path.startswith("//") else "") + q
        elif k == 4:
            out = scheme + ":"
        else:
            out = scheme + "://" + q
    elif cls == "fragment":
        out = text + "#" + enc(r, gen_segment(r) or "f", ref.QUERYCH)
        if out.endswith("#"):
            out += "f"
    elif cls == "fragment-empty":
        out = text + "#"
    elif cls == "userinfo":
        ui = r.choice(["user", "user:pw", ":pw", "u%40x", "user:", "a.b-c", "%C3%A4", "u:p:q"])
        out = scheme + "://" + ui + "@" + authority + path + q
    elif cls == "userinfo-empty":
        out = scheme + "://" + r.choice(["", ":"]) + "@" + authority + path + q
    elif cls == "port-non-numeric":
        _, host, _ = ref.split_authority(authority)
        out = scheme + "://" + host + ":" + r.choice(BAD_PORTS) + path + q
    elif cls == "port-range":
        _, host, _ = ref.split_authority(authority)
        out = scheme + "://" + host + ":" + r.choice(["65536", "99999", "4294967296", "065536", "18446744073709551616", str(r.randrange(65536, 10**6))]) + path + q
    else:  # non-utf8
        seq = r.choice(BAD_UTF8)
        where = r.choice(["path", "query", "host"] if hk in ("name", "name-pct") else ["path", "query"])
        if where == "path":
            out = scheme + "://" + authority + (path if path not in ("", "/") else "/a") + seq + q
        elif where == "query":
            out = scheme + "://" + authority + path + (q or "?a") + seq
        else:
            _, host, port = ref.split_authority(authority)
            out = scheme + "://" + host + seq + ("" if port is None else ":" + port) + path + q
    return cls, out, hk


TOKENS = ["coap", "coaps", "coap+tcp", "COAP", "http", "urn", "://", ":", "//", "/", "?", "#", "@", "[", "]", "%", "%2", "%zz", "%FF", "%2F", "%25", "%2e", "%2E", "%5B", "%5D", "&", "=", "::1", "::", "v1.", "fe80::1%25eth0", ".", "..", "1", "256", "5683", "65536", "1.2.3.4", "a", "h", "example.com", "ä", " ", "\t", "\n", "\x00", "\\", ";", "+", "-", "~", "\U0001f600", "／", "℀", "︓"]


def gen_arbitrary(r):
    k = r.random()
    if k < 0.04:
        # a valid URI with one lone surrogate (as os.fsdecode gives for a non-UTF-8 byte) somewhere in it
        text, _meta = gen_uri(r)
        pos = r.randrange(len(text) + 1)
        return "surrogate", text[:pos] + chr(r.choice([0xD800, 0xDBFF, 0xDC00, 0xDCE9, 0xDCFF, 0xDFFF])) + text[pos:]
    if k < 0.07:
        # dotted-digit hosts with a label longer than any sane integer text (int() refuses beyond 4300 digits)
        digits = r.choice(["7", "0", "12", "9"]) * r.choice([4301, 4400, 5000])
        labels = [r.choice(["1", "2", "255", "a"]) for _ in range(r.choice([2, 3, 3, 3, 4]))]
        labels[r.randrange(len(labels))] = digits[: r.choice([4300, 4301, 4400])]
        return "long-digits", "coap://" + ".".join(labels) + r.choice(["", ":5683", ":"]) + r.choice(["/", "/x?y", ""])
    if k < 0.25:
        return "soup", "".join(r.choice(TOKENS) for _ in range(r.choice([1, 2, 3, 4, 6, 9])))
    if k < 0.40:
        return "soup-coap", r.choice(["coap://", "coap:", "coap:/", "coaps+ws://", "CoAP://"]) + "".join(r.choice(TOKENS) for _ in range(r.choice([0, 1, 2, 3, 5])))
    if k < 0.55:
        n = r.choice([0, 1, 2, 5, 10, 30])
        return "random", "".join(gen_char(r) for _ in range(n))
    text, meta = gen_uri(r)
    text = list(text)
    for _ in range(r.choice([1, 1, 2, 3])):
        op = r.randrange(5)
        pos = r.randrange(len(text) + 1)
        if op == 0 and text:
            del text[min(pos, len(text) - 1)]
        elif op == 1:
            text.insert(pos, r.choice(TOKENS))
        elif op == 2 and text:
            text[min(pos, len(text) - 1)] = r.choice(TOKENS + list(GEND))
        elif op == 3:
            text = text[:pos]
        elif op == 4 and len(text) > 1:
            p2 = r.randrange(len(text))
            a, b = min(pos, p2, len(text) - 1), min(max(pos, p2), len(text) - 1)
            text[a], text[b] = text[b], text[a]
    return "mutated", "".join(text)


def gen_hostport(r):
    k = r.random()
    if k < 0.3:
        kind = "name"
        h = gen_name_value(r)
        if r.random() < 0.3:
            h = mixcase(r, h)
        if r.random() < 0.15:
            h = enc(r, h + r.choice(["", "ä", "A"]), LABELCH, p_literal=0.7)
        elif r.random() < 0.1:
            h += r.choice(["ä", "中", "ß"])
    elif k < 0.5:
        kind = "ipv4"
        h = gen_ipv4(r)
    elif k < 0.75:
        kind = "ipv6"
        h = gen_ipv6_text(r)
    else:
        kind = "ipv6-zone"
        h = gen_ipv6_text(r) + r.choice(["%", "%25"]) + gen_zone(r)
    p = r.choice([None, None, 0, 1, 80, 5683, 5684, 65535, r.randrange(65536)])
    return kind, h, p


# -- text around bracketed literals; raw controls / spaces ----------------------------------------------------

JUNK_CH = LABELCH + "ABX" + "[]:@%.!$&'()*+,;=" + "ä"
JUNK_WORDS = ["]", "[", "]]", "[[", "x", "junk", ".", "a.b", "-", "1", "80", "%41", "%5D", "@", "u@", "::1", "[::2]", ":", "::", "ä", "X"]


def gen_junk_text(r):
    if r.random() < 0.4:
        return r.choice(JUNK_WORDS)
    return "".join(r.choice(JUNK_CH) for _ in range(r.choice([1, 1, 2, 3, 5])))


def gen_junk_hostport(r):
    """-> host[:port] text in which a bracketed part has arbitrary text before and / or behind it
    ("[::1]junk:5684", "junk[::1]", "[::1]]", "[fe80::1%25eth0]x:1", "a.b[v1.x]", ...)."""
    k = r.random()
    if k < 0.55:
        inner = gen_ipv6_text(r)
    elif k < 0.70:
        inner = gen_ipv6_text(r) + "%25" + gen_zone(r)
    elif k < 0.80:
        inner = gen_ipv6_text(r) + "%" + gen_zone(r)
    elif k < 0.86:
        inner = r.choice(["v1.fe", "vF.a:b", "V7.x"])
    else:
        inner = r.choice(["x", "", "1.2.3.4", "::1::", "h.example", ":"])
    where = r.choice(["after", "after", "before", "both"])
    before = gen_junk_text(r) if where in ("before", "both") else ""
    after = gen_junk_text(r) if where in ("after", "both") else ""
    port = r.choice(["", "", ":5684", ":%d" % r.randrange(65536), ":", ":0"])
    return before + "[" + inner + "]" + after + port


def gen_junk_uri(r):
    from harness import refuri as ref

    while True:
        hp = gen_junk_hostport(r)
        if any(c in hp for c in "/?#"):
            continue
        text, meta = gen_uri(r, hk="ipv4", plain=True)
        scheme, authority, path, query, _ = ref.split_components(text)
        u = scheme + "://" + hp + path + ("" if query is None else "?" + query)
        if ref.classify(u)[0] != "ok" and not ref.hostinfo_wellformed(hp.rpartition("@")[2]):
            return hp, u


WS_COMMON = ["\t", "\n", "\r", "\t", "\n", "\r", "\r\n", " ", " ", "\x00", "\x0b", "\x0c", "\x1f", "\x7f", "\x01", "\x1b"]


def gen_ws_uri(r):
    """-> (base, text): a valid CoAP URI and the same with raw TAB / CR / LF / other C0 controls / SPACE / DEL inserted at
    arbitrary positions (leading, trailing, inside the scheme, the delimiters, host, port, escapes, path, query)."""
    base, meta = gen_uri(r, hk=r.choice(["name", "name", "name-pct", "ipv4", "ipv6", "ipv6-zone"]), plain=True)
    text = base
    for _ in range(r.choice([1, 1, 1, 2, 3])):
        c = r.choice(WS_COMMON) if r.random() < 0.85 else chr(r.randrange(0x21))
        k = r.random()
        pos = 0 if k < 0.2 else (len(text) if k < 0.28 else r.randrange(len(text) + 1))
        text = text[:pos] + c + text[pos:]
    return base, text


# -- zone identifiers ---------------------------------------------------------------------------------------

ZONE_EXOTIC_OK = list("!$&'()*+,;=") + ["ä", "中", "/", ":", "@", "?", "#", "\\", "|"]  # a bracketed host[:port] string can hold them
ZONE_EXOTIC_NO = ["%", "]", "[", " ", "\x00", "\t", "\x7f"]  # ... and these it can not


def gen_zone_name(r):
    """-> (decoded zone name, class): interface-like names, indices, names that begin with "25" (the text that RFC 6874's
    delimiter "%25" leaves behind when it is mistaken for "%"), names with characters that a ZoneID can only hold escaped."""
    k = r.random()
    if k < 0.42:
        return gen_zone(r), "plain"
    if k < 0.64:
        return "25" + r.choice(["", "lo", "eth0", "0", "25", "2525", "-1", gen_zone(r)]), "begins-25"
    if k < 0.74:
        return str(r.choice([1, 2, 9, 15, 24, 26, 100, r.randrange(1, 5000)])), "index"
    z = gen_zone(r)
    j = r.randrange(len(z) + 1)
    if k < 0.90:
        return z[:j] + r.choice(ZONE_EXOTIC_OK) + z[j:], "exotic"
    return z[:j] + r.choice(ZONE_EXOTIC_NO) + z[j:], "exotic-unsplittable"


def enc_zone(r, zone, p_escape):
    """One RFC 6874 ZoneID spelling of the name: unreserved characters literal or (with p_escape) escaped, all others escaped."""
    from harness import refuri as ref

    out = []
    for c in zone:
        if c in ref.UNRESERVED and r.random() >= p_escape:
            out.append(c)
        else:
            out.extend(hexbyte(r, b, 2) for b in c.encode("utf8"))
    return "".join(out)


def gen_zone_case(r):
    """-> dict(mode=...). Modes: "uri" (one zoned literal, several ZoneID spellings, as the host of otherwise equal URIs), "dest"
    (option set whose destination has the zone), "lit" (option set whose Uri-Host is an IP literal), "bare" ("%zone" in URI text)."""
    from harness import refuri as ref

    k = r.random()
    addr = gen_ipv6_text(r)
    value = ref.parse_ipv6(addr)
    if k < 0.45 or k >= 0.88:
        text, _meta = gen_uri(r, hk="ipv4", plain=True)
        scheme, authority, path, query, _ = ref.split_components(text)
        _, _h, port = ref.split_authority(authority)
        tail = ("" if port is None else ":" + port) + path + ("" if query is None else "?" + query)
        if k >= 0.88:
            while True:
                zone = gen_zone(r)
                if not zone.startswith("25"):
                    break
            return {"mode": "bare", "uri": scheme + "://[" + addr + "%" + zone + "]" + tail, "value": value, "zone": zone}
        zone, zcls = gen_zone_name(r)
        spellings = [enc_zone(r, zone, 0.0)]
        for _ in range(r.choice([1, 2, 2])):
            spellings.append(enc_zone(r, zone, r.choice([0.3, 0.3, 1.0])))
        return {"mode": "uri", "zone": zone, "zcls": zcls, "uris": [scheme + "://[" + addr + "%25" + sp + "]" + tail for sp in spellings]}
    o = gen_optset(r)
    while True:
        zone, zcls = gen_zone_name(r)
        if ref.zone_in_hostport_string(zone):
            break
    if k < 0.70:
        o["dest"] = ("ipv6", value, zone)
        if r.random() < 0.8:
            o["uri_host"] = None
            o["flags"] = [f for f in o["flags"] if not f.startswith("host-")]
        o["flags"] = sorted(set(o["flags"]) | {"zone-" + zcls})
        return {"mode": "dest", "options": o}
    haszone = r.random() < 0.8
    o["uri_host"] = "[" + addr.lower() + ("%25" + enc_zone(r, zone, r.choice([0.0, 0.0, 0.3, 1.0])) if haszone else "") + "]"
    o["flags"] = sorted({f for f in o["flags"] if not f.startswith("host-")} | {"host-literal"} | ({"zone-" + zcls} if haszone else set()))
    return {"mode": "lit", "options": o, "value": value, "zone": zone if haszone else None}


# ---- fixed witnesses -------------------------------------------------------------------------------
FIXED = [
    # RFC 7252 6.3, Appendix B
    ("uri", "coap://example.com:5683/~sensors/temp.xml"),
    ("uri", "coap://EXAMPLE.com/%7Esensors/temp.xml"),
    ("uri", "coap://EXAMPLE.com:/%7esensors/temp.xml"),
    ("uri", "coap://[2001:db8::2:1]/"),
    ("uri", "coap://example.net/.well-known/core"),
    ("uri", "coap://xn--18j4d.example/%E3%81%93%E3%82%93%E3%81%AB%E3%81%A1%E3%81%AF"),
    ("uri", "coap://198.51.100.1:61616//%2F//?%2F%2F&?%26"),
    # tests/test_uri_handling.py
    ("uri", "coap://hostname:1234/path?query=string&argument=x"),
    ("uri", "coap+tcp://hostname/path"),
    ("uri", "coaps://hostname:1234/path"),
    ("uri", "coap://hostname:1234"),
    ("uri", "CoAp://HoStNaMe/"),
    ("uri", "coap://host/%7Esensors"),
    ("uri", "coap://host/blåbærsyltetøy"),
    ("bad", "no-scheme", "/hello"),
    ("arb", "coap://["),
    ("bad", "non-utf8", "coap://example.com/%ff"),
    ("bad", "port-non-numeric", "coap://example.com:fivesixeightthree/"),
    ("bad", "no-host", "coap:like:urn"),
    ("arb", "http://example.com/test"),
    ("arb", "urn:uuid:6e8bc430-9c3a-11d9-9669-0800200c9a66"),
    # one witness per mechanism observed on the tree this check was developed against
    ("bad", "port-non-numeric", "coap://[::1]:abc/"),
    ("uri", "coap://[v1.fe]/"),
    ("uri", "coap://1..2.3/"),
    ("uri", "coap://h%2Fx/"),
    ("uri", "coap://h/a/../b"),
    ("bad", "fragment-empty", "coap://h/a#"),
    ("bad", "userinfo-empty", "coap://@h/"),
    ("opt", {"scheme": "coap", "dest": ["ipv4", 0x0A000001, None], "dport": 1234, "uri_host": "h", "uri_port": 0, "path": ["a"], "query": [], "flags": ["port0"]}),
    ("opt", {"scheme": "coap", "dest": ["ipv4", 0x0A000001, None], "dport": None, "uri_host": "h/x", "uri_port": None, "path": [], "query": [], "flags": ["host-reserved"]}),
    # further shapes worth pinning
    ("uri", "coap://h:0/"),
    ("uri", "coap://h/?"),
    ("uri", "coap://h//"),
    ("uri", "coaps+ws://[FE80::0001%25eth0]:443/a%2Fb/?x=%26&&y"),
    ("uri", "coap://[::ffff:1.2.3.4]:05683"),
    ("hp", "fe80::1%eth0", 56830),
    ("hp", "example.com", None),
    ("hp", "2001:db8::1", 0),
    # bracketed host values that are no IP literal; escaped dot segments; text around literals; raw controls and spaces
    ("uri", "coap://%5B%3A%3A1%5D%2Fa%3Fb=%5D/path"),
    ("uri", "coap://%5Bx%5D/p"),
    ("uri", "coap://%5B%3A%3A1%5D%40%5B%3A%3A2%5D/p"),
    ("uri", "coap://%5Bfe80%3A%3A1%25eth0%5D/"),
    ("opt", {"scheme": "coap", "dest": ["name", "r.example", None], "dport": None, "uri_host": "[::1]/a?b=]", "uri_port": None, "path": ["path"], "query": [], "flags": ["host-bracketed", "host-soup"]}),
    ("opt", {"scheme": "coap", "dest": ["ipv4", 0x0A000001, None], "dport": None, "uri_host": "[]", "uri_port": 1, "path": [], "query": [], "flags": ["host-bracketed", "host-soup"]}),
    ("uri", "coap://h/a/%2e%2e/b"),
    ("uri", "coap://h/a/%2E/b"),
    ("uri", "coap://h/secret/.%2E/.%2e/pub"),
    ("uri", "coap://h/a/b/%2e%2E"),
    ("uri", "coap://h/%2e%2e%2e/%2e%2ea/a%2e/%252e"),
    # digit labels beyond what int() converts; lone surrogates (what os.fsdecode / sys.argv give for non-UTF-8 bytes)
    ("arb", "coap://1.2.3." + "7" * 4301 + "/"),
    ("arb", "coap://" + "0" * 4400 + ".2.3.4:5683/x"),
    ("arb", "coap://a.b.c." + "7" * 4301 + "/"),
    ("arb", "coap://h/caf\udce9"),
    ("arb", "coap://h/p?q=\ud800x"),
    ("arb", "coap://h\udcff.example/"),
    ("junk", "[::1]junk"),
    ("junk", "[::1]junk:5684"),
    ("junk", "[::1]]"),
    ("junk", "junk[::1]:5684"),
    ("junk", "[fe80::1%eth0]x:1"),
    ("arb", "coap://h/a\tb"),
    ("arb", "coap://exa\nmple.com/x"),
    ("arb", "co\tap://h/a"),
    ("arb", "coap://h:56\n83/a"),
    ("arb", "coap://h/%4\r\n1"),
    ("arb", "coap://h/a?k=\tv"),
    ("arb", " coap://h/a"),
    ("arb", "\x00\x1fcoap://h/a"),
    ("arb", "coap://h/a\x0bb c\x7f"),
    ("arb", "coap://h/a%09b%20c"),
    # zone identifiers: RFC 6874 spellings of one literal, a name that begins with "25", as destination, as Uri-Host literal, bare
    ("uri", "coap://[fe80::1%25lo]/x"),
    ("uri", "coap://[fe80::1%25eth0]/"),
    ("uri", "coap://[fe80::1%25%65th0]/"),
    ("uri", "coap://[fe80::1%25eth%30]:5683/"),
    ("uri", "coap://[fe80::1%25eth%2D0]/x"),
    ("uri", "coap://[fe80::1%2525lo]/x"),
    ("arb", "coap://[fe80::1%lo]/x"),
    ("opt", {"scheme": "coap", "dest": ["ipv6", 0xFE80 << 112 | 1, "eth0"], "dport": None, "uri_host": None, "uri_port": None, "path": ["x"], "query": [], "flags": ["zone-plain"]}),
    ("opt", {"scheme": "coap", "dest": ["ipv6", 0xFE80 << 112 | 1, "25lo"], "dport": 5684, "uri_host": None, "uri_port": 1234, "path": [], "query": [], "flags": ["zone-begins-25"]}),
    ("lit", {"scheme": "coap", "dest": ["name", "dest.example", None], "dport": None, "uri_host": "[fe80::1%25eth%2D0]", "uri_port": None, "path": ["x"], "query": [], "flags": ["host-literal", "zone-plain"]}, 0xFE80 << 112 | 1, "eth-0"),
    ("lit", {"scheme": "coap", "dest": ["name", "dest.example", None], "dport": None, "uri_host": "[fe80::1%25eth0]", "uri_port": None, "path": ["x"], "query": [], "flags": ["host-literal", "zone-plain"]}, 0xFE80 << 112 | 1, "eth0"),
    ("lit", {"scheme": "coap", "dest": ["ipv4", 0x0A000001, None], "dport": None, "uri_host": "[2001:db8::1]", "uri_port": 61616, "path": [], "query": ["a"], "flags": ["host-literal"]}, 0x20010DB8 << 96 | 1, None),
]


# =============================================================================== the monitor


def host_needs_escape(uri_host):
    from harness import refuri as ref

    return uri_host is not None and any(ord(c) < 128 and c not in ref.REGNAME for c in uri_host)


MECHANISM_KEYS = ("compose/host-reserved-char-not-escaped", "decompose/dot-segments-not-removed")
MECHANISM_FAMILIES = ("compose/bracketed-non-literal-host/", "decompose/pct-encoded-dot-segment/", "accept/junk-around-ip-literal/", "accept/whitespace-or-control-dropped/", "decompose/zone-id/", "compose/zone-id/")


def dest_of(hostinfo):
    """A remote's hostinfo -> ((kind, value, zone), port). A zone identifier in it is in the RFC 4007 form (see the module
    docstring); everything else is read as before (names may carry escapes)."""
    from harness import refuri as ref

    scoped = hostinfo.startswith("[") and "%" in hostinfo.partition("]")[0]
    return ref.split_hostinfo(hostinfo, uri_form=not scoped)



def pref(pre, key):
    """Keys found on text with raw non-ASCII characters (not URIs in the strict sense) are kept apart,
    except where the mechanism is one that has its own key anyway."""
    return key if key in MECHANISM_KEYS or key.startswith(MECHANISM_FAMILIES) else pre + key


def junk_shape(u):
    """Structural class of an authority in which a bracketed part is not the whole host: text before it, text between
    the closing bracket and the port / the end, or both. None if the authority has no such structure (an authority
    with an unpaired bracket or a malformed port belongs to other classes)."""
    a = authority_of(u)
    if a is None:
        return None
    hp = a.rpartition("@")[2]
    j = hp.find("]")
    i = hp.rfind("[", 0, max(j, 0))
    if i < 0 or j < 0:
        return None
    before, after = hp[:i], hp[j + 1 :]
    if after.startswith(":") and "[" not in after and "]" not in after:
        after = ""  # a port, well-formed or not
    if before and after:
        return "text-before-and-after-literal"
    if before:
        return "text-before-literal"
    if after:
        return "text-after-literal"
    return None


def locate(v, k):
    """Where in the URI text v a character that stood before v[k] was: a label for the violation key."""
    from harness import refuri as ref

    if k <= 0:
        return "leading"
    if k >= len(v):
        return "trailing"
    if v[k - 1] == "%" or (k >= 2 and v[k - 2] == "%"):
        return "inside-escape"
    scheme, authority, path, query, fragment = ref.split_components(v)
    pos = 0
    if scheme is not None:
        if k <= len(scheme):
            return "scheme"
        pos = len(scheme) + 1
    if authority is not None:
        if k < pos + 2:
            return "authority-delimiter"
        pos += 2
        if k <= pos + len(authority):
            _, port = ref.split_hostinfo_text(authority.rpartition("@")[2])
            if port is not None and k >= pos + len(authority) - len(port):
                return "port"
            return "host"
        pos += len(authority)
    if k <= pos + len(path) and (path or query is None):
        return "path"
    return "query"


def authority_of(u):
    i = u.find("//")
    if i < 0:
        return None
    rest = u[i + 2 :]
    for j, c in enumerate(rest):
        if c in "/?#":
            return rest[:j]
    return rest


def valid_port_text(s):
    return s == "" or (s.isascii() and s.isdigit() and int(s) <= 65535)


def escape_key(u, e):
    """Mechanism key for an exception other than the URL errors escaping set_request_uri: decided by the
    structural class of the input that provokes it, falling back to where it was raised."""
    t = type(e).__name__
    u = u.replace("\t", "").replace("\r", "").replace("\n", "").strip(" ")  # not part of any URI structure
    a = authority_of(u) if isinstance(u, str) else None
    if a is not None and isinstance(e, ValueError):
        hp = a.rsplit("@", 1)[-1]
        if "[" in hp:
            j = hp.find("]")
            inner = hp[hp.find("[") + 1 : j] if j > 0 else hp[hp.find("[") + 1 :]
            tail = hp[j + 1 :] if j > 0 else ""
            if ":" in tail and not valid_port_text(tail.partition(":")[2]):
                return "escape/ValueError/bracketed-host-invalid-port"
            if inner[:1] in ("v", "V"):
                return "escape/ValueError/ipvfuture-literal"
        else:
            host = hp.rsplit(":", 1)[0] if ":" in hp else hp
            if host.count(".") == 3 and all(c in "0123456789." for c in host) and "" in host.split("."):
                return "escape/ValueError/dotted-digits-empty-label"
    names = [f.name for f in traceback.extract_tb(e.__traceback__)][-2:]
    return "escape/%s/at-%s" % (t, "-".join(names))


class Obs:
    __slots__ = ("scheme", "hostinfo", "uri_host", "uri_port", "path", "query", "proxy")

    def __init__(self, m):
        rem = m.remote
        self.scheme = getattr(rem, "scheme", None)
        self.hostinfo = getattr(rem, "hostinfo", None)
        self.uri_host = m.opt.uri_host
        self.uri_port = m.opt.uri_port
        self.path = tuple(m.opt.uri_path)
        self.query = tuple(m.opt.uri_query)
        self.proxy = m.opt.proxy_uri

    def as_dict(self):
        return {k: getattr(self, k) for k in self.__slots__}


class _NoStats:
    @staticmethod
    def count(*a, **k):
        pass


class Checker:
    def __init__(self, rep):
        import aiocoap
        from aiocoap import error
        from aiocoap import util
        from aiocoap.message import UndecidedRemote

        self.rep = rep
        self.Message = aiocoap.Message
        self.GET = aiocoap.GET
        self.URLERR = (error.MalformedUrlError, error.IncompleteUrlError)
        self.UndecidedRemote = UndecidedRemote
        self.hostportjoin = util.hostportjoin
        self.hostportsplit = util.hostportsplit
        self.composed = {}  # composed URI -> (expected resource, case) for the distinctness oracle

    # ---- driving the code under test -----------------------------------------------------------------
    def from_uri(self, u):
        if u:
            return self.Message(code=self.GET, uri=u)
        m = self.Message(code=self.GET)  # the constructor skips an empty string; the method must still reject it
        m.set_request_uri(u)
        return m

    def attempt(self, u):
        """-> ("ok", message) | ("urlerr", exc) | ("escape", exc)"""
        try:
            return "ok", self.from_uri(u)
        except self.URLERR as e:
            return "urlerr", e
        except Exception as e:
            return "escape", e

    def effective(self, obs):
        """(scheme, host kind, host value, zone, port, path, query) the message denotes (6.5 steps 1-5)."""
        from harness import refuri as ref

        (kind, value, zone), port = dest_of(obs.hostinfo)
        if obs.uri_host is not None:
            kind, value, zone = "name", obs.uri_host, None
        elif kind == "name":
            value = ref.ascii_lower(value)
        if obs.uri_port is not None:
            port = obs.uri_port
        elif port is None:
            port = ref.DEFAULT_PORT.get(obs.scheme)
        return (obs.scheme, kind, value, zone, port, obs.path, obs.query)

    # ---- (a) -------------------------------------------------------------------------------------------
    def judge_decomposition(self, D, obs, iri_host=False, quiet=False):
        """-> list of (component, detail) where the observed options differ from RFC 7252 6.4.
        quiet: only the verdict is wanted (the same observation is being compared with several readings)."""
        from harness import refuri as ref

        rep = self.rep if not quiet else _NoStats
        bad = []
        if obs.proxy is not None:
            bad.append(("proxy-uri-set", obs.proxy))
        if obs.scheme != D.scheme:
            bad.append(("scheme", (obs.scheme, D.scheme)))
        dest = None
        try:
            dest = dest_of(obs.hostinfo)
        except (ref.NotAUri, ref.Reject, TypeError, AttributeError) as e:
            bad.append(("remote-hostinfo", (obs.hostinfo, repr(e))))
        lookalike_tolerated = False
        if dest is not None:
            (kind, value, zone), port = dest
            if D.host.kind == "name":
                if not iri_host and not (kind == "name" and value is not None and ref.ascii_lower(value) == ref.ascii_lower(D.uri_host)):
                    bad.append(("remote-host", (obs.hostinfo, D.host.text)))
            elif (kind, value) == (D.host.kind, D.host.value) and zone != D.host.zone:
                bad.append(("zone-id", (obs.hostinfo, zone, D.host.zone)))
            elif (kind, value, zone) != (D.host.kind, D.host.value, D.host.zone):
                bad.append(("remote-host", (obs.hostinfo, D.host.text)))
            eff = obs.uri_port if obs.uri_port is not None else (port if port is not None else ref.DEFAULT_PORT.get(D.scheme))
            if eff != D.effport:
                bad.append(("port", (obs.uri_port, obs.hostinfo, D.effport)))
            if obs.uri_port is not None:
                rep.count("port_in_uri_port_option")
        if D.host.kind == "name":
            if iri_host:
                if obs.uri_host is None:
                    bad.append(("uri-host-missing", D.uri_host))
            elif obs.uri_host == D.uri_host:
                pass
            elif obs.uri_host == D.uri_host_alt:
                rep.count("uri_host_lowercased_after_decoding")
            elif obs.uri_host is None:
                t = D.host.text
                labels = t.split(".")
                if len(labels) == 4 and all(l.isascii() and l.isdigit() and len(l.lstrip("0")) <= 3 and int(l.lstrip("0") or "0") <= 255 for l in labels):
                    rep.count("ipv4_with_leading_zeros_treated_as_literal")  # RFC 3986 7.4: tolerated
                    lookalike_tolerated = True
                else:
                    bad.append(("uri-host-missing", D.uri_host))
            elif ref.ascii_lower(obs.uri_host) == ref.ascii_lower(D.uri_host):
                bad.append(("uri-host-case", (obs.uri_host, D.uri_host)))
            else:
                bad.append(("uri-host-value", (obs.uri_host, D.uri_host)))
        elif obs.uri_host is not None:
            bad.append(("uri-host-on-ip-literal", obs.uri_host))
        if obs.path != D.path:
            if D.escaped_dots and (obs.path == D.path_escaped_dots_kept or any(x in (".", "..") for x in obs.path)):
                # "%2e%2E" became the Uri-Path value "..": RFC 7252 5.10.1 forbids the value, RFC 3986 2.3 / 6.2.2 say the segment is ".."
                bad.append(("pct-encoded-dot-segment", (obs.path, D.path)))
            elif D.path != D.path_literal and obs.path == D.path_literal:
                bad.append(("dot-segments-not-removed", (obs.path, D.path)))
            else:
                bad.append(("path", (obs.path, D.path)))
        if obs.query != D.query and not (D.query == ("",) and obs.query == ()):
            bad.append(("query", (obs.query, D.query)))
        elif D.query == ("",) and obs.query == ():
            rep.count("empty_query_component_dropped")
        return bad

    def valid_uri(self, u, case, kind, meta=None, iri=False):
        """Oracles (a) and (b) for a text the reference accepts as a CoAP URI."""
        from harness import refuri as ref

        rep = self.rep
        D = ref.decompose(u, iri=iri)
        if D.ambiguous_host:
            # "%31.2.3.4", "%5B%3A%3A1%5D": reg-name by the grammar, address after normalisation / for RFC 7252 6.5 step 3
            rep.count("escaped_ip_literal_lookalike_not_judged" if D.uri_host.startswith("[") else "escaped_ipv4_lookalike_not_judged")
            return True
        if D.escaped_dots:
            rep.monitor("g2_escaped_dot_segment")
        zone_spelling = None
        if D.host.zone is not None:
            zone_spelling = D.host.text[1:-1].partition("%25")[2]
            rep.monitor("g4_zone_uri")
            if "%" in zone_spelling:
                rep.monitor("g4_zone_uri_escaped_spelling")
            if D.host.zone.startswith("25"):
                rep.monitor("g4_zone_uri_name_begins_25")
        iri_host = iri and any(ord(c) >= 0x80 for c in D.host.text)
        st, res = self.attempt(u)
        outcome = st
        wit = {"uri": u, "reference": {"scheme": D.scheme, "host": list(D.host), "uri_host": D.uri_host, "port": D.port, "path": D.path, "query": D.query}}
        violated = False
        if st == "escape":
            rep.monitor("a_decomposition")
            rep.violation(escape_key(u, res), "set_request_uri let %s escape for a %s" % (type(res).__name__, "valid CoAP URI" if not iri else "URI with raw non-ASCII text"), dict(wit, exc=repr(res), tb=rep.exception_witness(res)), case)
            violated = True
        elif st == "urlerr":
            rep.monitor("a_decomposition")
            if iri:
                rep.count("iri_rejected")
            elif D.host.kind == "ipvfuture":
                rep.count("ipvfuture_rejected_with_url_error")  # not a destination this library can address: accepted outcome
            elif D.path_literal is None and D.path_escaped_dots_kept is not None:
                # the segment it stumbles over is one that reference resolution (6.4 step 2) removes
                rep.violation("decompose/dot-segments-not-removed", "a valid CoAP URI is rejected because of a path segment that dot-segment removal drops", dict(wit, exc=repr(res)), case)
                violated = True
            elif D.escaped_dots:
                # RFC 7252 6.4 read letter by letter ends in option values that 5.10.1 forbids: refusing such text is tolerated
                rep.count("escaped_dot_segment_rejected_with_url_error")
            elif D.host.zone is not None and not ref.zone_is_plain(D.host.zone):
                rep.count("zone_name_with_other_than_unreserved_characters_rejected")  # RFC 6874 allows them pct-encoded in a ZoneID; no platform has such zones
            elif D.host.zone is not None and "%" in zone_spelling:
                # an ordinary zone name, some of its unreserved characters written as escapes: equivalent (RFC 3986 2.3 / 6.2.2.2) to the plain spelling
                rep.violation("decompose/zone-id/escaped-spelling-rejected", "a valid CoAP URI whose ZoneID (RFC 6874: 1*( unreserved / pct-encoded )) spells an ordinary zone name with percent-encoded characters is rejected with %s" % type(res).__name__, dict(wit, exc=repr(res)), case)
                violated = True
            else:
                rep.violation("decompose/valid-uri-rejected/" + (D.host.kind), "a valid CoAP URI is rejected with %s" % type(res).__name__, dict(wit, exc=repr(res)), case)
                violated = True
        else:
            m = res
            obs = Obs(m)
            rep.monitor("a_decomposition")
            bad = self.judge_decomposition(D, obs, iri_host)
            if D.host.kind == "ipvfuture":
                rep.count("ipvfuture_accepted")
            for comp, detail in bad:
                violated = True
                if comp == "pct-encoded-dot-segment":
                    if any(x in (".", "..") for x in obs.path):
                        sub, extra = self.dot_value_roundtrip(u, m, obs)
                        what = "a percent-encoded dot segment (RFC 3986 2.3 / 6.2.2.2: equivalent to the literal one, removed by 6.2.2.3) is turned into a Uri-Path value '.' / '..' (forbidden by RFC 7252 5.10.1)" + ("; composing the options back and decomposing again gives another path" if sub == "round-trip-changes-path" else "")
                    else:
                        sub, extra = "treated-as-named-segment", {}
                        what = "a percent-encoded dot segment is treated as a named segment (a following '..' removes it instead of its parent): the URI decomposes to another path than the equivalent URI (RFC 3986 2.3) with literal dots"
                    rep.violation("decompose/pct-encoded-dot-segment/" + sub, what, dict(wit, observed=obs.as_dict(), detail=repr(detail), **extra), case)
                    continue
                if comp == "zone-id":
                    got = detail[1]
                    if got == "25" + zone_spelling:
                        sub, what = "pct25-delimiter-kept-in-zone", "the '%25' that introduces the ZoneID in URI text (RFC 6874) is read as '%' + the first two characters of the zone name: the destination's zone is '25' + the ZoneID text"
                    elif got is None:
                        sub, what = "zone-dropped", "the zone identifier of the URI's IP literal is missing from the destination"
                    elif zone_spelling is not None and got == zone_spelling and "%" in zone_spelling:
                        sub, what = "zone-not-percent-decoded", "the ZoneID is taken over without percent-decoding"
                    else:
                        sub, what = "another-zone", "the destination's zone is not the one the URI names"
                    rep.violation("decompose/zone-id/" + sub, "the destination (remote.hostinfo, RFC 4007 form) of a URI with a zoned IPv6 literal has another zone than the URI: " + what, dict(wit, observed=obs.as_dict(), destination_zone=got, uri_zone=D.host.zone), case)
                    continue
                rep.violation(pref("iri/" if iri else "", "decompose/" + comp), "Message(uri=...) does not decompose as RFC 7252 section 6.4 says (%s)" % comp, dict(wit, observed=obs.as_dict(), detail=repr(detail)), case)
            if not violated and iri_host and D.host.kind == "name":
                # raw non-ASCII text in a host name is an IRI spelling of the percent-encoded UTF-8 octets (RFC 3987 3.1):
                # whichever Uri-Host the library derives, both spellings of the one name must give the same
                try:
                    esc = "".join(c if ord(c) < 0x80 else "".join("%%%02X" % b for b in c.encode("utf-8")) for c in D.host.text)
                except UnicodeEncodeError:
                    esc = None
                at = u.find("://")
                if esc is not None and at >= 0 and u[at + 3 :].startswith(D.host.text):
                    u2 = u[: at + 3] + esc + u[at + 3 + len(D.host.text) :]
                    st2, res2 = self.attempt(u2)
                    if st2 not in ("escape", "urlerr"):
                        rep.monitor("iri_host_raw_vs_escaped")
                        obs2 = Obs(res2)
                        if obs2.uri_host != obs.uri_host:
                            rep.violation("iri/decompose/uri-host-of-raw-spelling-differs-from-escaped-spelling", "a host name written with raw non-ASCII characters gives another Uri-Host than the same name with those characters percent-encoded (RFC 7252 6.4 step 5 lower-cases ASCII letters only)", dict(wit, escaped_spelling=u2, uri_host_raw=obs.uri_host, uri_host_escaped=obs2.uri_host), case)
                            violated = True
            if not violated:
                violated = self.recompose(u, D, m, obs, case, wit, iri, iri_host)
            outcome = "ok" if not violated else "violated"
        if meta is not None:
            sig = (kind, meta["scheme"], meta["mixed_scheme"], meta["hk"], meta["pk"], min(meta["npath"], 4), meta["pc"], min(meta["nquery"], 3), meta["qc"], meta["iri"], meta["dots"], outcome)
            trivial = meta["hk"] == "name" and meta["pk"] == "none" and meta["npath"] == 0 and meta["nquery"] == 0 and not meta["mixed_scheme"]
        else:
            sig = (kind, D.scheme, D.host.kind, D.port is None, min(len(D.path), 4), textsig("".join(D.path)), min(len(D.query), 3), textsig("".join(D.query)), outcome)
            trivial = D.host.kind == "name" and D.port is None and not D.path and not D.query
        rep.case(sig, nontrivial=not trivial)
        rep.count("uri_outcome_" + outcome)
        rep.seen("host_kinds", D.host.kind)
        return not violated

    def dot_value_roundtrip(self, u, m, obs):
        """What becomes of Uri-Path values '.' / '..' when the options are composed and the result is decomposed again
        (only to name the symptom; where the host of the URI has a composing problem of its own, the same path is
        probed behind a plain host)."""
        from harness import refuri as ref

        if host_needs_escape(obs.uri_host):
            try:
                m = self.from_uri("coap://h" + ref.split_components(u)[2])
                obs = Obs(m)
            except Exception as e:
                return "dot-value-as-uri-path", {"probe_exc": repr(e)}
        try:
            u2 = m.get_request_uri()
        except Exception as e:
            return "compose-raises", {"exc": repr(e)}
        st, res = self.attempt(u2)
        if st != "ok":
            return "composed-uri-not-accepted", {"composed": u2, "exc": repr(res)}
        obs2 = Obs(res)
        if obs2.path != obs.path:
            return "round-trip-changes-path", {"composed": u2, "redecomposed_path": obs2.path}
        return "dot-value-as-uri-path", {"composed": u2}

    # ---- (b) -------------------------------------------------------------------------------------------
    def recompose(self, u, D, m, obs, case, wit, iri, iri_host):
        from harness import refuri as ref

        rep = self.rep
        pre = "iri/" if iri else ""
        reserved = host_needs_escape(obs.uri_host)
        bracketed = ref.bracketed_non_literal(obs.uri_host)
        if bracketed:
            rep.monitor("g1_bracketed_host_uri")

        def K(key, sym, host_related=True):
            # whatever goes wrong downstream of a Uri-Host that is composed without escaping is that mechanism; a value
            # that is taken for an IP literal because it begins and ends with brackets is a mechanism of its own
            if bracketed:
                return "compose/bracketed-non-literal-host/" + sym
            if D.host.zone is not None and not reserved and host_related:
                return "compose/zone-id/" + sym
            return "compose/host-reserved-char-not-escaped" if reserved else pref(pre, key)

        try:
            u2 = m.get_request_uri()
        except Exception as e:
            rep.monitor("b_recomposed_ref")
            rep.violation(K("compose/raises/" + type(e).__name__, "raises"), "get_request_uri() raised %r on a message built from a valid URI" % e, dict(wit, tb=rep.exception_witness(e)), case)
            return True
        wit = dict(wit, composed=u2)
        violated = False
        # by the reference
        rep.monitor("b_recomposed_ref")
        st2 = ref.classify(u2)
        if st2[0] != "ok":
            violated = True
            rep.violation(K("compose/not-a-valid-coap-uri/" + st2[1], "not-a-uri", st2[1] in ("host", "char:zone")), "get_request_uri() produced text that is not a valid CoAP URI (%s: %s)" % st2, wit, case)
        else:
            D2 = st2[1]
            rep.monitor("b_equivalent")
            k1, k2 = ref.resource_key(D), ref.resource_key(D2)
            if iri_host:
                k1, k2 = k1[:1] + k1[4:], k2[:1] + k2[4:]
            if k1 != k2:
                violated = True
                names = ["scheme", "host", "host", "host", "port", "path", "query"] if not iri_host else ["scheme", "port", "path", "query"]
                comps = sorted({names[i] for i in range(len(k1)) if k1[i] != k2[i]})
                rep.violation(K("roundtrip/" + "+".join(comps) + "-not-equivalent", "names-another-resource", "host" in comps), "the composed URI is not equivalent to the input (differs in %s): a different resource" % ", ".join(comps), dict(wit, input_key=repr(k1), composed_key=repr(k2)), case)
            else:
                nf = ref.normal_form_defects(u2)
                for aspect in nf:
                    violated = True
                    rep.violation(K("compose/not-normalised/" + aspect, "not-normalised"), "the composed URI is not in normal form (%s)" % aspect, wit, case)
        # by aiocoap itself
        rep.monitor("b_recomposed_self")
        st, res = self.attempt(u2)
        if bracketed and violated:
            rep.count("bracketed_host_composed_uri_" + ("names_other_options" if st == "ok" else "rejected_by_the_library"))
        if st != "ok":
            if not violated:
                violated = True
                key = K("roundtrip/composed-uri-not-accepted", "composed-uri-not-accepted") if st == "urlerr" or reserved or bracketed else escape_key(u2, res)
                rep.violation(key, "the library does not accept the URI it composed (%s)" % type(res).__name__, dict(wit, exc=repr(res)), case)
            return violated
        obs2 = Obs(res)
        try:
            e1, e2 = self.effective(obs), self.effective(obs2)
        except (ref.NotAUri, ref.Reject) as e:
            if not violated:
                violated = True
                rep.violation(K("roundtrip/remote-hostinfo", "decomposes-differently"), "remote.hostinfo of the re-decomposed message is not host[:port] (%r)" % e, dict(wit, second=obs2.as_dict()), case)
            return violated
        if (e1 != e2 or obs.uri_host != obs2.uri_host) and not violated:
            violated = True
            names = ["scheme", "host", "host", "host", "port", "path", "query"]
            comps = sorted({names[i] for i in range(len(e1)) if e1[i] != e2[i]} | ({"uri_host"} if obs.uri_host != obs2.uri_host else set()))
            rep.violation(K("roundtrip-self/" + "+".join(comps), "decomposes-differently", "host" in comps), "decomposing the composed URI gives different options (%s)" % ", ".join(comps), dict(wit, first=obs.as_dict(), second=obs2.as_dict()), case)
        if not violated:
            try:
                u3 = res.get_request_uri()
            except Exception as e:
                u3 = "raised %r" % e
            if u3 != u2:
                violated = True
                rep.violation(K("roundtrip/not-a-fixed-point", "not-a-fixed-point"), "composing the re-decomposed options gives yet another URI", dict(wit, third=u3), case)
        return violated

    # ---- (c) -------------------------------------------------------------------------------------------
    def build(self, o):
        m = self.Message(code=self.GET)
        m.remote = self.UndecidedRemote(o["scheme"], optset_hostinfo(o))
        if o["uri_host"] is not None:
            m.opt.uri_host = o["uri_host"]
        if o["uri_port"] is not None:
            m.opt.uri_port = o["uri_port"]
        m.opt.uri_path = list(o["path"])
        m.opt.uri_query = list(o["query"])
        return m

    def refine(self, o, comps, default, sym=None):
        from harness import refuri as ref

        if sym is not None and ref.bracketed_non_literal(o["uri_host"]):
            return "compose/bracketed-non-literal-host/" + sym
        if host_needs_escape(o["uri_host"]):
            return "compose/host-reserved-char-not-escaped"
        if o["uri_port"] == 0 and comps == {"port"}:
            return "compose/uri-port-0-ignored"
        if sym is not None and sym != "collapse" and (not comps or "host" in comps) and o["uri_host"] is None and o["dest"][0] == "ipv6" and o["dest"][2] is not None:
            # the host of the composed URI is the destination's literal with its zone identifier
            return "compose/zone-id/destination/" + sym
        return default

    def compose_optset(self, o, case):
        """-> composed URI or None (violation already reported)."""
        rep = self.rep
        from harness import refuri as ref

        try:
            m = self.build(o)
        except ValueError as e:
            if o["dest"][0] == "ipv6" and o["dest"][2] is not None and not ref.zone_is_plain(o["dest"][2]):
                # a zone name with other than unreserved characters: the library may not be able to express such a destination at all
                rep.count("destination_zone_name_with_other_than_unreserved_characters_refused")
                return None, False
            rep.violation("compose/zone-id/destination/remote-refused" if o["dest"][2] is not None else "hostport/raises/ValueError", "UndecidedRemote refuses a well-formed host[:port] string: %r" % e, {"options": o, "hostinfo": optset_hostinfo(o), "tb": rep.exception_witness(e)}, case)
            return None, None
        try:
            return m, m.get_request_uri()
        except Exception as e:
            key = self.refine(o, set(), "compose/raises/" + type(e).__name__, "raises")
            rep.violation(key, "get_request_uri() raised %r for an option set" % e, {"options": o, "tb": rep.exception_witness(e)}, case)
            return None, None

    def optset(self, o, case, twin=None, kind="opt"):
        from harness import refuri as ref

        rep = self.rep
        if not in_domain(o):
            rep.count("optset_out_of_domain")
            return
        o = dict(o, dest=tuple(o["dest"]))
        E = optset_expected(o)
        m, u = self.compose_optset(o, case)
        if u is False:
            return
        outcome = "ok"
        rep.monitor("c_options_roundtrip")
        if ref.bracketed_non_literal(o["uri_host"]):
            rep.monitor("g1_bracketed_host_options")
        if o["uri_host"] is None and o["dest"][0] == "ipv6" and o["dest"][2] is not None:
            rep.monitor("g4_zone_destination_options")
        if u is None:
            outcome = "violated"
        else:
            wit = {"options": o, "composed": u, "expected_resource": repr(E)}
            names = ["scheme", "host", "host", "host", "port", "path", "query"]
            st = ref.classify(u)
            bad = None
            if st[0] != "ok":
                bad = (self.refine(o, set() if st[1] in ("host", "char:zone") else {"other"}, "compose/not-a-valid-coap-uri/" + st[1], "not-a-uri"), "options compose to text that is not a valid CoAP URI (%s: %s)" % st, {})
            else:
                k = ref.resource_key(st[1])
                if k != E:
                    comps = {names[i] for i in range(len(E)) if E[i] != k[i]}
                    bad = (self.refine(o, comps, "options-roundtrip/" + "+".join(sorted(comps)), "names-another-resource"), "the composed URI decomposes (RFC 7252 6.4) to a different %s: another resource" % ", ".join(sorted(comps)), {"decomposed": repr(k)})
            if bad is None:
                st2, res = self.attempt(u)
                if st2 != "ok":
                    bad = (self.refine(o, set(), "options-roundtrip/composed-uri-not-accepted", "composed-uri-not-accepted"), "set_request_uri does not accept the composed URI (%s)" % type(res).__name__, {"exc": repr(res)})
                else:
                    obs2 = Obs(res)
                    try:
                        e2 = self.effective(obs2)
                    except (ref.NotAUri, ref.Reject) as e:
                        e2 = ("unparsable remote %r" % (obs2.hostinfo,),) * 7
                    if e2 != E:
                        comps = {names[i] for i in range(len(E)) if E[i] != e2[i]}
                        bad = (self.refine(o, comps, "options-roundtrip-self/" + "+".join(sorted(comps)), "decomposes-differently"), "set_request_uri(get_request_uri()) gives different options (%s)" % ", ".join(sorted(comps)), {"second": obs2.as_dict()})
            if bad is not None:
                outcome = "violated"
                rep.violation(bad[0], bad[1], dict(wit, **bad[2]), case)
            # distinctness across the shard
            rep.monitor("c_distinct")
            prev = self.composed.get(u)
            if prev is not None and prev[0] != E and outcome == "ok":
                outcome = "violated"
                rep.violation(self.refine(o, set(), "collapse/shard-wide", "collapse"), "two different option sets compose to the same URI", dict(wit, other=repr(prev[0])), ["optpair", prev[1], case[1]] if case[0] == "opt" else case)
            elif prev is None and case[0] == "opt" and outcome == "ok" and len(self.composed) < 60000:
                # (a set that does not round-trip has been reported under its own key; it would only pollute this map)
                self.composed[u] = (E, case[1])
            # distinctness against the twin
            if twin is not None:
                mv, t = twin
                t = dict(t, dest=tuple(t["dest"]))
                if in_domain(t) and optset_expected(t) != E:
                    rep.monitor("c_distinct")
                    _, ut = self.compose_optset(t, case)
                    if ut and ut == u:
                        outcome = "violated"
                        rep.violation(self.refine(o, {"port"} if mv == "drop-port" else set(), self.refine(t, set(), "collapse/" + mv, "collapse"), "collapse"), "two different option sets (related by %s) compose to the same URI" % mv, dict(wit, twin=t), case)
                    rep.count("twin_" + mv)
        sig = (kind, o["scheme"], o["dest"][0], o["dport"] is None, o["uri_host"] is not None, tuple(o["flags"]), o["uri_port"] is None, min(len(o["path"]), 4), textsig("".join(o["path"])) + ("e" if "" in o["path"] else ""), min(len(o["query"]), 3), textsig("".join(o["query"])) + ("e" if "" in o["query"] else ""), outcome)
        rep.case(sig, nontrivial=bool(o["path"] or o["query"] or o["uri_host"] or o["uri_port"] is not None))

    def optset_literal_host(self, o, value, zone, case):
        """An option set whose Uri-Host value is an IP literal, "[" IPv6address [ "%25" ZoneID ] "]". RFC 7252 6.5 step 3 takes
        it for the host of the URI as it is. Decomposing that URI puts no Uri-Host back (6.4 step 5), so the options do not
        round-trip; what is demanded: the composed text is a valid CoAP URI, names that literal (address, zone, port, path,
        query), and the library accepts it again with that literal as the destination."""
        from harness import refuri as ref

        rep = self.rep
        o = dict(o, dest=tuple(o["dest"]))
        if o["path"] == [""] or o["query"] == [""] or any(x in (".", "..") for x in o["path"]):
            rep.count("optset_out_of_domain")
            return
        rep.monitor("g4_zone_literal_uri_host_options")
        fam = "compose/zone-id/uri-host-literal/" if zone is not None else "options-roundtrip/uri-host-literal/"
        port = o["uri_port"] if o["uri_port"] is not None else (o["dport"] if o["dport"] is not None else ref.DEFAULT_PORT[o["scheme"]])
        E = (o["scheme"], "ipv6", value, zone, port, tuple(o["path"]), tuple(o["query"]))
        outcome = "ok"
        bad = None
        try:
            u = self.build(o).get_request_uri()
        except Exception as e:
            u = None
            bad = ("raises", "get_request_uri() raised %r for an option set whose Uri-Host is an IP literal" % e, {"tb": rep.exception_witness(e)})
        if u is not None:
            names = ["scheme", "host", "host", "zone", "port", "path", "query"]
            st = ref.classify(u)
            if st[0] != "ok":
                bad = ("not-a-uri", "options with an IP literal as Uri-Host compose to text that is not a valid CoAP URI (%s: %s)" % st, {}, st[1] in ("host", "char:zone"))
            elif ref.resource_key(st[1]) != E:
                k = ref.resource_key(st[1])
                bad = ("names-another-resource", "the composed URI names another %s" % ", ".join(sorted({names[i] for i in range(7) if E[i] != k[i]})), {"decomposed": repr(k)}, any(E[i] != k[i] for i in (1, 2, 3)))
            else:
                st2, res = self.attempt(u)
                if st2 == "urlerr" and zone is not None and not ref.zone_is_plain(zone):
                    rep.count("zone_name_with_other_than_unreserved_characters_rejected")
                elif st2 != "ok":
                    bad = ("composed-uri-not-accepted", "set_request_uri does not accept the URI composed from an IP literal Uri-Host (%s)" % type(res).__name__, {"exc": repr(res)})
                else:
                    obs2 = Obs(res)
                    try:
                        e2 = self.effective(obs2)
                    except (ref.NotAUri, ref.Reject):
                        e2 = ("unparsable remote %r" % (obs2.hostinfo,),) * 7
                    if e2 != E or obs2.uri_host is not None:
                        bad = ("decomposes-differently", "decomposing the composed URI gives another destination / other options (%s)" % ", ".join(sorted({names[i] for i in range(7) if E[i] != e2[i]} | ({"uri_host"} if obs2.uri_host is not None else set()))), {"second": obs2.as_dict()}, obs2.uri_host is not None or any(E[i] != e2[i] for i in (1, 2, 3)))
        if bad is not None:
            outcome = "violated"
            if len(bad) > 3 and not bad[3]:
                fam = "options-roundtrip/uri-host-literal/"  # path, query, port: nothing to do with the literal's zone
            rep.violation(fam + bad[0], bad[1], dict({"options": o, "composed": u, "expected_resource": repr(E)}, **bad[2]), case)
        rep.case(("opt-literal-host", o["scheme"], o["dest"][0], o["dport"] is None, tuple(o["flags"]), o["uri_port"] is None, min(len(o["path"]), 4), min(len(o["query"]), 3), outcome), nontrivial=True)

    def judge_bare_zone(self, u, bz, obs, case):
        """URI text with "[<IPv6address>%<zone>]" (bare "%": not RFC 6874 syntax, rejection is in order) was accepted. The only
        thing it can mean is that zone of that address. -> True if reported."""
        rep = self.rep
        if obs.proxy is not None:
            return False
        try:
            (kind, value, zone), _port = dest_of(obs.hostinfo)
        except Exception:
            kind = value = zone = None
        if (kind, value, zone) == ("ipv6",) + bz and obs.uri_host is None:
            rep.count("bare_zone_kept")
            return False
        rep.violation("decompose/zone-id/bare-zone-changed", "URI text with a bare '%zone' in its IP literal is accepted, but the destination is not that address in that zone", {"uri": u, "observed": obs.as_dict(), "address_and_zone": list(bz)}, case)
        return True

    # ---- (d) -------------------------------------------------------------------------------------------
    def must_reject(self, cls, u, case, hk="?"):
        from harness import refuri as ref

        rep = self.rep
        st, res = self.attempt(u)
        rep.monitor("d_rejected")
        refst = ref.classify(u)
        if refst[0] == "ok":
            rep.inconc("generator defect: %r meant as %s is a valid CoAP URI for the reference" % (u, cls))
            return
        if st == "escape":
            rep.violation(escape_key(u, res), "set_request_uri let %s escape instead of a URL error (input class: %s)" % (type(res).__name__, cls), {"uri": u, "class": cls, "exc": repr(res), "tb": rep.exception_witness(res)}, case)
        elif st == "ok":
            obs = Obs(res)
            if obs.proxy is not None and refst == ("reject", "foreign-scheme"):
                pass
            elif cls == "port-range" or (cls in ("fragment-empty", "userinfo-empty") and not STRICT_EMPTY_COMPONENTS):
                rep.count(cls + "_accepted")
            else:
                rep.violation("reject/%s-accepted" % cls, "text that is not an acceptable CoAP URI (%s) is accepted" % cls, {"uri": u, "class": cls, "observed": obs.as_dict(), "reference": list(refst)}, case)
        else:
            rep.count("rejected_with_" + type(res).__name__)
        rep.case(("bad", cls, hk, st, type(res).__name__ if st != "ok" else "", refst[1]), nontrivial=True)

    def arbitrary(self, kind, u, case):
        """Totality: URL errors or success; whatever the reference can decide about the text is decided too."""
        from harness import refuri as ref

        rep = self.rep
        if any(0xD800 <= ord(c) <= 0xDFFF for c in u):
            # a lone surrogate code point: not text at all (it has no UTF-8 form, so it can neither be put into an
            # option nor be percent-encoded): such a string is what Python hands out for non-UTF-8 command line or file
            # name bytes. Not an acceptable URI whatever else it looks like.
            rep.monitor("lone_surrogate_text")
            st, res = self.attempt(u)
            if st == "escape":
                rep.violation(escape_key(u, res), "set_request_uri let %s escape for text with a lone surrogate" % type(res).__name__, {"text": ascii(u), "exc": repr(res)}, case)
            elif st == "ok":
                rep.violation("reject/lone-surrogate-accepted", "text containing a lone surrogate code point (no UTF-8 form: cannot be an option value) is accepted; serialising or composing the message fails later", {"text": ascii(u), "observed": ascii(Obs(res).as_dict())}, case)
            else:
                rep.count("rejected_with_" + type(res).__name__)
            rep.case(("arb", kind, st, "surrogate"), nontrivial=True)
            return
        refst = ref.classify(u)
        if refst[0] == "ok":
            rep.count("arbitrary_valid_uri")
            rep.monitor("d_totality")
            return self.valid_uri(u, case, "arb-valid")
        st, res = self.attempt(u)
        rep.monitor("d_totality")
        detail = ""
        shape = junk_shape(u) if refst[0] == "notauri" else None
        wspos = ref.raw_nonuri_positions(u) if refst[0] == "notauri" else []
        if shape is not None:
            rep.monitor("g3_junk_around_literal_uri")
        if wspos:
            rep.monitor("g3_control_or_space_uri")
        bz = None
        if refst == ("notauri", "bad-pct") or refst == ("notauri", "host"):
            a = authority_of(u)
            if a is not None and "@" not in a:
                bz = ref.bare_zone_literal(ref.split_hostinfo_text(a)[0])
                if bz is not None and ref.classify(u.replace("%", "%25", 1))[0] != "ok":
                    bz = None  # something else is wrong with the text as well
        if bz is not None:
            rep.monitor("g4_bare_zone_uri")
        if st == "escape":
            rep.violation(escape_key(u, res), "set_request_uri let %s escape for arbitrary text" % type(res).__name__, {"text": u, "exc": repr(res), "tb": rep.exception_witness(res)}, case)
        elif st == "ok":
            obs = Obs(res)
            if refst[0] == "reject" and refst[1] in ("no-scheme", "no-host", "fragment", "userinfo", "port-non-numeric", "non-utf8"):
                # syntactically a URI reference, and of a stated rejection class
                cls = refst[1]
                if cls == "fragment" and u.endswith("#"):
                    cls = "fragment-empty"
                if cls == "userinfo":
                    a = authority_of(u) or ""
                    if a.rsplit("@", 1)[0] in ("", ":"):
                        cls = "userinfo-empty"
                if cls in ("fragment-empty", "userinfo-empty") and not STRICT_EMPTY_COMPONENTS:
                    rep.count(cls + "_accepted")
                else:
                    rep.violation("reject/%s-accepted" % cls, "text that is not an acceptable CoAP URI (%s) is accepted" % cls, {"uri": u, "class": cls, "observed": obs.as_dict()}, case)
            elif refst == ("reject", "foreign-scheme"):
                if obs.proxy != u or obs.uri_host is not None or obs.path or obs.query:
                    rep.violation("foreign-scheme/not-proxy-uri", "a URI of a non-CoAP scheme is neither rejected nor stored verbatim as Proxy-Uri", {"uri": u, "observed": obs.as_dict()}, case)
                detail = "proxy"
            else:
                try:
                    ref.decompose(u, iri=True)
                    lenient_valid = True
                except (ref.NotAUri, ref.Reject):
                    lenient_valid = False
                if lenient_valid:
                    return self.valid_uri(u, case, "arb-iri", iri=True)
                if (wspos and self.judge_control_or_space(u, obs, case)) or (shape is not None and self.judge_junk_around_literal(u, shape, obs, case)):
                    detail = "dropped"
                elif bz is not None and self.judge_bare_zone(u, bz, obs, case):
                    detail = "zone-changed"
                else:
                    detail = "lenient"
                    rep.count("arbitrary_accepted_leniently")
        rep.case(("arb", kind, st, refst[0], refst[1] if isinstance(refst[1], str) else "", detail, shape or "", self.ws_signature(u, wspos), bz is not None), nontrivial=True)
        rep.count("arbitrary_" + st)

    @staticmethod
    def ws_signature(u, wspos):
        if not wspos:
            return ""
        kinds = sorted({"tcl" if u[i] in "\t\r\n" else ("sp" if u[i] == " " else ("del" if u[i] == "\x7f" else "c0")) for i in wspos})
        return "+".join(kinds) + ("@lead" if wspos[0] == 0 else "") + ("@trail" if wspos[-1] == len(u) - 1 else "")

    def judge_junk_around_literal(self, u, shape, obs, case):
        """The text has an authority in which a bracketed part is not the whole host (RFC 3986 3.2.2: no such authority),
        and it was accepted. Tolerable only if all of the text is still there (kept as host data); reported if the text
        around the literal has vanished. -> True if reported."""
        rep = self.rep
        if obs.proxy is not None:
            return False  # stored verbatim as Proxy-Uri: nothing of the text is lost
        if obs.uri_host is not None and ("[" in obs.uri_host or "]" in obs.uri_host):
            rep.count("brackets_kept_as_host_data")
            return False
        rep.violation("accept/junk-around-ip-literal/uri/" + shape, "an authority with text around a bracketed IP literal (no host[:port] by RFC 3986 3.2.2) is accepted and the extra text silently dropped", {"uri": u, "authority": authority_of(u), "observed": obs.as_dict()}, case)
        return True

    def judge_control_or_space(self, u, obs, case):
        """The text contains raw C0 control / SPACE / DEL characters (not URI characters: the text is no URI and should
        have been rejected) and was accepted. Tolerated (as for other excluded characters) if the result is what the text
        says when these characters are data, i.e. what the same text with them percent-encoded decomposes to. Reported if
        the result is what the text *without* them (without TAB / CR / LF and the leading ones; without these and the
        trailing ones; without all of them) decomposes to: they were silently dropped. Anything else stays what it was
        before this oracle existed, a counted lenient acceptance. -> True if reported."""
        from harness import refuri as ref

        rep = self.rep
        if obs.proxy is not None:
            return False  # stored verbatim as Proxy-Uri

        def matches(text):
            try:
                D = ref.decompose(text, iri=True)
            except (ref.NotAUri, ref.Reject):
                return False
            if D.ambiguous_host:
                return False
            return not self.judge_decomposition(D, obs, any(ord(c) >= 0x80 for c in D.host.text), quiet=True)

        if matches(ref.nonuri_as_data(u)):
            rep.count("control_or_space_kept_as_data")
            return False
        tcl = "\t\r\n"
        lead = len(u) - len(u.lstrip(ref.NONURI_CHARS))
        trail = len(u.rstrip(ref.NONURI_CHARS))
        variants = [
            [i for i, c in enumerate(u) if c in tcl or (c in ref.NONURI_CHARS and i < lead)],
            [i for i, c in enumerate(u) if c in tcl or (c in ref.NONURI_CHARS and (i < lead or i >= trail))],
            [i for i, c in enumerate(u) if c in ref.NONURI_CHARS],
        ]
        seen = []
        for dropped in variants:
            if not dropped or dropped in seen:
                continue
            seen.append(dropped)
            ds = set(dropped)
            v = "".join(c for i, c in enumerate(u) if i not in ds)
            if matches(ref.nonuri_as_data(v)):  # (what is not dropped may have been kept as data)
                # ... which shows that they were dropped only if the place they stood at matters for the result: a path
                # segment that dot-segment removal discards could hold anything (incomplete escapes are tolerated)
                where = None
                for n, i in enumerate(dropped):
                    k = i - n
                    a = max((x for x in range(k) if v[x] in "/?&#"), default=-1)
                    b = min((x for x in range(k, len(v)) if v[x] in "/?&#"), default=len(v))
                    if not matches(ref.nonuri_as_data(v[: a + 1] + "q" + v[b:])):
                        where = locate(v, k)
                        break
                if where is None:
                    continue
                rep.violation("accept/whitespace-or-control-dropped/" + where, "text with raw control / space characters (not URI characters: RFC 3986 2, Appendix A) is accepted and decomposed as if they were not there", {"text": u, "dropped": [repr(u[i]) for i in dropped], "same_as": v, "observed": obs.as_dict()}, case)
                return True
        rep.count("control_or_space_accepted_undecided")
        return False

    def junk_hostport(self, hp, case):
        """(e) for a string that is not host[:port]: text around a bracketed literal. hostportsplit either refuses it
        (ValueError) or splits it such that joining gives the string back; it does not silently lose part of it."""
        from harness import refuri as ref

        rep = self.rep
        if ref.hostinfo_wellformed(hp):
            rep.inconc("generator defect: %r is a well-formed host[:port]" % hp)
            return
        shape = junk_shape("//" + hp)
        if shape is None:
            rep.count("junk_hostport_without_text_around_brackets_not_judged")  # "[h.example]", "[]:1": brackets around something else
            return
        rep.monitor("g3_junk_around_literal_hostportsplit")
        outcome = "split"
        try:
            h, p = self.hostportsplit(hp)
        except ValueError:
            rep.count("junk_hostport_refused")
            outcome = "refused"
        except Exception as e:
            outcome = "raises"
            rep.violation("hostport/raises/" + type(e).__name__, "hostportsplit raised %r for text around a bracketed literal" % e, {"hostport": hp, "tb": rep.exception_witness(e)}, case)
        else:
            try:
                again = self.hostportjoin(h, p)
            except Exception as e:
                again = "raised %r" % e
            if ref.ascii_lower(again) == ref.ascii_lower(hp):
                rep.count("junk_hostport_split_consistently")
            else:
                outcome = "lossy"
                rep.violation("accept/junk-around-ip-literal/hostportsplit/" + shape, "hostportsplit accepts a string that is not host[:port] and silently drops the text around the bracketed literal", {"hostport": hp, "split": [h, p], "joined_again": again}, case)
        rep.case(("junk-hp", shape, "%" in hp, "@" in hp, outcome), nontrivial=True)

    # ---- (e) -------------------------------------------------------------------------------------------
    def hostport(self, kind, h, p, case):
        from harness import refuri as ref

        rep = self.rep
        rep.monitor("e_hostport")
        wit = {"host": h, "port": p}
        outcome = "ok"
        try:
            joined = self.hostportjoin(h, p)
            h2, p2 = self.hostportsplit(joined)
        except Exception as e:
            rep.violation("hostport/raises/" + type(e).__name__, "hostportsplit(hostportjoin(h, p)) raised %r" % e, dict(wit, tb=rep.exception_witness(e)), case)
            rep.case(("hp", kind, p is None, "raises"), nontrivial=True)
            return
        wit = dict(wit, joined=joined, split=[h2, p2])
        want_joined = ref.join_hostinfo(h, p)
        addr, pc, zone = h.partition("%")
        addr2, pc2, zone2 = (h2 or "").partition("%")
        if joined != want_joined:
            outcome = "joined-differs"
            rep.violation("hostport/joined-form", "hostportjoin does not give host[:port] with IPv6 literals in brackets", dict(wit, want=want_joined), case)
        elif p2 != p:
            outcome = "port-differs"
            rep.violation("hostport/port-differs", "hostportsplit(hostportjoin(h, p)) gives a different port", wit, case)
        elif h2 != h:
            if kind == "name" and "%" in h:
                same = ref.ascii_lower(h2) == ref.ascii_lower(h)
            else:
                same = ref.ascii_lower(addr2) == ref.ascii_lower(addr) and (pc2, zone2) == (pc, zone)
            if same:
                rep.count("hostport_host_lowercased")
            else:
                outcome = "host-differs"
                rep.violation("hostport/host-differs" + ("/zone" if (pc2, zone2) != (pc, zone) and kind != "name" else ""), "hostportsplit(hostportjoin(h, p)) gives a different host", wit, case)
        if outcome == "ok" and h == ref.ascii_lower(h):
            # the other direction on the canonical string
            try:
                again = self.hostportjoin(*self.hostportsplit(joined))
            except Exception as e:
                again = "raised %r" % e
            if again != joined:
                outcome = "rejoin-differs"
                rep.violation("hostport/rejoin-differs", "hostportjoin(*hostportsplit(s)) != s for a canonical host:port string", dict(wit, again=again), case)
        rep.case(("hp", kind, "none" if p is None else ("0" if p == 0 else "n"), "%" in h, h != ref.ascii_lower(h), outcome), nontrivial=True)

    # ---- dispatch -----------------------------------------------------------------------------------------
    def run_case(self, seed, cls, i):
        from harness import refuri as ref

        rep = self.rep
        case = [cls, i]
        if cls == "fixed":
            return self.run_fixed(i)
        r = case_rng(seed, cls, i)
        if cls == "uri":
            u, meta = gen_uri(r)
            iri = meta["iri"]
            try:
                ref.decompose(u, iri=iri)
            except (ref.NotAUri, ref.Reject) as e:
                rep.inconc("generator defect: %r is not a valid CoAP URI for the reference (%s)" % (u, e))
                return
            self.valid_uri(u, case, "uri", meta, iri=iri)
            if i < 2:
                rep.sample({"class": "uri", "uri": u})
        elif cls == "opt":
            o = gen_optset(r)
            twin = gen_twin(r, o)
            self.optset(o, case, twin)
            if i < 1:
                rep.sample({"class": "options", "options": o})
        elif cls == "bad":
            bcls, u, hk = gen_bad(r)
            self.must_reject(bcls, u, case, hk)
        elif cls == "arb":
            kind, u = gen_arbitrary(r)
            self.arbitrary(kind, u, case)
        elif cls == "hp":
            kind, h, p = gen_hostport(r)
            self.hostport(kind, h, p, case)
        elif cls == "junk":
            hp, u = gen_junk_uri(r)
            self.arbitrary("junk", u, case)
            self.junk_hostport(hp.rpartition("@")[2], case)
        elif cls == "ws":
            base, u = gen_ws_uri(r)
            self.arbitrary("ws", u, case)
        elif cls == "zone":
            z = gen_zone_case(r)
            if z["mode"] == "uri":
                for k, u in enumerate(z["uris"]):
                    try:
                        D = ref.decompose(u)
                        assert D.host.zone == z["zone"]
                    except (ref.NotAUri, ref.Reject, AssertionError) as e:
                        rep.inconc("generator defect: %r is not a valid CoAP URI with zone %r for the reference (%r)" % (u, z["zone"], e))
                        return
                    self.valid_uri(u, case, "zone-uri/%s/%s" % (z["zcls"], "escaped" if k else "canonical"))
            elif z["mode"] == "dest":
                self.optset(z["options"], case, None, kind="zone-opt")
            elif z["mode"] == "lit":
                self.optset_literal_host(z["options"], z["value"], z["zone"], case)
            else:
                self.arbitrary("bare-zone", z["uri"], case)
        else:
            raise AssertionError(cls)

    def run_fixed(self, k):
        from harness import refuri as ref

        f = FIXED[k]
        case = ["fixed", k]
        if f[0] == "uri":
            iri = any(ord(c) >= 0x80 for c in f[1])
            self.valid_uri(f[1], case, "fixed-uri", iri=iri)
        elif f[0] == "bad":
            self.must_reject(f[1], f[2], case)
        elif f[0] == "arb":
            self.arbitrary("fixed", f[1], case)
        elif f[0] == "opt":
            self.optset(f[1], case, None, kind="fixed-opt")
        elif f[0] == "hp":
            self.hostport("fixed", f[1], f[2], case)
        elif f[0] == "junk":
            self.arbitrary("fixed", "coap://" + f[1] + "/p", case)
            self.junk_hostport(f[1], case)
        elif f[0] == "lit":
            self.optset_literal_host(f[1], f[2], f[3], case)


def run_shard(shard, rep, only=None):
    from harness import refuri as ref

    assert ref.selftest()
    ck = Checker(rep)
    seed = shard["seed"]
    if only is not None:
        if only[0] == "optpair":
            ck.run_case(seed, "opt", only[1])
            ck.run_case(seed, "opt", only[2])
        else:
            ck.run_case(seed, only[0], only[1])
        return
    for k in range(len(FIXED)):
        if k % shard["of"] == shard["index"]:
            ck.run_case(seed, "fixed", k)
    for cls in ("uri", "opt", "bad", "arb", "hp", "junk", "ws", "zone"):
        for i in range(shard["n"][cls]):
            ck.run_case(seed, cls, i)
