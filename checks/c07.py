"""C07 — observe client: deliveries in RFC 7641 section 3.4 freshness order, one terminal signal,
nothing after the end, later notifications rejected like unknown responses."""

import itertools
import random

ID = "C07"
LEVEL = "exploration"
TECHNIQUE = "runtime monitoring on a virtual-time simulated network: scripted raw notifier (Observe values around 2^23 / 2^24 wrap, inter-arrival gaps around 128 s, CON/NON, duplicates, all permutations of up to 5 notifications, back-to-back deliveries in one loop iteration, a terminating response or transport error at every position); oracle = reference implementation of the section 3.4 predicate over (Observe value, virtual arrival time) applied to the recorded callback / iteration history, plus wire reactions after the end"
LEVEL_TEXT = "All permutations of notification sequences up to length 5 over boundary Observe values and arrival gaps (exhaustive per value set) and sampled longer ones are delivered to the real client through both consumer interfaces and both request paths; the delivered sequence, the terminal signal and the reactions after the end are judged against the reference predicate."
LEVEL_NOTE = "Trusted: the freshness predicate and the judge in checks/c07.py, harness/vloop.py (time.time is virtual), simnet, refcodec. Exact delivery of every fresh notification is not demanded (the iterator is lossy by design); only subsequence + freshness + 'nothing fresher left undelivered'."
RULE = (
    "one case = one observation: (request path raw/default, consumer callback/iteration, first response with/without Observe, sequence of (Observe value, gap, CON/NON), terminator kind, type (CON/NON) and position, trailing notifications, whether the callback consumer cancels the observation when it is handed the final response). "
    "Non-trivial = at least one notification was stale/duplicated/reordered or a terminator occurred; distinct = distinct tuples of (path, consumer, value-order pattern, gap classes, terminator, position)"
)
ASSUMPTIONS = ["one-way latency 1 ms; datagrams with gap 0 are delivered back-to-back in one event-loop iteration", "OBSERVATION_RESET_TIME is 128 s (default tuning)"]
REQUIRED_MONITORS = {"failure_before_first_response": 4, "late_consumer": 100, "freshness_order": 800, "nothing_fresher_left": 300, "terminal_signal": 800, "after_end_wire": 200, "time_clause_exercised": 20, "clock_consulted": 1, "con_notification_acknowledged": 300, "cancelled_in_callback": 20}
EXHAUSTIVE = {"permutations": "all orders of each base value set (length <= 5) for every consumer/path"}

VALUE_SETS = [
    [1, 2, 3],
    [1, 2, 3, 4],
    [5, 5, 6],
    [0, 1, 2**23 - 1, 2**23, 2**23 + 1],
    [2**24 - 2, 2**24 - 1, 0, 1],
    [10, 2**23 + 9, 2**23 + 10, 2**23 + 11],
    [2**24 - 1, 0, 2**23],
    [100, 50, 75, 25, 125],
    [2**24 - 1, 0, 1, 0],  # the value 0 again after the wrap-around
    [3, 5, 0, 0],
]
GAPS = [0.0, 1e-6, 1.0, 127.9, 128.1, 10000.0]


def fresh(v1, t1, v2, t2):
    return (v1 < v2 and v2 - v1 < 2**23) or (v1 > v2 and v1 - v2 > 2**23) or (t2 > t1 + 128)


def plan(tier, seed):
    n = 16
    return [{"name": "c07-%d" % i, "seed": seed * 1000 + i, "index": i, "of": n, "tier": tier, "extra": {"quick": 40, "thorough": 5000}[tier]} for i in range(n)]


def scripts(r, tier, idx, of):
    """yield script dicts; the permutation part is split over shards"""
    k = 0
    for vs in VALUE_SETS:
        for perm in sorted(set(itertools.permutations(vs))):
            for path, consumer in (("raw", "cb"), ("raw", "iter"), ("default", "cb"), ("default", "iter")):
                k += 1
                if k % of != idx:
                    continue
                if tier == "quick" and len(vs) >= 5 and r.random() > 0.25:
                    continue
                gaps = [r.choice(GAPS[:3]) for _ in perm]
                term = r.choice(["none", "final-2.05", "final-4.04", "icmp", "none"])
                yield {"path": path, "consumer": consumer, "first": r.choice([0, 0, 0, 0, 0, 7, 2**24 - 3, 2**24 - 3, None]), "notifs": [{"v": v, "gap": g, "type": r.choice(["NON", "CON"])} for v, g in zip(perm, gaps)], "term": term, "term_pos": r.randrange(0, len(perm) + 1), "term_gap": r.choice([0.0, 1e-6, 1.0]), "trail": 2, "class": "perm"}


def window_script(r):
    """accepted notification, then stale / duplicate stragglers inside the 128 s window, then notifications that are
    fresh only by the time clause (counter reset): the window is measured from the last ACCEPTED one"""
    base = r.choice([100, 5000, 2**23 + 50, 2**24 - 10])
    notifs = [{"v": base, "gap": 1.0, "type": r.choice(["NON", "CON"])}]
    t_since = 0.0
    for _ in range(r.randrange(1, 4)):
        g = r.choice([30.0, 60.0, 100.0, 127.0 - t_since if t_since < 100 else 1.0])
        g = max(0.5, min(g, 127.5 - t_since))
        t_since += g
        notifs.append({"v": (base - r.randrange(0, 20)) % 2**24, "gap": g, "type": r.choice(["NON", "CON"])})
    # first one that is only fresh because more than 128 s passed since the accepted one
    g = 128.5 - t_since + r.choice([0.0, 5.0, 20.0])
    low = r.randrange(0, 50)
    notifs.append({"v": (base - 80 - low) % 2**24, "gap": g, "type": r.choice(["NON", "CON"])})
    notifs.append({"v": (base - 79 - low) % 2**24, "gap": r.choice([1.0, 10.0]), "type": r.choice(["NON", "CON"])})
    return {"path": r.choice(["raw", "default"]), "consumer": r.choice(["cb", "iter"]), "first": (base - 1) % 2**24, "notifs": notifs, "term": "none", "term_pos": 0, "term_gap": 1.0, "trail": 0, "class": "window"}


def special_scripts():
    """transport failure instead of a first response; terminating response back to back with the first response"""
    out = []
    for path in ("raw", "default"):
        for consumer in ("cb", "iter", "iter-poll"):
            out.append({"path": path, "consumer": consumer, "first": 0, "no_first": True, "notifs": [], "term": "none", "term_pos": 0, "term_gap": 0.0, "trail": 0, "class": "no-first"})
            for ef in ("2.05", "4.04"):
                out.append({"path": path, "consumer": consumer, "first": 0, "early_final": ef, "notifs": [], "term": "final-" + ef, "term_pos": 0, "term_gap": 0.0, "trail": 2, "class": "early-final"})
        # the application cancels the observation from inside the callback that hands it the final response
        for ef in ("2.05", "4.04"):
            for tt in ("CON", "NON"):
                for pos in (0, 1, 2):
                    out.append({"path": path, "consumer": "cb", "first": 0, "notifs": [{"v": 1 + k, "gap": 1.0, "type": "CON" if k else "NON"} for k in range(2)], "term": "final-" + ef, "term_type": tt, "cb_cancels": True, "late": None, "term_pos": pos, "term_gap": 1.0, "trail": 2, "class": "cb-cancels"})
    return out


def random_script(r):
    n = r.randrange(1, 9)
    base = r.choice([0, 1000, 2**23 - 3, 2**24 - 4])
    vals = [(base + r.randrange(0, 6)) % 2**24 for _ in range(n)]
    if r.random() < 0.3:
        vals = [r.choice([0, 1, 2**23 - 1, 2**23, 2**23 + 1, 2**24 - 1]) for _ in range(n)]
    return {
        "path": r.choice(["raw", "default"]),
        "consumer": r.choice(["cb", "iter", "iter-poll"]),
        "poll": r.choice([0.3, 0.7, 5.0, 200.0]),
        "first": r.choice([0, 0, 0, 7, None]),
        "notifs": [{"v": v, "gap": r.choice(GAPS), "type": r.choice(["NON", "CON"])} for v in vals],
        "term": r.choice(["none", "final-2.05", "final-4.04", "icmp"]),
        "term_type": r.choice(["NON", "CON"]),
        "cb_cancels": r.random() < 0.3,
        "term_pos": r.randrange(0, n + 1),
        "term_gap": r.choice(GAPS[:4]),
        "trail": r.choice([0, 2]),
        "class": "random",
    }


def run_script(sc, seed, rep, case):
    from harness import scenario, simnet, refcodec as rc, vloop
    import asyncio
    import aiocoap
    from aiocoap import error

    box = {}
    if sc.get("cb_cancels") and (sc["consumer"] != "cb" or not sc["term"].startswith("final")):
        sc["cb_cancels"] = False
    if sc.get("cb_cancels"):
        sc["late"] = None  # (a second consumer on an observation the first one cancels: not this check's subject)
    if "late" not in sc:
        # a second consumer that attaches later: right after the first response was awaited (the usual pattern with
        # `await rq.response` followed by `async for`), somewhere during the script, or after everything happened
        lr = random.Random(seed * 2654435761 % 2**32)
        sc["late"] = lr.choice([None, ("after-response", "iter"), ("after-response", "cb"), ("mid", "iter"), ("mid", "cb"), ("after-all", "iter"), ("after-all", "cb")])
        sc["late_frac"] = lr.random()

    async def main(loop):
        net = simnet.SimNet(loop)
        C = simnet.addr("10.0.0.2", 40001)
        P = simnet.addr("10.0.0.1", 5683)
        state = {"token": None}
        sends = []  # (id, v or None, type, kind)

        def send_notif(peer, ident, v, typ, code=rc.c(2, 5), kind="notif"):
            opts = ((6, rc.uint_bytes(v)),) if v is not None else ()
            sends.append({"id": ident, "v": v, "kind": kind, "t": loop.time() + 0.001})
            peer.send(C, rc.Msg(rc.CON if typ == "CON" else rc.NON, code, peer.next_mid(), state["token"], opts, ident.encode()))

        def on_msg(peer, src, m, raw):
            if m is None or not rc.is_request(m.code) or state["token"] is not None:
                return
            state["token"] = m.token
            if sc.get("no_first"):
                # the registration request bounces: a transport error instead of any response
                net.inject_error(C, P, 111, delay=0.0)
                state["t_total"] = 1.0
                return
            opts = ((6, rc.uint_bytes(sc["first"])),) if sc["first"] is not None else ()
            sends.append({"id": "first", "v": sc["first"], "kind": "first", "t": loop.time() + 0.001})
            peer.send(src, rc.Msg(rc.ACK, rc.c(2, 5), m.mid, m.token, opts, b"first"))
            if sc.get("early_final") and sc["first"] is not None:
                # the terminating response follows the first response back to back
                code = rc.c(2, 5) if sc["early_final"] == "2.05" else rc.c(4, 4)
                send_notif(peer, "final", None, sc.get("term_type", "NON"), code, "final")
                state["t_total"] = 1.0
                return
            # schedule the script
            t = 0.5
            items = [("n%d" % i, n) for i, n in enumerate(sc["notifs"])]
            pos = 0
            for i in range(len(items) + 1):
                if sc["term"] != "none" and i == sc["term_pos"]:
                    t += sc["term_gap"]
                    if sc["term"] == "icmp":
                        net.inject_error(C, P, 111, delay=t)
                        sends.append({"id": "icmp", "v": None, "kind": "icmp", "t": loop.time() + t})
                    else:
                        code = rc.c(2, 5) if sc["term"] == "final-2.05" else rc.c(4, 4)
                        loop.call_later(t, send_notif, peer, "final", None, sc.get("term_type", "NON"), code, "final")
                if i < len(items):
                    ident, n = items[i]
                    t += n["gap"]
                    loop.call_later(t, send_notif, peer, ident, n["v"], n["type"])
            for j in range(sc["trail"]):
                t += 1.0
                loop.call_later(t, send_notif, peer, "trail%d" % j, 5000 + j, "CON" if j % 2 == 0 else "NON", rc.c(2, 5), "trail")
            state["t_total"] = t

        peer = simnet.RawPeer(net, "10.0.0.1", 5683, on_msg)
        cli = await simnet.make_context(net, "10.0.0.2", 40001, None, server=False)
        rq = cli.request(aiocoap.Message(code=aiocoap.GET, uri="coap://10.0.0.1/obs", observe=0), handle_blockwise=(sc["path"] == "default"))
        delivered = []  # (t, id)
        terminal = []  # (t, repr, type)
        if sc["consumer"] == "cb":
            def on_notification(m):
                delivered.append((loop.time(), bytes(m.payload).decode(), m.opt.observe))
                if sc.get("cb_cancels") and m.opt.observe is None and delivered[-1][1] == "final":
                    # an application that is done with the observation once it has seen the final response
                    rq.observation.cancel()

            rq.observation.register_callback(on_notification)
            rq.observation.register_errback(lambda e: terminal.append((loop.time(), type(e).__name__, e)))
            consumer_task = None
        elif sc["consumer"] == "iter-poll":

            async def consume():
                # an application that polls the iterator with a time-out of its own
                it = rq.observation.__aiter__()
                spurious = 0
                while True:
                    try:
                        m = await asyncio.wait_for(it.__anext__(), sc.get("poll", 0.7))
                    except asyncio.TimeoutError:
                        continue
                    except StopAsyncIteration:
                        terminal.append((loop.time(), "StopAsyncIteration", None))
                        return
                    except asyncio.CancelledError:
                        if asyncio.current_task().cancelling():
                            raise
                        spurious += 1  # nobody cancelled this task
                        if spurious > 50:
                            terminal.append((loop.time(), "spurious-CancelledError", None))
                            return
                        await asyncio.sleep(0.01)
                        continue
                    except Exception as e:
                        terminal.append((loop.time(), type(e).__name__, e))
                        return
                    delivered.append((loop.time(), bytes(m.payload).decode(), m.opt.observe))

            consumer_task = asyncio.ensure_future(consume())
        else:

            async def consume():
                try:
                    async for m in rq.observation:
                        delivered.append((loop.time(), bytes(m.payload).decode(), m.opt.observe))
                    terminal.append((loop.time(), "StopAsyncIteration", None))
                except asyncio.CancelledError:
                    raise
                except Exception as e:
                    terminal.append((loop.time(), type(e).__name__, e))

            consumer_task = asyncio.ensure_future(consume())
        first = None
        try:
            resp = await asyncio.wait_for(asyncio.shield(rq.response), 30)
            first = ("response", bytes(resp.payload).decode(), resp.opt.observe)
        except Exception as e:
            first = ("exception", type(e).__name__, e)
        late_delivered, late_terminal, late_task, late_attached = [], [], [None], []

        def attach_late():
            late_attached.append(loop.time())
            try:
                if sc["late"][1] == "cb":
                    rq.observation.register_callback(lambda m: late_delivered.append((loop.time(), bytes(m.payload).decode(), m.opt.observe)))
                    rq.observation.register_errback(lambda e: late_terminal.append((loop.time(), type(e).__name__, e)))
                else:

                    async def consume_late():
                        try:
                            async for m in rq.observation:
                                late_delivered.append((loop.time(), bytes(m.payload).decode(), m.opt.observe))
                            late_terminal.append((loop.time(), "StopAsyncIteration", None))
                        except asyncio.CancelledError:
                            raise
                        except Exception as e:
                            late_terminal.append((loop.time(), type(e).__name__, e))

                    late_task[0] = asyncio.ensure_future(consume_late())
            except Exception as e:  # attaching itself failed
                late_terminal.append((loop.time(), "attach:" + type(e).__name__, e))

        total = state.get("t_total", 1.0)
        if sc["late"] is not None:
            if sc["late"][0] == "after-response":
                attach_late()
            elif sc["late"][0] == "mid":
                loop.call_later(sc["late_frac"] * (total + 2.0), attach_late)
            else:
                loop.call_later(total + 10.0, attach_late)
        await asyncio.sleep(total + 50.0)
        calls_before = vloop.time_calls
        box.update(net=net, C=C, P=P, sends=sends, delivered=list(delivered), terminal=list(terminal), first=first, token=state["token"], late_delivered=list(late_delivered), late_terminal=list(late_terminal), late_attached=list(late_attached))
        if consumer_task is not None and not consumer_task.done():
            consumer_task.cancel()
        if late_task[0] is not None and not late_task[0].done():
            late_task[0].cancel()
        await cli.shutdown()
        return True

    from harness import vloop as _v

    before = _v.time_calls
    res = scenario.run(main, seed, horizon=1e7)
    box["clock_calls"] = _v.time_calls - before
    if not res.ok:
        if res.horizon:
            rep.inconc("horizon")
        else:
            rep.violation("scenario-failed", "observation scenario did not complete: hang=%r error=%r" % (res.hang, res.error), {"script": repr(sc), "tb": rep.exception_witness(res.error) if res.error else None}, case)
        return
    judge(sc, box, res, rep, case)


def judge(sc, box, res, rep, case):
    from harness import refcodec as rc

    net, C, P = box["net"], box["C"], box["P"]
    wit = lambda **kw: dict(script=repr(sc), arrivals=[(a["id"], a["v"], round(a["t"], 6)) for a in box["sends"]], delivered=[(round(t, 6), i, v) for t, i, v in box["delivered"]], terminal=[(round(t, 6), n) for t, n, _ in box["terminal"]], first=box["first"], **kw)
    if box["clock_calls"] > 0:
        rep.monitor("clock_consulted")
    # arrivals in the order the datagrams were really delivered to the client (wire log), not the order scripted
    arrivals = []
    for e in net.log:
        if e.kind == "deliver" and e.dst == C and e.msg is not None and rc.is_response(e.msg.code) and e.msg.token == box["token"]:
            ident = e.msg.payload.decode()
            o = rc.opt1(e.msg, 6)
            kind = "first" if ident == "first" else "final" if ident == "final" else "trail" if ident.startswith("trail") else "notif"
            arrivals.append({"id": ident, "v": rc.uint_value(o) if o is not None else None, "kind": kind, "t": e.t, "seq": e.seq})
        elif e.kind == "error" and e.dst == C:
            arrivals.append({"id": "icmp", "v": None, "kind": "icmp", "t": e.t, "seq": e.seq})
    box["sends"] = arrivals
    # where does the observation end?
    end_idx = None
    end_kind = None
    if sc["first"] is None:
        end_idx, end_kind = 0, "not-observable"
    else:
        for i, a in enumerate(arrivals):
            if a["kind"] == "final":
                end_idx, end_kind = i, "final"
                break
            if a["kind"] == "icmp":
                end_idx, end_kind = i, "icmp"
                break
    live = arrivals if end_idx is None else arrivals[: end_idx + 1]
    if sc.get("no_first"):
        # a transport failure before any response: the request fails with a network error, and so does the
        # observation (exactly once); nothing is delivered
        from aiocoap import error

        rep.monitor("terminal_signal")
        rep.monitor("failure_before_first_response")
        term = box["terminal"]
        if box["first"][0] != "exception" or not isinstance(box["first"][2], error.NetworkError):
            rep.violation("no-first/request-outcome", "the registration request bounced, but the request did not fail with a network error", wit(), case)
        elif box["delivered"]:
            rep.violation("no-first/delivery", "something was delivered although no response ever arrived", wit(), case)
        elif len(term) != 1:
            rep.violation("no-first/terminal-signals-%d/%s-%s" % (len(term), sc["path"], sc["consumer"]), "the observation's end was signalled %d times instead of exactly once" % len(term), wit(), case)
        elif not isinstance(term[0][2], error.NetworkError):
            rep.violation("no-first/wrong-terminal-kind/%s-%s" % (sc["path"], sc["consumer"]), "transport failure before the first response: the observation ended with %s instead of a network error" % term[0][1], wit(), case)
        return
    # ---- first response ----
    if box["first"][0] != "response" or box["first"][1] != "first":
        rep.violation("first-response-not-delivered", "the request's response future did not yield the first response", wit(), case)
        return
    # ---- delivered sequence (first response + callbacks) ----
    D = [("first", sc["first"])] + [(i, v) for _, i, v in box["delivered"]]
    ids = [a["id"] for a in live if a["kind"] != "icmp"]
    rep.monitor("freshness_order")
    # subsequence of arrivals (before the end)
    pos = -1
    info = {a["id"]: a for a in arrivals}
    for ident, _ in D:
        if ident not in ids:
            rep.violation("delivered-after-end-or-unknown", "something was handed to the application that did not arrive before the observation's end", wit(item=ident), case)
            return
        p = ids.index(ident, pos + 1) if ident in ids[pos + 1 :] else None
        if p is None:
            rep.violation("delivery-out-of-arrival-order", "deliveries are not a subsequence of the arrivals (reordered or delivered twice)", wit(item=ident), case)
            return
        pos = p
    gids_all = []
    if sc["first"] is not None:
        # reference chain G: greedy application of the section 3.4 predicate to the arrivals (each accepted one
        # becomes the new reference). Deliveries must be a subsequence of G; a lossy consumer may skip members.
        G = []
        last = info["first"]
        used_time_clause = False
        for a in live:
            if a["kind"] not in ("notif", "trail"):
                continue
            if fresh(last["v"], last["t"], a["v"], a["t"]):
                if a["t"] > last["t"] + 128 and not ((last["v"] < a["v"] and a["v"] - last["v"] < 2**23) or (last["v"] > a["v"] and last["v"] - a["v"] > 2**23)):
                    used_time_clause = True
                G.append(a)
                last = a
        if used_time_clause:
            rep.monitor("time_clause_exercised")
        gi = -1
        gids = [g["id"] for g in G]
        gids_all = gids
        gpos = {}
        for k, a in enumerate(live):
            gpos.setdefault(id(a), k)
        delivered_notifs = [ident for ident, _ in D[1:] if info_kind(live, ident) != "final"]
        # map deliveries to positions in `live` (ids may repeat when values repeat: ids are unique per datagram)
        chain_ids = gids
        p = -1
        for ident in delivered_notifs:
            if ident in chain_ids[p + 1 :]:
                p = chain_ids.index(ident, p + 1)
            else:
                a = next(x for x in live if x["id"] == ident)
                rep.violation("stale-notification-delivered", "a notification was handed over although it is not fresher (RFC 7641 section 3.4 applied along the arrivals) than the one before it", wit(item=(a["id"], a["v"], a["t"]), chain=[(g["id"], g["v"]) for g in G]), case)
                return
        if sc["consumer"] == "cb" and sc["path"] == "raw":
            rep.count("cb_delivered_every_fresh" if delivered_notifs == chain_ids else "cb_skipped_some_fresh")
        # nothing fresher left undelivered (only while the observation is still alive at the end of the run)
        if end_kind is None:
            rep.monitor("nothing_fresher_left")
            if G and (not delivered_notifs or delivered_notifs[-1] != G[-1]["id"]):
                rep.violation("fresher-notification-never-delivered/%s-%s" % (sc["path"], sc["consumer"]), "the freshest notification that arrived was never handed over although the observation stayed alive", wit(freshest=(G[-1]["id"], G[-1]["v"], G[-1]["t"])), case)
                return
    # ---- terminal signal ----
    rep.monitor("terminal_signal")
    term = box["terminal"]
    names = [n for _, n, _ in term]
    key_sfx = "%s-%s" % (sc["path"], sc["consumer"])
    if end_kind is None:
        if term:
            rep.violation("spurious-terminal-signal/" + key_sfx, "the observation was signalled as ended although nothing ended it", wit(), case)
            return
    elif sc.get("cb_cancels") and end_kind == "final":
        # the application cancelled the observation itself while it was handed the final response: it may or may
        # not be told once more that it is over
        rep.monitor("cancelled_in_callback")
        if len(term) > 1:
            rep.violation("terminal-signals-%d/%s/%s" % (len(term), end_kind, key_sfx), "the observation's end was signalled %d times" % len(term), wit(), case)
            return
    else:
        if len(term) != 1:
            rep.violation("terminal-signals-%d/%s/%s" % (len(term), end_kind, key_sfx), "the observation's end was signalled %d times instead of exactly once" % len(term), wit(), case)
            return
        n = names[0]
        want = {"not-observable": ("NotObservable", "StopAsyncIteration"), "final": ("ObservationCancelled", "StopAsyncIteration"), "icmp": ("NetworkError",)}[end_kind]
        ok = n in want
        if end_kind == "icmp":
            from aiocoap import error

            ok = isinstance(term[0][2], error.NetworkError)
        if sc["consumer"] == "cb" and n == "StopAsyncIteration":
            ok = False
        if not ok:
            rep.violation("wrong-terminal-kind/%s/%s" % (end_kind, key_sfx), "the observation ended with %s; expected %s" % (n, "/".join(want)), wit(), case)
            return
        if end_kind == "final":
            # the final response is delivered, then the cancellation
            if not D or D[-1][0] != "final":
                rep.violation("final-response-not-delivered/" + key_sfx, "a response without Observe option ended the observation, but it was not handed over before the cancellation signal", wit(), case)
                return
        if end_kind == "not-observable" and len(D) > 1:
            rep.violation("delivery-on-unobservable", "notifications were delivered although the first response carried no Observe option", wit(), case)
            return
        # nothing delivered after the terminal signal
        t_end = term[0][0]
        if any(t > t_end + 1e-9 for t, _, _ in box["delivered"]):
            rep.violation("delivered-after-terminal-signal", "a notification was delivered after the end had been signalled", wit(), case)
            return
    # ---- the consumer that attached late ----
    if sc.get("late") is not None and box.get("late_attached"):
        rep.monitor("late_consumer")
        lterm = box["late_terminal"]
        lkey = "%s-%s-%s" % (sc["path"], sc["late"][0], sc["late"][1])
        lwit = lambda **kw: wit(late=sc["late"], late_attached=box["late_attached"], late_delivered=[(round(t, 6), i, v) for t, i, v in box["late_delivered"]], late_terminal=[(round(t, 6), n) for t, n, _ in lterm], **kw)
        if end_kind is None:
            if lterm:
                rep.violation("late-consumer/spurious-terminal-signal/" + lkey, "a consumer that attached later was signalled an end although nothing ended the observation", lwit(), case)
                return
        else:
            if len(lterm) != 1:
                rep.violation("late-consumer/terminal-signals-%d/%s/%s" % (len(lterm), end_kind, lkey), "the observation's end was signalled %d times instead of exactly once to a consumer that attached later" % len(lterm), lwit(), case)
                return
            n = lterm[0][1]
            want = {"not-observable": ("NotObservable", "StopAsyncIteration"), "final": ("ObservationCancelled", "StopAsyncIteration"), "icmp": ("NetworkError",)}[end_kind]
            ok = n in want
            if end_kind == "icmp":
                from aiocoap import error

                ok = isinstance(lterm[0][2], error.NetworkError)
            if sc["late"][1] == "cb" and n == "StopAsyncIteration":
                ok = False
            if not ok:
                rep.violation("late-consumer/wrong-terminal-kind/%s/%s" % (end_kind, lkey), "a consumer that attached later saw the observation end with %s; expected %s" % (n, "/".join(want)), lwit(), case)
                return
            if any(t > lterm[0][0] + 1e-9 for t, _, _ in box["late_delivered"]):
                rep.violation("late-consumer/delivered-after-terminal-signal", "a notification was delivered to a late consumer after the end had been signalled to it", lwit(), case)
                return
        # what it was handed is a freshness-ordered subsequence of the arrivals, too
        allowed = ["first"] + (gids_all if sc["first"] is not None else []) + ["final"]
        p = -1
        for _, ident, _v in box["late_delivered"]:
            if ident in allowed[p + 1 :] and ident in ids:
                p = allowed.index(ident, p + 1)
            else:
                rep.violation("late-consumer/stale-or-unknown-delivery", "a consumer that attached later was handed something that is not a freshness-ordered subsequence of the arrivals before the end", lwit(item=ident), case)
                return
    # ---- wire: confirmable notifications (the final response included) up to the end are acknowledged ----
    seq_lim = arrivals[end_idx]["seq"] if end_idx is not None else float("inf")  # (wire-log position: ties at one instant)
    for e in net.log:
        if e.kind == "deliver" and e.dst == C and e.msg is not None and e.msg.type == rc.CON and rc.is_response(e.msg.code) and e.msg.token == box["token"] and e.seq <= seq_lim:
            rep.monitor("con_notification_acknowledged")
            out = [s_ for s_ in net.log if s_.kind == "send" and s_.cause == e.seq]
            if not (len(out) == 1 and out[0].msg is not None and out[0].msg.type == rc.ACK and out[0].msg.code == 0 and out[0].msg.mid == e.msg.mid):
                rep.violation("con-notification-not-acknowledged/%s" % ("final" if not rc.opt(e.msg, 6) else "notification"), "a confirmable response belonging to the live observation was not answered with exactly one empty ACK", wit(event=e.brief(), emitted=[s_.brief() for s_ in out]), case)
                return
    # ---- wire: notifications after the end are rejected like unknown responses ----
    if end_idx is not None:
        rep.monitor("after_end_wire")
        t_end_arr = arrivals[end_idx]["t"]
        for e in net.log:
            if e.kind == "deliver" and e.dst == C and e.msg is not None and rc.is_response(e.msg.code) and e.msg.token == box["token"] and e.t > t_end_arr + 1e-9:
                out = [s for s in net.log if s.kind == "send" and s.cause == e.seq]
                if e.msg.type == rc.CON:
                    if not (len(out) == 1 and out[0].msg is not None and out[0].msg.type == rc.RST and out[0].msg.mid == e.msg.mid):
                        rep.violation("late-con-notification-not-reset/" + end_kind, "a confirmable notification arriving after the observation had ended was not answered with a Reset", wit(event=e.brief(), emitted=[s.brief() for s in out]), case)
                        return
                elif out:
                    rep.violation("late-non-notification-answered", "a non-confirmable notification after the end produced output", wit(event=e.brief()), case)
                    return
    if res.loop_exceptions:
        rep.violation("loop-exception/" + str(res.loop_exceptions[0].get("exc_type")), "an exception reached the event loop", wit(loop=res.loop_exceptions[:2]), case)
    if res.unraisable:
        rep.count("unraisable_reports", len(res.unraisable))
    vals = [n["v"] for n in sc["notifs"]]
    order = tuple(sorted(range(len(vals)), key=lambda i: vals[i]))
    sig = (sc["path"], sc["consumer"], sc["first"] is None, order, tuple(min(int(n["gap"]), 200) for n in sc["notifs"]), tuple(v >= 2**23 for v in vals), sc["term"], sc["term_pos"], sc["term_gap"] == 0.0)
    stale = len(D) - 1 < len([a for a in live if a["kind"] == "notif"])
    rep.case(sig, nontrivial=stale or end_kind is not None)


def info_kind(live, ident):
    for a in live:
        if a["id"] == ident:
            return a["kind"]
    return None


def run_shard(shard, rep, only=None):
    from harness import vloop

    vloop.install_time()
    import aiocoap  # noqa

    r = random.Random(shard["seed"])
    n = 0
    for sc in scripts(r, shard["tier"], shard["index"], shard["of"]):
        case = ["perm", n]
        n += 1
        if only is not None and only != case:
            continue
        run_script(sc, shard["seed"] * 65537 + n, rep, case)
        if n <= 1 and shard["index"] == 0:
            rep.sample({"class": "permutation-script", "script": sc})
    for j, sc in enumerate(special_scripts()):
        if j % shard["of"] != shard["index"] % 16:
            continue
        case = ["special", j]
        if only is not None and only != case:
            continue
        run_script(dict(sc), shard["seed"] * 31 + j, rep, case)
    for k in range(shard["extra"]):
        sc = window_script(r) if k % 3 == 0 else random_script(r)
        case = ["rand", k]
        if only is not None and only != case:
            continue
        run_script(sc, shard["seed"] * 104729 + k, rep, case)
