"""C07 — observe client: deliveries in RFC 7641 section 3.4 freshness order, one terminal signal,
nothing after the end, later notifications rejected like unknown responses."""

import itertools
import random

ID = "C07"
LEVEL = "exploration"
TECHNIQUE = "runtime monitoring on a virtual-time simulated network: scripted raw notifier (Observe values around 2^23 / 2^24 wrap, inter-arrival gaps around 128 s, CON/NON, duplicates, all permutations of up to 5 notifications, back-to-back deliveries in one loop iteration, a terminating response or transport error at every position; block-wise representations: block 0 of every version pushed with the Observe option, the later blocks fetched by the client and answered from the version current at that moment with an ETag per version, versions replaced at offsets of 0 to 5 ms into a transfer, pushes delayed and repeated by the network; the application cancelling the observation before the first response, while its blocks are fetched, right after it, between and inside deliveries; the peer taking 0 / 3 ms / 0.5 s over each block request, with confirmable and non-confirmable notifications (of the same or a new representation) arriving inside the first response's block transfer after the application's cancel); oracle = reference implementation of the section 3.4 predicate over (Observe value, virtual arrival time) applied to the recorded callback / iteration history, whole-representation comparison of what is handed over, plus wire reactions after the end, where 'after' is the position in the wire log relative to the arrival that ended the observation or to the moment the application was told / said that it is over"
LEVEL_TEXT = "All permutations of notification sequences up to length 5 over boundary Observe values and arrival gaps (exhaustive per value set) and sampled longer ones are delivered to the real client through both consumer interfaces and both request paths; the delivered sequence, the terminal signal and the reactions after the end are judged against the reference predicate. Block-wise observations (first response and notifications of 1 to 4 blocks, representation replaced during a transfer or not, all ends: terminating response, transport error, a transfer that saw two representations reported as the request's / observation's error, cancellation by the application at six kinds of moments, notifications arriving inside the first response's block transfer after such a cancellation) are sampled per seed plus one deterministic script per (mechanism, request path, consumer); every confirmable notification after a signalled end must be answered with a Reset."
LEVEL_NOTE = "Trusted: the freshness predicate and the judge in checks/c07.py, harness/vloop.py (time.time is virtual), simnet, refcodec. Exact delivery of every fresh notification is not demanded (the iterator is lossy by design); only subsequence + freshness + 'nothing fresher left undelivered'. Whether a block-wise observation may end with the error of a transfer that saw two representations (ResourceChanged) the statement leaves open: such ends are counted (notification_assembly_failed_end), accepted only when the wire log shows a transfer whose blocks carry different ETags, and from then on judged like every other end. Block counts never decrease along one script and a 4.04 is kept clear of transfers (a non-block-wise answer to a block fetch is C05's subject)."
RULE = (
    "one case = one observation: (request path raw/default, consumer callback/iteration, first response with/without Observe, sequence of (Observe value, gap, CON/NON), terminator kind, type (CON/NON) and position, trailing notifications, whether the callback consumer cancels the observation when it is handed the final response; for block-wise scripts also block size, blocks and last-block length per version, offset of each version change, network delay / repetition per push, whether a push announces the unchanged representation again, the peer's delay per block request, moment of an application-side cancellation). "
    "Non-trivial = at least one notification was stale/duplicated/reordered or a terminator occurred; distinct = distinct tuples of (path, consumer, value-order pattern, gap classes, terminator, position; block counts, half-millisecond gap classes, cancellation moment, kind of end)"
)
ASSUMPTIONS = ["one-way latency 1 ms; datagrams with gap 0 are delivered back-to-back in one event-loop iteration", "OBSERVATION_RESET_TIME is 128 s (default tuning)", "block-wise scripts: a newer representation is announced with a fresher Observe value (staleness there comes from delayed / repeated datagrams only); the peer answers block fetches piggy-backed from the current version"]
_BASE_MONITORS = {"failure_before_first_response": 4, "late_consumer": 100, "freshness_order": 800, "nothing_fresher_left": 300, "terminal_signal": 800, "after_end_wire": 200, "time_clause_exercised": 20, "clock_consulted": 1, "con_notification_acknowledged": 300, "cancelled_in_callback": 20}
REQUIRED_MONITORS = {
    "quick": dict(_BASE_MONITORS, blockwise_observation=250, blockwise_body=600, blockwise_first_assembled=80, blockwise_notification_assembled=150, first_response_assembly_failed=12, notification_assembly_failed_end=15, cancelled_before_first_response=50, cancelled_by_application=70, after_signalled_end_wire=120, con_after_signalled_end=400, push_in_first_transfer_after_cancel=40),
    "thorough": dict(_BASE_MONITORS, blockwise_observation=30000, blockwise_body=80000, blockwise_first_assembled=8000, blockwise_notification_assembled=15000, first_response_assembly_failed=1500, notification_assembly_failed_end=1500, cancelled_before_first_response=5000, cancelled_by_application=7000, after_signalled_end_wire=10000, con_after_signalled_end=40000, push_in_first_transfer_after_cancel=3000),
}
EXHAUSTIVE = {"permutations": "all orders of each base value set (length <= 5) for every consumer/path", "blockwise_mechanisms": "one deterministic block-wise script per (mechanism: change during the first transfer / during a notification's transfer, cancellation before the first response / during its transfer / after it / between / inside deliveries, notifications inside the first transfer after a cancellation with a peer slow by 3 ms / 0.5 s per block, undisturbed with each terminator) x request path x consumer"}

VALUE_SETS = [
    [1, 2, 3],
    [1, 2, 3, 4],
    [5, 5, 6],
    [0, 1, 2**23 - 1, 2**23, 2**23 + 1],
    [2**24 - 2, 2**24 - 1, 0, 1],
    [10, 2**23 + 9, 2**23 + 10, 2**23 + 11],
    [2**24 - 1, 0, 2**23],
    [100, 50, 75, 25, 125],
    [2**24 - 1, 0, 1, 0],  # the value 0 again after the wrap-around
    [3, 5, 0, 0],
]
GAPS = [0.0, 1e-6, 1.0, 127.9, 128.1, 10000.0]


def fresh(v1, t1, v2, t2):
    return (v1 < v2 and v2 - v1 < 2**23) or (v1 > v2 and v1 - v2 > 2**23) or (t2 > t1 + 128)


def plan(tier, seed):
    n = 16
    return [{"name": "c07-%d" % i, "seed": seed * 1000 + i, "index": i, "of": n, "tier": tier, "extra": {"quick": 40, "thorough": 5000}[tier], "bw": {"quick": 18, "thorough": 2500}[tier]} for i in range(n)]


def scripts(r, tier, idx, of):
    """yield script dicts; the permutation part is split over shards"""
    k = 0
    for vs in VALUE_SETS:
        for perm in sorted(set(itertools.permutations(vs))):
            for path, consumer in (("raw", "cb"), ("raw", "iter"), ("default", "cb"), ("default", "iter")):
                k += 1
                if k % of != idx:
                    continue
                if tier == "quick" and len(vs) >= 5 and r.random() > 0.25:
                    continue
                gaps = [r.choice(GAPS[:3]) for _ in perm]
                term = r.choice(["none", "final-2.05", "final-4.04", "icmp", "none"])
                yield {"path": path, "consumer": consumer, "first": r.choice([0, 0, 0, 0, 0, 7, 2**24 - 3, 2**24 - 3, None]), "notifs": [{"v": v, "gap": g, "type": r.choice(["NON", "CON"])} for v, g in zip(perm, gaps)], "term": term, "term_pos": r.randrange(0, len(perm) + 1), "term_gap": r.choice([0.0, 1e-6, 1.0]), "trail": 2, "class": "perm"}


def window_script(r):
    """accepted notification, then stale / duplicate stragglers inside the 128 s window, then notifications that are
    fresh only by the time clause (counter reset): the window is measured from the last ACCEPTED one"""
    base = r.choice([100, 5000, 2**23 + 50, 2**24 - 10])
    notifs = [{"v": base, "gap": 1.0, "type": r.choice(["NON", "CON"])}]
    t_since = 0.0
    for _ in range(r.randrange(1, 4)):
        g = r.choice([30.0, 60.0, 100.0, 127.0 - t_since if t_since < 100 else 1.0])
        g = max(0.5, min(g, 127.5 - t_since))
        t_since += g
        notifs.append({"v": (base - r.randrange(0, 20)) % 2**24, "gap": g, "type": r.choice(["NON", "CON"])})
    # first one that is only fresh because more than 128 s passed since the accepted one
    g = 128.5 - t_since + r.choice([0.0, 5.0, 20.0])
    low = r.randrange(0, 50)
    notifs.append({"v": (base - 80 - low) % 2**24, "gap": g, "type": r.choice(["NON", "CON"])})
    notifs.append({"v": (base - 79 - low) % 2**24, "gap": r.choice([1.0, 10.0]), "type": r.choice(["NON", "CON"])})
    return {"path": r.choice(["raw", "default"]), "consumer": r.choice(["cb", "iter"]), "first": (base - 1) % 2**24, "notifs": notifs, "term": "none", "term_pos": 0, "term_gap": 1.0, "trail": 0, "class": "window"}


def special_scripts():
    """transport failure instead of a first response; terminating response back to back with the first response"""
    out = []
    for path in ("raw", "default"):
        for consumer in ("cb", "iter", "iter-poll"):
            out.append({"path": path, "consumer": consumer, "first": 0, "no_first": True, "notifs": [], "term": "none", "term_pos": 0, "term_gap": 0.0, "trail": 0, "class": "no-first"})
            # ... or the peer answers the registration request with a Reset
            out.append({"path": path, "consumer": consumer, "first": 0, "no_first": "rst", "notifs": [], "term": "none", "term_pos": 0, "term_gap": 0.0, "trail": 0, "class": "no-first-rst"})
            for ef in ("2.05", "4.04"):
                out.append({"path": path, "consumer": consumer, "first": 0, "early_final": ef, "notifs": [], "term": "final-" + ef, "term_pos": 0, "term_gap": 0.0, "trail": 2, "class": "early-final"})
        # the application cancels the observation from inside the callback that hands it the final response
        for ef in ("2.05", "4.04"):
            for tt in ("CON", "NON"):
                for pos in (0, 1, 2):
                    out.append({"path": path, "consumer": "cb", "first": 0, "notifs": [{"v": 1 + k, "gap": 1.0, "type": "CON" if k else "NON"} for k in range(2)], "term": "final-" + ef, "term_type": tt, "cb_cancels": True, "late": None, "term_pos": pos, "term_gap": 1.0, "trail": 2, "class": "cb-cancels"})
    return out


def random_script(r):
    n = r.randrange(1, 9)
    base = r.choice([0, 1000, 2**23 - 3, 2**24 - 4])
    vals = [(base + r.randrange(0, 6)) % 2**24 for _ in range(n)]
    if r.random() < 0.3:
        vals = [r.choice([0, 1, 2**23 - 1, 2**23, 2**23 + 1, 2**24 - 1]) for _ in range(n)]
    return {
        "path": r.choice(["raw", "default"]),
        "consumer": r.choice(["cb", "iter", "iter-poll"]),
        "poll": r.choice([0.3, 0.7, 5.0, 200.0]),
        "first": r.choice([0, 0, 0, 7, None]),
        "notifs": [{"v": v, "gap": r.choice(GAPS), "type": r.choice(["NON", "CON"])} for v in vals],
        "term": r.choice(["none", "final-2.05", "final-4.04", "icmp"]),
        "term_type": r.choice(["NON", "CON"]),
        "cb_cancels": r.random() < 0.3,
        "term_pos": r.randrange(0, n + 1),
        "term_gap": r.choice(GAPS[:4]),
        "trail": r.choice([0, 2]),
        "class": "random",
    }


# ---- block-wise representations (RFC 7959 section 2.6 / RFC 7641 section 3.6) -------------------------------------------------
# The scripted peer holds one resource whose representation changes at every scripted notification ("version"). Block 0
# of a version is pushed with the Observe option; the later blocks are fetched by the client with ordinary GETs carrying
# Block2 and are answered from the version current at that moment (ETag per version). One way takes 1 ms: block 0 sent
# at T is followed by the fetch of block k arriving at the peer at T + 2k ms, so a change within a few ms of a push hits
# the transfer. Block counts never decrease along a script: a fetch beyond the end of a shorter representation would be
# answered by a non-block-wise 4.xx, which is the block-wise client's business (C05), not the observation's.
BW_RACE_GAPS = [0.0, 0.0005, 0.001, 0.0015, 0.002, 0.0025, 0.003, 0.004, 0.005]
BW_CALM_GAPS = [0.02, 1.0, 1.0, 5.0, 127.9, 128.1]
BW_FLAVOURS = ["first-race", "first-race", "notif-race", "notif-race", "cancel-before-first", "cancel-before-first", "cancel-first-window", "cancel-first-window", "cancel-later", "free", "free"]
BW_BLOCK_DELAYS = [0.0, 0.003, 0.5]  # how long the peer takes over a block request


def bw_script(r, flavour=None, path=None, consumer=None):
    flavour = flavour or r.choice(BW_FLAVOURS)
    szx = r.choice([0, 0, 0, 1, 2])
    size = 16 << szx
    n = r.randrange(1, 6)
    nb = r.choice([1, 2, 2, 3]) if flavour != "first-race" else r.choice([2, 2, 3, 4])
    tails = [1, size // 2, size - 1, size]
    base = r.choice([1, 1000, 2**23 - 3, 2**24 - 4])
    first = {"blocks": nb, "tail": r.choice(tails)}
    notifs = []
    v = base
    race_at = r.randrange(0, n) if flavour == "notif-race" else None
    for k in range(n):
        if flavour == "first-race" and k == 0:
            gap = r.choice(BW_RACE_GAPS)
        elif race_at is not None and k == race_at + 1:
            gap = r.choice(BW_RACE_GAPS)
        elif flavour == "free":
            gap = r.choice(BW_RACE_GAPS + BW_CALM_GAPS)
        else:
            gap = r.choice(BW_CALM_GAPS[:4]) if r.random() < 0.85 else r.choice(BW_CALM_GAPS)
        nb = min(4, nb + r.choice([0, 0, 0, 1]))
        if race_at is not None and k == race_at:
            nb = max(nb, 2)
        v = (v + 1) % 2**24
        if gap > 128 and r.random() < 0.4:
            v = r.randrange(0, 50)  # the counter starts over; fresh by the time clause only
        notifs.append({"v": v, "gap": gap, "type": r.choice(["NON", "CON"]), "blocks": nb, "tail": r.choice(tails), "delay": r.choice([0.0005, 0.002, 0.005]) if r.random() < 0.15 else 0.0, "again": r.choice([0.0005, 0.003, 0.5]) if r.random() < 0.1 else None})
    block_delay = r.choice(BW_BLOCK_DELAYS) if flavour == "free" and r.random() < 0.3 else 0.0
    if flavour == "cancel-first-window":
        # notifications that arrive while the later blocks of the first response are still being fetched (the peer
        # taking its time over block requests keeps that window open), the application having cancelled by then
        block_delay = r.choice(BW_BLOCK_DELAYS)
        first["blocks"] = r.choice([2, 3, 4])
        window = (first["blocks"] - 1) * (0.002 + block_delay)
        inside = sorted(r.choice([0.05, 0.2, 0.35, 0.5, 0.65, 0.8, 0.95]) * window for _ in range(r.randrange(1, 4)))
        head = []
        v = base
        for k, at in enumerate(inside):
            v = (v + 1) % 2**24
            head.append({"v": v, "gap": at - (inside[k - 1] if k else 0.0), "type": r.choice(["CON", "CON", "NON"]), "blocks": first["blocks"], "tail": r.choice(tails), "delay": 0.0, "again": None, "same": r.random() < 0.6})
        for nn in notifs:
            v = (v + 1) % 2**24
            nn["v"] = v
            nn["gap"] = max(nn["gap"], 1.0)
            nn["blocks"] = max(nn["blocks"], first["blocks"])
        notifs = head + notifs
        n = len(notifs)
    if flavour == "notif-race" and race_at == n - 1:
        # the change that hits the last scripted transfer is the first trailing notification
        trail_gap = r.choice(BW_RACE_GAPS)
    else:
        trail_gap = 1.0
    cancel = None
    if flavour == "cancel-first-window":
        cancel = r.choice(["before-first-sync", "before-first-inflight", "first-transfer"])
    elif flavour == "cancel-before-first":
        cancel = r.choice(["before-first-sync", "before-first-inflight", "first-transfer"])
        if cancel == "first-transfer":
            first["blocks"] = max(first["blocks"], r.choice([2, 3, 4]))
    elif flavour == "cancel-later":
        cancel = r.choice(["after-first", "mid", "mid", "in-callback"])
    elif flavour == "free" and r.random() < 0.2:
        cancel = r.choice(["before-first-sync", "before-first-inflight", "first-transfer", "after-first", "mid", "in-callback"])
    term = r.choice(["none", "none", "none", "final-2.05", "final-4.04", "icmp"]) if cancel is None else r.choice(["none", "none", "none", "final-2.05", "icmp"])
    if flavour in ("first-race", "notif-race") and r.random() < 0.5:
        term = "none"
    consumer = consumer or r.choice(["cb", "cb", "iter", "iter-poll"])
    if cancel == "in-callback" and consumer != "cb":
        cancel = "mid"
    return {
        "class": "bw",
        "flavour": flavour,
        "path": path or r.choice(["raw", "default", "default"]),
        "consumer": consumer,
        "poll": r.choice([0.3, 0.7, 5.0]),
        "first": r.choice([(base - 1) % 2**24] * 6 + [None]) if flavour == "free" else (base - 1) % 2**24,
        "bw": {"szx": szx, "first": first, "b2_single": r.random() < 0.3, "final": {"blocks": nb if r.random() < 0.5 else 4, "tail": r.choice(tails)}, "t0": 0.0 if flavour in ("first-race", "cancel-first-window") or r.random() < 0.2 else 0.5, "trail_gap": trail_gap, "block_delay": block_delay},
        "notifs": notifs,
        "term": term,
        "term_type": r.choice(["NON", "CON"]),
        "term_pos": r.randrange(0, n + 1),
        # (a 4.04 makes the peer answer block fetches with a non-block-wise 4.04 from then on: kept clear of transfers)
        "term_gap": 1.0 if term == "final-4.04" else r.choice(BW_RACE_GAPS[1:] + [1.0, 1.0]),
        "cancel": cancel,
        "cancel_frac": r.random(),
        "trail": 5,
    }


def bw_special_scripts():
    """one deterministic script per (mechanism, request path, consumer)"""
    out = []
    for path in ("raw", "default"):
        for consumer in ("cb", "iter", "iter-poll"):
            mk = lambda **kw: dict({"class": "bw", "path": path, "consumer": consumer, "poll": 0.7, "first": 10, "term": "none", "term_type": "NON", "term_pos": 0, "term_gap": 1.0, "cancel": None, "cancel_frac": 0.5, "trail": 5, "late": None}, **kw)
            std = lambda **kw: dict({"szx": 0, "first": {"blocks": 2, "tail": 7}, "b2_single": False, "final": {"blocks": 2, "tail": 16}, "t0": 0.5, "trail_gap": 1.0, "block_delay": 0.0}, **kw)
            N = lambda v, gap, typ, blocks: {"v": v, "gap": gap, "type": typ, "blocks": blocks, "tail": 9, "delay": 0.0, "again": None}
            # the representation changes while the later blocks of the first response are fetched
            for g in (0.0005, 0.0015):
                out.append(mk(flavour="first-race", bw=std(t0=0.0), notifs=[N(11, g, "NON", 2), N(12, 1.0, "CON", 2)]))
            out.append(mk(flavour="first-race", bw=std(t0=0.0, first={"blocks": 3, "tail": 16}), notifs=[N(11, 0.003, "CON", 3), N(12, 1.0, "CON", 3)]))
            # ... while the later blocks of a notification are fetched
            out.append(mk(flavour="notif-race", bw=std(), notifs=[N(11, 1.0, "NON", 2), N(12, 0.0015, "NON", 2), N(13, 1.0, "CON", 2)]))
            out.append(mk(flavour="notif-race", bw=std(), notifs=[N(11, 1.0, "CON", 3), N(12, 0.003, "CON", 3)]))
            out.append(mk(flavour="notif-race", bw=std(first={"blocks": 1, "tail": 12}, trail_gap=0.0005), notifs=[N(11, 1.0, "CON", 2)]))
            # the application gives the observation up before the first response is in
            for c in ("before-first-sync", "before-first-inflight"):
                for fb in (1, 2):
                    out.append(mk(flavour="cancel-before-first", cancel=c, bw=std(first={"blocks": fb, "tail": 12}), notifs=[N(11, 1.0, "CON", 2), N(12, 1.0, "NON", 2)]))
            # ... or later
            out.append(mk(flavour="cancel-later", cancel="after-first", bw=std(), notifs=[N(11, 1.0, "CON", 2), N(12, 1.0, "NON", 2)]))
            out.append(mk(flavour="cancel-later", cancel="mid", cancel_frac=0.3, bw=std(), notifs=[N(11, 1.0, "CON", 2), N(12, 1.0, "NON", 2), N(13, 1.0, "CON", 2)]))
            out.append(mk(flavour="cancel-before-first", cancel="first-transfer", cancel_frac=0.0, bw=std(first={"blocks": 3, "tail": 5}), notifs=[N(11, 0.003, "CON", 3), N(12, 1.0, "CON", 3)]))
            # ... and notifications come in while the later blocks of the first response are still being fetched
            for c in ("before-first-sync", "before-first-inflight", "first-transfer"):
                for d, gaps in ((0.003, (0.002, 0.002, 0.003)), (0.5, (0.1, 0.2, 0.3))):
                    out.append(mk(flavour="cancel-first-window", cancel=c, cancel_frac=0.0, bw=std(t0=0.0, block_delay=d, first={"blocks": 3, "tail": 5}), notifs=[dict(N(11, gaps[0], "CON", 3), same=True), dict(N(12, gaps[1], "NON", 3), same=True), N(13, gaps[2], "CON", 3), N(14, 2.0, "CON", 3)]))
            if consumer == "cb":
                for typ in ("CON", "NON"):
                    out.append(mk(flavour="cancel-later", cancel="in-callback", cancel_frac=0.4, bw=std(), notifs=[N(11, 1.0, "CON", 2), N(12, 1.0, typ, 2), N(13, 1.0, "CON", 2)]))
            # undisturbed block-wise observation, ended by the peer or the transport
            for term in ("none", "final-2.05", "final-4.04", "icmp"):
                out.append(mk(flavour="free", term=term, term_pos=2, term_type="CON", bw=std(), notifs=[N(11, 1.0, "CON", 2), N(12, 1.0, "NON", 3), N(13, 1.0, "CON", 3)]))
    return out


def run_script(sc, seed, rep, case):
    from harness import scenario, simnet, refcodec as rc, vloop
    import asyncio
    import aiocoap
    from aiocoap import error

    box = {}
    if sc.get("cb_cancels") and (sc["consumer"] != "cb" or not sc["term"].startswith("final")):
        sc["cb_cancels"] = False
    if sc.get("cb_cancels") or sc.get("cancel"):
        sc["late"] = None  # (a second consumer on an observation the first one cancels: not this check's subject)
    if "late" not in sc:
        # a second consumer that attaches later: right after the first response was awaited (the usual pattern with
        # `await rq.response` followed by `async for`), somewhere during the script, or after everything happened
        lr = random.Random(seed * 2654435761 % 2**32)
        sc["late"] = lr.choice([None, ("after-response", "iter"), ("after-response", "cb"), ("mid", "iter"), ("mid", "cb"), ("after-all", "iter"), ("after-all", "cb")])
        sc["late_frac"] = lr.random()

    async def main(loop):
        net = simnet.SimNet(loop)
        C = simnet.addr("10.0.0.2", 40001)
        P = simnet.addr("10.0.0.1", 5683)
        state = {"token": None}
        sends = []  # (id, v or None, type, kind)

        bw = sc.get("bw")
        bodies = {}
        if bw:
            size = 16 << bw["szx"]

            def version(ident, blocks, tail, k, same=False):
                head = (ident + ":").encode()
                cur = state.get("cur")
                if same and cur is not None and not cur["gone"]:
                    # the representation as it is, announced once more (RFC 7641 section 4.3: a server also notifies when
                    # the one it sent gets too old): same ETag, same blocks beyond the first (whose first bytes are only
                    # this harness's label of the datagram)
                    body = head + cur["body"][-1:] * (len(cur["body"]) - len(head))
                    bodies[ident] = body
                    return {"ident": ident, "body": body, "etag": cur["etag"], "gone": False}
                # (block counts never decrease in the order the versions really come about: equal timers may fire in either order)
                blocks = state["blocks"] = max(state.get("blocks", 1), blocks)
                n = (blocks - 1) * size + tail if blocks > 1 else max(tail, len(head))
                body = head + b"abcdefghijklmnopqrstuvwxyz"[k % 26 : k % 26 + 1] * (n - len(head))
                bodies[ident] = body
                return {"ident": ident, "body": body, "etag": ident.encode(), "gone": False}

        def send_notif(peer, ident, v, typ, code=rc.c(2, 5), kind="notif", ver=None, delay=0.0, again=None):
            opts = ((6, rc.uint_bytes(v)),) if v is not None else ()
            payload = ident.encode()
            if ver is not None:
                # block 0 of a new representation, which is what block fetches are answered from from now on
                if code == rc.c(4, 4):
                    bodies[ver[0]] = (ver[0] + ":").encode()
                    ver = {"ident": ver[0], "body": bodies[ver[0]], "etag": None, "gone": True}  # (block fetches find nothing any more)
                else:
                    ver = version(*ver)
                state["cur"] = ver
                if code == rc.c(4, 4):
                    payload = ver["body"][:size]
                else:
                    opts += ((4, ver["etag"]),)
                    if len(ver["body"]) > size:
                        opts += ((23, rc.block_bytes(0, True, bw["szx"])),)
                    elif bw["b2_single"]:
                        opts += ((23, rc.block_bytes(0, False, bw["szx"])),)
                    payload = ver["body"][:size]
            sends.append({"id": ident, "v": v, "kind": kind, "t": loop.time() + 0.001})
            msg = rc.Msg(rc.CON if typ == "CON" else rc.NON, code, peer.next_mid(), state["token"], opts, payload)
            peer.send(C, msg, fate=[0.001 + delay] if delay else None)
            if again is not None:
                # the same notification once more (another message: nothing for the message layer to de-duplicate)
                loop.call_later(again, lambda: peer.send(C, msg._replace(mid=peer.next_mid())))

        def serve_block(peer, src, m):
            b = rc.opt1(m, 23)
            if b is None or m.code != 1:
                return
            num, _more, szx = rc.block_value(b)
            cur = state["cur"]
            typ = rc.ACK if m.type == rc.CON else rc.NON
            mid = m.mid if m.type == rc.CON else peer.next_mid()
            chunk = cur["body"][num << (szx + 4) : (num + 1) << (szx + 4)]
            if cur["gone"]:
                peer.send(src, rc.Msg(typ, rc.c(4, 4), mid, m.token, (), b"gone:"))
            elif not chunk:
                state["out_of_range"] = state.get("out_of_range", 0) + 1
                peer.send(src, rc.Msg(typ, rc.c(4, 0), mid, m.token, (), b"range:"))
            else:
                more = ((num + 1) << (szx + 4)) < len(cur["body"])
                peer.send(src, rc.Msg(typ, rc.c(2, 5), mid, m.token, ((4, cur["etag"]), (23, rc.block_bytes(num, more, szx))), chunk))

        def on_msg(peer, src, m, raw):
            if m is not None and rc.is_request(m.code) and state["token"] is not None and bw:
                if bw.get("block_delay"):
                    loop.call_later(bw["block_delay"], serve_block, peer, src, m)  # (a peer that takes its time over block requests)
                else:
                    serve_block(peer, src, m)
                return
            if m is None or not rc.is_request(m.code) or state["token"] is not None:
                return
            state["token"] = m.token
            if bw:
                bw_registered(peer, src, m)
                return
            if sc.get("no_first"):
                # the registration request bounces: a transport error (or a Reset) instead of any response
                if sc["no_first"] == "rst":
                    peer.send(src, rc.Msg(rc.RST, 0, m.mid, b"", (), b""))
                else:
                    net.inject_error(C, P, 111, delay=0.0)
                state["t_total"] = 1.0
                return
            opts = ((6, rc.uint_bytes(sc["first"])),) if sc["first"] is not None else ()
            sends.append({"id": "first", "v": sc["first"], "kind": "first", "t": loop.time() + 0.001})
            peer.send(src, rc.Msg(rc.ACK, rc.c(2, 5), m.mid, m.token, opts, b"first"))
            if sc.get("early_final") and sc["first"] is not None:
                # the terminating response follows the first response back to back
                code = rc.c(2, 5) if sc["early_final"] == "2.05" else rc.c(4, 4)
                send_notif(peer, "final", None, sc.get("term_type", "NON"), code, "final")
                state["t_total"] = 1.0
                return
            # schedule the script
            t = 0.5
            items = [("n%d" % i, n) for i, n in enumerate(sc["notifs"])]
            pos = 0
            for i in range(len(items) + 1):
                if sc["term"] != "none" and i == sc["term_pos"]:
                    t += sc["term_gap"]
                    if sc["term"] == "icmp":
                        net.inject_error(C, P, 111, delay=t)
                        sends.append({"id": "icmp", "v": None, "kind": "icmp", "t": loop.time() + t})
                    else:
                        code = rc.c(2, 5) if sc["term"] == "final-2.05" else rc.c(4, 4)
                        loop.call_later(t, send_notif, peer, "final", None, sc.get("term_type", "NON"), code, "final")
                if i < len(items):
                    ident, n = items[i]
                    t += n["gap"]
                    loop.call_later(t, send_notif, peer, ident, n["v"], n["type"])
            for j in range(sc["trail"]):
                t += 1.0
                loop.call_later(t, send_notif, peer, "trail%d" % j, 5000 + j, "CON" if j % 2 == 0 else "NON", rc.c(2, 5), "trail")
            state["t_total"] = t

        def bw_registered(peer, src, m):
            k = 0
            ver = version("first", bw["first"]["blocks"], bw["first"]["tail"], k)
            state["cur"] = ver
            opts = ((6, rc.uint_bytes(sc["first"])),) if sc["first"] is not None else ()
            opts += ((4, ver["etag"]),)
            if len(ver["body"]) > size:
                opts += ((23, rc.block_bytes(0, True, bw["szx"])),)
            elif bw["b2_single"]:
                opts += ((23, rc.block_bytes(0, False, bw["szx"])),)
            sends.append({"id": "first", "v": sc["first"], "kind": "first", "t": loop.time() + 0.001})
            peer.send(src, rc.Msg(rc.ACK, rc.c(2, 5), m.mid, m.token, opts, ver["body"][:size]))
            t = max(bw["t0"], 0.00025)  # (nothing overtakes the first response: whatever arrived first would be it)
            items = [("n%d" % i, n) for i, n in enumerate(sc["notifs"])]
            last_v = sc["notifs"][-1]["v"] if sc["notifs"] else (sc["first"] or 0)
            for i in range(len(items) + 1):
                if sc["term"] != "none" and i == sc["term_pos"]:
                    t += sc["term_gap"]
                    if sc["term"] == "final-4.04":
                        t += 4 * (0.002 + bw.get("block_delay", 0.0))  # (... however long the peer takes over a block request: see below)
                    if sc["term"] == "icmp":
                        # (not ahead of the first response, which is 1 ms away: that is the no-first class)
                        net.inject_error(C, P, 111, delay=max(t, 0.00125))
                        sends.append({"id": "icmp", "v": None, "kind": "icmp", "t": loop.time() + t})
                    else:
                        k += 1
                        loop.call_later(t, send_notif, peer, "final", None, sc.get("term_type", "NON"), rc.c(2, 5) if sc["term"] == "final-2.05" else rc.c(4, 4), "final", ("final", bw["final"]["blocks"], bw["final"]["tail"], k))
                        if sc["term"] == "final-4.04":
                            # (from here on block fetches are answered with a non-block-wise 4.04: no transfer may be under
                            # way, so the 4.04 is a second away from the version before it and strictly ahead of the next)
                            t += 0.0005
                if i < len(items):
                    ident, n = items[i]
                    t += n["gap"]
                    k += 1
                    loop.call_later(t, send_notif, peer, ident, n["v"], n["type"], rc.c(2, 5), "notif", (ident, n["blocks"], n["tail"], k, bool(n.get("same"))), n["delay"], n["again"])
            for j in range(sc["trail"]):
                t += 1.0 if j else bw["trail_gap"]
                k += 1
                # (a representation that is newer is announced as fresher: staleness in these scripts is the network's doing)
                loop.call_later(t, send_notif, peer, "trail%d" % j, (last_v + 1 + j) % 2**24, "CON" if j % 2 == 0 else "NON", rc.c(2, 5), "trail", ("trail%d" % j, 1, 16, k))
            state["t_total"] = t

        peer = simnet.RawPeer(net, "10.0.0.1", 5683, on_msg)
        cli = await simnet.make_context(net, "10.0.0.2", 40001, None, server=False)
        rq = cli.request(aiocoap.Message(code=aiocoap.GET, uri="coap://10.0.0.1/obs", observe=0), handle_blockwise=(sc["path"] == "default"))
        delivered = []  # (t, id)
        terminal = []  # (t, repr, type)
        deliv_x = []  # per delivery: (position in the wire log, whole payload)
        term_seq = []  # per terminal signal: position in the wire log
        cancel = {}
        got_first = []

        def deliver(m):
            p = bytes(m.payload)
            delivered.append((loop.time(), p.decode().split(":")[0], m.opt.observe))
            deliv_x.append((len(net.log), p))

        def end(name, e):
            terminal.append((loop.time(), name, e))
            term_seq.append(len(net.log))

        def app_cancel(when):
            # an application that loses interest (RFC 7641 section 3.6: it simply forgets the observation)
            if rq.observation.cancelled:
                return  # already over
            cancel.update(when=when, t=loop.time(), seq=len(net.log), ndeliv=len(delivered), before_first=not got_first)
            rq.observation.cancel()

        eager_it = None
        if sc.get("cancel") and sc["consumer"] != "cb":
            eager_it = rq.observation.__aiter__()  # (attached before the cancellation, like the callbacks below)
        if sc["consumer"] == "cb":
            def on_notification(m):
                deliver(m)
                if sc.get("cancel") == "in-callback" and m.opt.observe is not None and len(delivered) > sc["cancel_frac"] * len(sc["notifs"]):
                    app_cancel("in-callback")
                if sc.get("cb_cancels") and m.opt.observe is None and delivered[-1][1] == "final":
                    # an application that is done with the observation once it has seen the final response
                    rq.observation.cancel()

            rq.observation.register_callback(on_notification)
            rq.observation.register_errback(lambda e: end(type(e).__name__, e))
            consumer_task = None
        elif sc["consumer"] == "iter-poll":

            async def consume():
                # an application that polls the iterator with a time-out of its own
                it = eager_it or rq.observation.__aiter__()
                spurious = 0
                while True:
                    try:
                        m = await asyncio.wait_for(it.__anext__(), sc.get("poll", 0.7))
                    except asyncio.TimeoutError:
                        continue
                    except StopAsyncIteration:
                        end("StopAsyncIteration", None)
                        return
                    except asyncio.CancelledError:
                        if asyncio.current_task().cancelling():
                            raise
                        spurious += 1  # nobody cancelled this task
                        if spurious > 50:
                            end("spurious-CancelledError", None)
                            return
                        await asyncio.sleep(0.01)
                        continue
                    except Exception as e:
                        end(type(e).__name__, e)
                        return
                    deliver(m)

            consumer_task = asyncio.ensure_future(consume())
        else:

            async def consume():
                try:
                    if eager_it is not None:
                        while True:
                            try:
                                m = await eager_it.__anext__()
                            except StopAsyncIteration:
                                break
                            deliver(m)
                    else:
                        async for m in rq.observation:
                            deliver(m)
                    end("StopAsyncIteration", None)
                except asyncio.CancelledError:
                    raise
                except Exception as e:
                    end(type(e).__name__, e)

            consumer_task = asyncio.ensure_future(consume())
        if sc.get("cancel") == "before-first-sync":
            app_cancel(sc["cancel"])
        elif sc.get("cancel") == "before-first-inflight":
            loop.call_later(0.0005, app_cancel, sc["cancel"])  # the request is on the wire, the response is not yet
        elif sc.get("cancel") == "first-transfer":
            loop.call_later(0.0025 + 0.002 * int(sc["cancel_frac"] * 3), app_cancel, sc["cancel"])  # block 0 of the response is in, later ones may be under way
        first = None
        try:
            resp = await asyncio.wait_for(asyncio.shield(rq.response), 30)
            first = ("response", bytes(resp.payload).decode().split(":")[0], resp.opt.observe)
            first_x = (len(net.log), bytes(resp.payload))
        except Exception as e:
            first = ("exception", type(e).__name__, e)
            first_x = (len(net.log), None)
        got_first.append(True)
        if sc.get("cancel") == "after-first":
            app_cancel(sc["cancel"])
        late_delivered, late_terminal, late_task, late_attached = [], [], [None], []

        def attach_late():
            late_attached.append(loop.time())
            try:
                if sc["late"][1] == "cb":
                    rq.observation.register_callback(lambda m: late_delivered.append((loop.time(), bytes(m.payload).decode().split(":")[0], m.opt.observe)))
                    rq.observation.register_errback(lambda e: late_terminal.append((loop.time(), type(e).__name__, e)))
                else:

                    async def consume_late():
                        try:
                            async for m in rq.observation:
                                late_delivered.append((loop.time(), bytes(m.payload).decode().split(":")[0], m.opt.observe))
                            late_terminal.append((loop.time(), "StopAsyncIteration", None))
                        except asyncio.CancelledError:
                            raise
                        except Exception as e:
                            late_terminal.append((loop.time(), type(e).__name__, e))

                    late_task[0] = asyncio.ensure_future(consume_late())
            except Exception as e:  # attaching itself failed
                late_terminal.append((loop.time(), "attach:" + type(e).__name__, e))

        total = state.get("t_total", 1.0)
        if sc.get("cancel") == "mid":
            loop.call_later(sc["cancel_frac"] * (total + 1.0), app_cancel, "mid")
        if sc["late"] is not None:
            if sc["late"][0] == "after-response":
                attach_late()
            elif sc["late"][0] == "mid":
                loop.call_later(sc["late_frac"] * (total + 2.0), attach_late)
            else:
                loop.call_later(total + 10.0, attach_late)
        await asyncio.sleep(total + 50.0)
        calls_before = vloop.time_calls
        box.update(net=net, C=C, P=P, sends=sends, delivered=list(delivered), terminal=list(terminal), first=first, token=state["token"], late_delivered=list(late_delivered), late_terminal=list(late_terminal), late_attached=list(late_attached), deliv_x=list(deliv_x), term_seq=list(term_seq), first_x=first_x, cancel=dict(cancel), bodies=bodies, out_of_range=state.get("out_of_range", 0))
        if consumer_task is not None and not consumer_task.done():
            consumer_task.cancel()
        if late_task[0] is not None and not late_task[0].done():
            late_task[0].cancel()
        await cli.shutdown()
        return True

    from harness import vloop as _v

    before = _v.time_calls
    res = scenario.run(main, seed, horizon=1e7)
    box["clock_calls"] = _v.time_calls - before
    if not res.ok:
        if res.horizon:
            rep.inconc("horizon")
        else:
            rep.violation("scenario-failed", "observation scenario did not complete: hang=%r error=%r" % (res.hang, res.error), {"script": repr(sc), "tb": rep.exception_witness(res.error) if res.error else None}, case)
        return
    judge(sc, box, res, rep, case)


def judge(sc, box, res, rep, case):
    from harness import refcodec as rc

    net, C, P = box["net"], box["C"], box["P"]
    wit = lambda **kw: dict(script=repr(sc), arrivals=[(a["id"], a["v"], round(a["t"], 6)) for a in box["sends"]], delivered=[(round(t, 6), i, v) for t, i, v in box["delivered"]], terminal=[(round(t, 6), n) for t, n, _ in box["terminal"]], first=box["first"], **kw)
    if box["clock_calls"] > 0:
        rep.monitor("clock_consulted")
    # arrivals in the order the datagrams were really delivered to the client (wire log), not the order scripted
    arrivals = []
    for e in net.log:
        if e.kind == "deliver" and e.dst == C and e.msg is not None and rc.is_response(e.msg.code) and e.msg.token == box["token"]:
            ident = e.msg.payload.decode().split(":")[0]
            o = rc.opt1(e.msg, 6)
            b2 = rc.opt1(e.msg, 23)
            kind = "first" if ident == "first" else "final" if ident == "final" else "trail" if ident.startswith("trail") else "notif"
            arrivals.append({"id": ident, "v": rc.uint_value(o) if o is not None else None, "kind": kind, "t": e.t, "seq": e.seq, "etag": rc.opt1(e.msg, 4), "more": b2 is not None and rc.block_value(b2)[1]})
        elif e.kind == "error" and e.dst == C:
            arrivals.append({"id": "icmp", "v": None, "kind": "icmp", "t": e.t, "seq": e.seq})
    box["sends"] = arrivals
    # where does the observation end?
    end_idx = None
    end_kind = None
    if sc["first"] is None:
        end_idx, end_kind = 0, "not-observable"
    else:
        for i, a in enumerate(arrivals):
            if a["kind"] == "final":
                end_idx, end_kind = i, "final"
                break
            if a["kind"] == "icmp":
                end_idx, end_kind = i, "icmp"
                break
    # ---- block-wise representations: ends that are not an arrival on the observation's token ----
    # (positions in the wire log, not times, say what came before and after)
    from aiocoap import error as _error

    bw = sc.get("bw")
    end_seq = arrivals[end_idx]["seq"] if end_idx is not None and end_idx < len(arrivals) else float("inf")
    sig_end = None  # (kind, everything from this wire-log position on came after the end, nothing is demanded from this one on)
    assembly_overtakes_end = False
    first_failed = False
    cancel = box.get("cancel") or {}
    is_assembly_error = lambda e: isinstance(e, _error.Error) and not isinstance(e, (_error.NetworkError, _error.ObservationCancelled, _error.NotObservable, _error.LibraryShutdown))
    if bw:
        rep.monitor("blockwise_observation")
        if box["out_of_range"]:
            rep.inconc("harness: a block beyond the end of the representation was requested (block counts were meant never to decrease)")
            return
        fetches = [e for e in net.log if e.kind == "send" and e.src == C and e.msg is not None and e.msg.code == 1 and rc.opt1(e.msg, 23) is not None and rc.block_value(rc.opt1(e.msg, 23))[0] > 0]
        answers = [e for e in net.log if e.kind == "deliver" and e.dst == C and e.msg is not None and rc.is_response(e.msg.code) and e.msg.token != box["token"]]
        if sc["path"] == "raw" and fetches:
            rep.violation("blockwise/raw-request-fetched-blocks", "a request made with handle_blockwise=False went on to fetch further blocks", wit(fetch=fetches[0].brief()), case)
            return

        def transfer_before(seq, candidates):
            """the block transfer that was under way just before wire position `seq`: did it see blocks of different
            representations (ETag)? -> (seq of its last answer, True/False), or None if there was none. `candidates`
            are the arrivals whose block 0 it may have started from."""
            fs = [f for f in fetches if f.seq < seq]
            starts = [f for f in fs if rc.block_value(rc.opt1(f.msg, 23))[0] == 1]
            if not starts:
                return None
            chain = [f for f in fs if f.seq >= starts[-1].seq]
            toks = {f.msg.token for f in chain}
            ans = [a for a in answers if a.seq < seq and a.seq > starts[-1].seq and a.msg.token in toks]
            if not ans:
                return None
            tags = {rc.opt1(a.msg, 4) if a.msg.code == rc.c(2, 5) else a.msg.code for a in ans}
            heads = {c["etag"] for c in candidates if c.get("more") and c["seq"] < starts[-1].seq}
            return ans[-1].seq, len(tags) > 1 or any(h not in tags for h in heads)

        if cancel:
            rep.monitor("cancelled_by_application")
            if cancel["before_first"]:
                rep.monitor("cancelled_before_first_response")
                if sc["path"] == "default" and arrivals and arrivals[0]["kind"] == "first" and arrivals[0]["more"]:
                    # notifications that came in after the application's cancel while the later blocks of the first
                    # response were still being fetched (judged below like everything after an end: the cancel has a
                    # definite position in the wire log, nothing around it is left open)
                    inside = [a for a in arrivals if a["kind"] in ("notif", "trail", "final") and cancel["seq"] <= a["seq"] < box["first_x"][0]]
                    if inside:
                        rep.monitor("push_in_first_transfer_after_cancel", len(inside))
                        rep.count("scripts_with_push_in_first_transfer_after_cancel")
        # the first response cannot be put together
        if box["first"][0] == "exception" and sc["path"] == "default" and is_assembly_error(box["first"][2]):
            tr = transfer_before(box["first_x"][0], [a for a in arrivals if a["kind"] == "first"])
            if tr is not None and tr[1]:
                first_failed = True
                rep.monitor("first_response_assembly_failed")
                when = min([box["first_x"][0]] + box["term_seq"][:1])
                if cancel and cancel["seq"] <= tr[0] and cancel["seq"] - 0.5 < end_seq:
                    # (given up before that already; what keeps the observation on the wire is the failed transfer)
                    sig_end = ("first-response-assembly-failed", cancel["seq"] - 0.5, cancel["seq"] - 0.5)
                elif not (cancel and cancel["seq"] <= tr[0]) and when - 0.5 < end_seq:
                    sig_end = ("first-response-assembly-failed", when - 0.5, tr[0])
                elif end_kind in ("final", "icmp"):
                    assembly_overtakes_end = True  # (the peer or the transport had ended it already, the application hears of the failed transfer instead)
                    rep.count("assembly_failure_instead_of_" + str(end_kind))
        # a notification cannot be put together, and the application is told that as the observation's end
        elif box["terminal"] and sc["path"] == "default" and is_assembly_error(box["terminal"][0][2]) and not (cancel and cancel["seq"] <= box["term_seq"][0]):
            last_seq = -1
            for (_t, ident, _v) in box["delivered"]:
                last_seq = max([last_seq] + [a["seq"] for a in arrivals if a["id"] == ident][:1])
            tr = transfer_before(box["term_seq"][0], [a for a in arrivals if a["seq"] > last_seq and a["kind"] != "first"])
            if tr is not None and tr[1]:
                # whether that is a legitimate end of a block-wise observation the statement leaves open: counted
                rep.monitor("notification_assembly_failed_end")
                rep.count("end_by_" + box["terminal"][0][1])
                if box["term_seq"][0] - 0.5 < end_seq:
                    sig_end = ("notification-assembly-failed", box["term_seq"][0] - 0.5, tr[0])
                else:
                    assembly_overtakes_end = True  # (the peer had ended it already, the application hears of the failed transfer instead)
                    rep.count("assembly_failure_instead_of_" + str(end_kind))
        if sig_end is None and not assembly_overtakes_end and cancel and cancel["seq"] - 0.5 < end_seq:
            sig_end = ("cancelled-before-first-response" if cancel["before_first"] else "cancelled-by-application", cancel["seq"] - 0.5, cancel["seq"] - 0.5)
        if sig_end is not None:
            end_idx, end_kind, end_seq = None, sig_end[0], sig_end[1]
    live = [a for a in arrivals if a["seq"] <= end_seq or a["kind"] == "first"]  # (the response to the request is the request's, whatever became of the observation)
    icmp_seq = [a["seq"] for a in arrivals if a["kind"] == "icmp"]
    if bw and sc["path"] == "default" and icmp_seq and box["first"][0] == "exception" and isinstance(box["first"][2], _error.NetworkError) and arrivals[0]["kind"] == "first" and arrivals[0]["more"] and icmp_seq[0] < box["first_x"][0]:
        # the transport failed while the later blocks of the first response were being fetched: the request fails with it
        rep.monitor("transport_failure_during_first_transfer")
        first_failed = True
    if sc.get("no_first"):
        # a transport failure before any response: the request fails with a network error, and so does the
        # observation (exactly once); nothing is delivered
        from aiocoap import error

        rep.monitor("terminal_signal")
        rep.monitor("failure_before_first_response")
        term = box["terminal"]
        if sc["no_first"] == "rst":
            # the message was rejected: request and observation end with a library error (an exception object)
            if box["first"][0] != "exception" or not isinstance(box["first"][2], error.Error):
                rep.violation("no-first-rst/request-outcome", "the registration request was reset, but the request did not fail with a library error", wit(), case)
            elif box["delivered"]:
                rep.violation("no-first-rst/delivery", "something was delivered although no response ever arrived", wit(), case)
            elif len(term) != 1:
                rep.violation("no-first-rst/terminal-signals-%d/%s-%s" % (len(term), sc["path"], sc["consumer"]), "the observation's end was signalled %d times instead of exactly once" % len(term), wit(), case)
            elif not isinstance(term[0][2], error.Error):
                rep.violation("no-first-rst/terminal-signal-not-a-library-error/%s-%s" % (sc["path"], sc["consumer"]), "registration request reset: the observation's end was signalled with %r, which is not an exception derived from the library's error base class" % (term[0][2],), wit(), case)
            return
        if box["first"][0] != "exception" or not isinstance(box["first"][2], error.NetworkError):
            rep.violation("no-first/request-outcome", "the registration request bounced, but the request did not fail with a network error", wit(), case)
        elif box["delivered"]:
            rep.violation("no-first/delivery", "something was delivered although no response ever arrived", wit(), case)
        elif len(term) != 1:
            rep.violation("no-first/terminal-signals-%d/%s-%s" % (len(term), sc["path"], sc["consumer"]), "the observation's end was signalled %d times instead of exactly once" % len(term), wit(), case)
        elif not isinstance(term[0][2], error.NetworkError):
            rep.violation("no-first/wrong-terminal-kind/%s-%s" % (sc["path"], sc["consumer"]), "transport failure before the first response: the observation ended with %s instead of a network error" % term[0][1], wit(), case)
        return
    # ---- first response ----
    if first_failed:
        pass  # (the transfer of the first response saw two representations: the request fails, see above)
    elif box["first"][0] != "response" or box["first"][1] != "first":
        rep.violation("first-response-not-delivered", "the request's response future did not yield the first response", wit(), case)
        return
    if bw:
        # what is handed over is the representation the notification announced: all of it where the library was asked
        # to put block-wise transfers together, its first block otherwise
        size = 16 << bw["szx"]
        handed = ([("first", box["first_x"][1])] if not first_failed else []) + [(i, x[1]) for (_, i, _), x in zip(box["delivered"], box["deliv_x"])]
        for ident, payload in handed:
            whole = box["bodies"].get(ident)
            if whole is None:
                continue  # (not something that arrived: reported below)
            rep.monitor("blockwise_body")
            if len(whole) > size and sc["path"] == "default":
                rep.monitor("blockwise_first_assembled" if ident == "first" else "blockwise_notification_assembled")
            if payload != (whole if sc["path"] == "default" else whole[:size]):
                rep.violation("blockwise/handed-over-body-wrong/" + sc["path"], "what was handed to the application is not the representation the notification belongs to", wit(item=ident, got_len=len(payload), want_len=len(whole) if sc["path"] == "default" else min(size, len(whole))), case)
                return
    # ---- delivered sequence (first response + callbacks) ----
    D = ([("first", sc["first"])] if not first_failed else []) + [(i, v) for _, i, v in box["delivered"]]
    ids = [a["id"] for a in live if a["kind"] != "icmp"]
    rep.monitor("freshness_order")
    # subsequence of arrivals (before the end)
    pos = -1
    info = {a["id"]: a for a in arrivals}
    for ident, _ in D:
        if ident not in ids:
            rep.violation("delivered-after-end-or-unknown", "something was handed to the application that did not arrive before the observation's end", wit(item=ident), case)
            return
        p = ids.index(ident, pos + 1) if ident in ids[pos + 1 :] else None
        if p is None:
            rep.violation("delivery-out-of-arrival-order", "deliveries are not a subsequence of the arrivals (reordered or delivered twice)", wit(item=ident), case)
            return
        pos = p
    gids_all = []
    if sc["first"] is not None:
        # reference chain G: greedy application of the section 3.4 predicate to the arrivals (each accepted one
        # becomes the new reference). Deliveries must be a subsequence of G; a lossy consumer may skip members.
        G = []
        last = info["first"]
        used_time_clause = False
        for a in live:
            if a["kind"] not in ("notif", "trail"):
                continue
            if fresh(last["v"], last["t"], a["v"], a["t"]):
                if a["t"] > last["t"] + 128 and not ((last["v"] < a["v"] and a["v"] - last["v"] < 2**23) or (last["v"] > a["v"] and last["v"] - a["v"] > 2**23)):
                    used_time_clause = True
                G.append(a)
                last = a
        if used_time_clause:
            rep.monitor("time_clause_exercised")
        gi = -1
        gids = [g["id"] for g in G]
        gids_all = gids
        gpos = {}
        for k, a in enumerate(live):
            gpos.setdefault(id(a), k)
        delivered_notifs = [ident for ident, _ in D[1:] if info_kind(live, ident) != "final"]
        # map deliveries to positions in `live` (ids may repeat when values repeat: ids are unique per datagram)
        chain_ids = gids
        p = -1
        for ident in delivered_notifs:
            if ident in chain_ids[p + 1 :]:
                p = chain_ids.index(ident, p + 1)
            else:
                a = next(x for x in live if x["id"] == ident)
                rep.violation("stale-notification-delivered", "a notification was handed over although it is not fresher (RFC 7641 section 3.4 applied along the arrivals) than the one before it", wit(item=(a["id"], a["v"], a["t"]), chain=[(g["id"], g["v"]) for g in G]), case)
                return
        if sc["consumer"] == "cb" and sc["path"] == "raw":
            rep.count("cb_delivered_every_fresh" if delivered_notifs == chain_ids else "cb_skipped_some_fresh")
        # nothing fresher left undelivered (only while the observation is still alive at the end of the run)
        if end_kind is None:
            rep.monitor("nothing_fresher_left")
            if G and (not delivered_notifs or delivered_notifs[-1] != G[-1]["id"]):
                rep.violation("fresher-notification-never-delivered/%s-%s" % (sc["path"], sc["consumer"]), "the freshest notification that arrived was never handed over although the observation stayed alive", wit(freshest=(G[-1]["id"], G[-1]["v"], G[-1]["t"])), case)
                return
    # ---- terminal signal ----
    rep.monitor("terminal_signal")
    term = box["terminal"]
    names = [n for _, n, _ in term]
    key_sfx = "%s-%s" % (sc["path"], sc["consumer"])
    if end_kind is None:
        if term:
            rep.violation("spurious-terminal-signal/" + key_sfx, "the observation was signalled as ended although nothing ended it", wit(), case)
            return
    elif sc.get("cb_cancels") and end_kind == "final":
        # the application cancelled the observation itself while it was handed the final response: it may or may
        # not be told once more that it is over
        rep.monitor("cancelled_in_callback")
        if len(term) > 1:
            rep.violation("terminal-signals-%d/%s/%s" % (len(term), end_kind, key_sfx), "the observation's end was signalled %d times" % len(term), wit(), case)
            return
    elif cancel and (not box["term_seq"] or cancel["seq"] <= box["term_seq"][0]):
        # the application gave the observation up (possibly after something had ended it on the wire, but before it
        # was told): it may or may not be told once more that it is over, and a
        # callback consumer is handed nothing from then on (an iterating one may still pick up what was waiting
        # for it: that it arrived before the end is judged above)
        if len(term) > 1:
            rep.violation("terminal-signals-%d/%s/%s" % (len(term), end_kind, key_sfx), "the observation's end was signalled %d times" % len(term), wit(), case)
            return
        if sc["consumer"] == "cb" and len(box["delivered"]) > cancel["ndeliv"]:
            rep.violation("delivered-after-cancellation/" + sc["path"], "a notification was handed to a callback after the application had cancelled the observation", wit(cancelled_at=cancel["t"]), case)
            return
    elif sig_end is not None or assembly_overtakes_end:
        # a block-wise transfer saw two representations and the application was told that as the observation's error:
        # once, and nothing after it
        if len(term) != 1:
            rep.violation("terminal-signals-%d/%s/%s" % (len(term), end_kind, key_sfx), "the observation's end was signalled %d times instead of exactly once" % len(term), wit(), case)
            return
        if any(t > term[0][0] + 1e-9 for t, _, _ in box["delivered"]) or any(x[0] > box["term_seq"][0] for x in box["deliv_x"]):
            rep.violation("delivered-after-terminal-signal", "a notification was delivered after the end had been signalled", wit(), case)
            return
    else:
        if len(term) != 1:
            rep.violation("terminal-signals-%d/%s/%s" % (len(term), end_kind, key_sfx), "the observation's end was signalled %d times instead of exactly once" % len(term), wit(), case)
            return
        n = names[0]
        want = {"not-observable": ("NotObservable", "StopAsyncIteration"), "final": ("ObservationCancelled", "StopAsyncIteration"), "icmp": ("NetworkError",)}[end_kind]
        ok = n in want
        if end_kind == "icmp":
            from aiocoap import error

            ok = isinstance(term[0][2], error.NetworkError)
        if sc["consumer"] == "cb" and n == "StopAsyncIteration":
            ok = False
        if not ok:
            rep.violation("wrong-terminal-kind/%s/%s" % (end_kind, key_sfx), "the observation ended with %s; expected %s" % (n, "/".join(want)), wit(), case)
            return
        if end_kind == "final":
            # the final response is delivered, then the cancellation
            final_disturbed = False
            if bw and sc["path"] == "default" and arrivals[end_idx]["more"]:
                # a final response that is block-wise itself, and whose representation was replaced before its later
                # blocks were in: there is no putting it together
                final_disturbed = any(rc.opt1(a.msg, 4) != arrivals[end_idx]["etag"] for a in answers if a.seq > arrivals[end_idx]["seq"])
                if final_disturbed:
                    rep.count("final_response_transfer_disturbed")
            if (not D or D[-1][0] != "final") and not final_disturbed:
                rep.violation("final-response-not-delivered/" + key_sfx, "a response without Observe option ended the observation, but it was not handed over before the cancellation signal", wit(), case)
                return
        if end_kind == "not-observable" and len(D) > (0 if first_failed else 1):
            rep.violation("delivery-on-unobservable", "notifications were delivered although the first response carried no Observe option", wit(), case)
            return
        # nothing delivered after the terminal signal
        t_end = term[0][0]
        if any(t > t_end + 1e-9 for t, _, _ in box["delivered"]):
            rep.violation("delivered-after-terminal-signal", "a notification was delivered after the end had been signalled", wit(), case)
            return
    # ---- the consumer that attached late ----
    if sc.get("late") is not None and box.get("late_attached"):
        rep.monitor("late_consumer")
        lterm = box["late_terminal"]
        lkey = "%s-%s-%s" % (sc["path"], sc["late"][0], sc["late"][1])
        lwit = lambda **kw: wit(late=sc["late"], late_attached=box["late_attached"], late_delivered=[(round(t, 6), i, v) for t, i, v in box["late_delivered"]], late_terminal=[(round(t, 6), n) for t, n, _ in lterm], **kw)
        if end_kind is None:
            if lterm:
                rep.violation("late-consumer/spurious-terminal-signal/" + lkey, "a consumer that attached later was signalled an end although nothing ended the observation", lwit(), case)
                return
        else:
            if len(lterm) != 1:
                rep.violation("late-consumer/terminal-signals-%d/%s/%s" % (len(lterm), end_kind, lkey), "the observation's end was signalled %d times instead of exactly once to a consumer that attached later" % len(lterm), lwit(), case)
                return
            n = lterm[0][1]
            want = {"not-observable": ("NotObservable", "StopAsyncIteration"), "final": ("ObservationCancelled", "StopAsyncIteration"), "icmp": ("NetworkError",)}.get(end_kind, ("the block-wise transfer's error",))
            ok = n in want
            if end_kind == "icmp":
                from aiocoap import error

                ok = isinstance(lterm[0][2], error.NetworkError)
            if sc["late"][1] == "cb" and n == "StopAsyncIteration":
                ok = False
            if sig_end is not None or assembly_overtakes_end:
                ok = is_assembly_error(lterm[0][2])
            if not ok:
                rep.violation("late-consumer/wrong-terminal-kind/%s/%s" % (end_kind, lkey), "a consumer that attached later saw the observation end with %s; expected %s" % (n, "/".join(want)), lwit(), case)
                return
            if any(t > lterm[0][0] + 1e-9 for t, _, _ in box["late_delivered"]):
                rep.violation("late-consumer/delivered-after-terminal-signal", "a notification was delivered to a late consumer after the end had been signalled to it", lwit(), case)
                return
        # what it was handed is a freshness-ordered subsequence of the arrivals, too
        allowed = ["first"] + (gids_all if sc["first"] is not None else []) + ["final"]
        p = -1
        for _, ident, _v in box["late_delivered"]:
            if ident in allowed[p + 1 :] and ident in ids:
                p = allowed.index(ident, p + 1)
            else:
                rep.violation("late-consumer/stale-or-unknown-delivery", "a consumer that attached later was handed something that is not a freshness-ordered subsequence of the arrivals before the end", lwit(item=ident), case)
                return
    # ---- wire: confirmable notifications (the final response included) up to the end are acknowledged ----
    seq_lim = arrivals[end_idx]["seq"] if end_idx is not None else float("inf")  # (wire-log position: ties at one instant)
    if sig_end is not None:
        # (between the block that made the transfer fail and the application hearing of it, either answer is fine)
        seq_lim = min(sig_end[1], sig_end[2] - 0.5)
    for e in net.log:
        if e.kind == "deliver" and e.dst == C and e.msg is not None and e.msg.type == rc.CON and rc.is_response(e.msg.code) and e.msg.token == box["token"] and e.seq <= seq_lim:
            rep.monitor("con_notification_acknowledged")
            out = [s_ for s_ in net.log if s_.kind == "send" and s_.cause == e.seq]
            if not (len(out) == 1 and out[0].msg is not None and out[0].msg.type == rc.ACK and out[0].msg.code == 0 and out[0].msg.mid == e.msg.mid):
                rep.violation("con-notification-not-acknowledged/%s" % ("final" if not rc.opt(e.msg, 6) else "notification"), "a confirmable response belonging to the live observation was not answered with exactly one empty ACK", wit(event=e.brief(), emitted=[s_.brief() for s_ in out]), case)
                return
    # ---- wire: notifications after the end are rejected like unknown responses ----
    if end_idx is not None and sig_end is None:
        rep.monitor("after_end_wire")
        t_end_arr = arrivals[end_idx]["t"]
        for e in net.log:
            if e.kind == "deliver" and e.dst == C and e.msg is not None and rc.is_response(e.msg.code) and e.msg.token == box["token"] and e.t > t_end_arr + 1e-9:
                out = [s for s in net.log if s.kind == "send" and s.cause == e.seq]
                if e.msg.type == rc.CON:
                    if not (len(out) == 1 and out[0].msg is not None and out[0].msg.type == rc.RST and out[0].msg.mid == e.msg.mid):
                        rep.violation("late-con-notification-not-reset/" + end_kind, "a confirmable notification arriving after the observation had ended was not answered with a Reset", wit(event=e.brief(), emitted=[s.brief() for s in out]), case)
                        return
                elif out:
                    rep.violation("late-non-notification-answered", "a non-confirmable notification after the end produced output", wit(event=e.brief()), case)
                    return
    if sig_end is not None:
        # the same after an end that is not an arrival on the token: the application was told (or said itself) that
        # the observation is over at wire-log position sig_end[1]; whatever comes on the token from then on is unknown
        rep.monitor("after_signalled_end_wire")
        after = [a["seq"] for a in arrivals if a["seq"] > sig_end[1] and a["kind"] in ("notif", "trail", "final")]
        cons = []
        for e in net.log:
            if e.kind == "deliver" and e.dst == C and e.msg is not None and rc.is_response(e.msg.code) and e.msg.token == box["token"] and e.seq > sig_end[1]:
                out = [s for s in net.log if s.kind == "send" and s.cause == e.seq]
                if e.msg.type == rc.CON:
                    cons.append((e, out, len(out) == 1 and out[0].msg is not None and out[0].msg.type == rc.RST and out[0].msg.mid == e.msg.mid))
                elif e.msg.type == rc.NON and out:
                    rep.violation("late-non-notification-answered", "a non-confirmable notification after the end produced output", wit(event=e.brief()), case)
                    return
        rep.monitor("con_after_signalled_end", len(cons))
        bad = [c for c in cons if not c[2]]
        if bad:
            # does the observation go on on the wire, or is it only dropped one notification (of either type) late?
            for_good = any(c[0].seq != after[0] for c in bad)
            e, out, _ = bad[-1] if for_good else bad[0]
            rep.violation(
                ("observation-outlives-end/%s/%s" if for_good else "cancellation-takes-effect-late/%s/%s") % (end_kind, sc["path"]),
                "the application was told (or said itself) that the observation is over, but "
                + ("confirmable notifications went on being accepted after that, not only the next one: the observation lives on in the token manager" if for_good else "the next notification, a confirmable one, was still accepted, not answered with a Reset (only the one after it was)"),
                wit(event=e.brief(), emitted=[s.brief() for s in out], answers_after_end=["RST" if c[2] else "/".join("CON NON ACK RST".split()[s.msg.type] if s.msg is not None else "?" for s in c[1]) or "nothing" for c in cons]),
                case,
            )
            return
    if res.loop_exceptions:
        rep.violation("loop-exception/" + str(res.loop_exceptions[0].get("exc_type")), "an exception reached the event loop", wit(loop=res.loop_exceptions[:2]), case)
    if res.unraisable:
        rep.count("unraisable_reports", len(res.unraisable))
    vals = [n["v"] for n in sc["notifs"]]
    order = tuple(sorted(range(len(vals)), key=lambda i: vals[i]))
    sig = (sc["path"], sc["consumer"], sc["first"] is None, order, tuple(min(int(n["gap"]), 200) for n in sc["notifs"]), tuple(v >= 2**23 for v in vals), sc["term"], sc["term_pos"], sc["term_gap"] == 0.0)
    if bw:
        sig += (bw["first"]["blocks"], tuple(n["blocks"] for n in sc["notifs"]), tuple(min(int(n["gap"] * 2000), 20) for n in sc["notifs"]), sc.get("cancel"), end_kind, bw["t0"] == 0.0)
    stale = len(D) - 1 < len([a for a in live if a["kind"] == "notif"])
    rep.case(sig, nontrivial=stale or end_kind is not None or bool(bw))


def info_kind(live, ident):
    for a in live:
        if a["id"] == ident:
            return a["kind"]
    return None


def run_shard(shard, rep, only=None):
    from harness import vloop

    vloop.install_time()
    import aiocoap  # noqa

    r = random.Random(shard["seed"])
    n = 0
    for sc in scripts(r, shard["tier"], shard["index"], shard["of"]):
        case = ["perm", n]
        n += 1
        if only is not None and only != case:
            continue
        run_script(sc, shard["seed"] * 65537 + n, rep, case)
        if n <= 1 and shard["index"] == 0:
            rep.sample({"class": "permutation-script", "script": sc})
    for j, sc in enumerate(special_scripts()):
        if j % shard["of"] != shard["index"] % 16:
            continue
        case = ["special", j]
        if only is not None and only != case:
            continue
        run_script(dict(sc), shard["seed"] * 31 + j, rep, case)
    for k in range(shard["extra"]):
        sc = window_script(r) if k % 3 == 0 else random_script(r)
        case = ["rand", k]
        if only is not None and only != case:
            continue
        run_script(sc, shard["seed"] * 104729 + k, rep, case)
    # block-wise representations (a generator of its own: the scripts above stay what they were for every seed)
    rb = random.Random(shard["seed"] * 7919 + 17)
    for j, sc in enumerate(bw_special_scripts()):
        if j % shard["of"] != shard["index"] % 16:
            continue
        case = ["bw-special", j]
        if only is not None and only != case:
            continue
        run_script(dict(sc), shard["seed"] * 37 + j, rep, case)
    for k in range(shard.get("bw", 0)):
        sc = bw_script(rb)
        case = ["bw", k]
        if only is not None and only != case:
            continue
        run_script(sc, shard["seed"] * 15485863 + k, rep, case)
        if k == 0 and shard["index"] == 0:
            rep.sample({"class": "block-wise-script", "script": sc})
