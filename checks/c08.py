"""C08 — observe server: token + rising Observe numbers, latest state sent, ending causes final,
cancellation callback exactly once, observer count returns."""

import random

ID = "C08"
LEVEL = "exploration"
TECHNIQUE = "runtime monitoring on a virtual-time simulated network: raw observers (CON and NON registrations) reacting with ACK / Reset / silence / re-registration / deregistration / unrelated request / ICMP error to bursts of state-change triggers; the test resource stamps registration id and state version into every rendering and counts cancellation callbacks, and in half of the histories keeps each registration's response object and returns the same object from every rendering once its previous exchange is complete; triggers marked last are raised with a new message, with none (the next rendering is the last notification) or with the kept object; offline oracle over wire log + resource log"
LEVEL_TEXT = "Each generated history (1-3 observers, 2-10 triggers incl. unsuccessful / last ones, every observer reaction kind, shutdown at the end; in two histories out of five the resource mixes confirmable and non-confirmable notifications within a registration; in every second history the handler returns a kept response object again; the trigger marked last comes as a new message, as a plain rendering or as the kept object) is judged per registration: token and strictly rising Observe values, bounded 'latest state sent', the ending instant derived from the listed causes, no notification first transmitted after it, exactly one cancellation callback, observer count back to its previous value."
LEVEL_NOTE = "Trusted: the judge in checks/c08.py, simnet (log order and synchronous-cause attribution), refcodec. 'Eventually' is decided as 'by the end of the run or the registration's end'. Byte-identical retransmissions of a notification first sent before the end are not judged here (C03)."
RULE = (
    "one case = one history: observers (CON/NON registration, per-notification reaction script), trigger schedule (gap classes), special events (unsuccessful / last trigger in its three forms, kept or new response objects, re-registration, deregistration, unrelated request on the token, ICMP error). "
    "Non-trivial = at least one registration ended by a cause other than shutdown, or triggers overlapped an unacknowledged notification; distinct = distinct tuples of (registration type, reaction script, special event, trigger gap classes)"
)
ASSUMPTIONS = ["default TransportTuning", "the test resource derives from aiocoap.resource.ObservableResource and wraps the cancellation callback it hands to accept()"]
REQUIRED_MONITORS = {"explicit_final_during_render": 20, "token_and_rising_observe": 300, "latest_state": 60, "end_cause": 300, "nothing_after_end": 300, "callback_once": 300, "count_returns": 200, "mixed_reliability_notification": 300, "slow_add_observation": 40, "kept_response_object_returned_again": 300, "rising_observe_with_kept_object": 300, "last_trigger_render": 20, "last_trigger_push-kept": 20, "last_trigger_push-new": 8, "last_trigger_with_kept_object": 8}

KNOWN_KEYS = ("rst-to-non-notification-ignored", "queued-notification-sent-after-end")


def plan(tier, seed):
    n = 16
    per = {"quick": 60, "thorough": 5000}[tier]
    return [{"name": "c08-%d" % i, "seed": seed * 1000 + i, "index": i, "of": n, "n": per, "tier": tier} for i in range(n)]


def gen(r):
    nobs = r.choice([1, 1, 2, 3])
    observers = []
    for i in range(nobs):
        typ = r.choice(["CON", "CON", "NON"])
        script = []
        for _ in range(12):
            x = r.random()
            script.append("ack" if x < 0.8 else "rst" if x < 0.9 else "silent")
        if r.random() < 0.5:
            script = ["ack"] * 12
        special = r.choice([None, None, "reregister", "deregister", "unrelated", "icmp", "rst-now"])
        t_reg = r.choice([0.0, 0.0, 0.2, 3.0])
        # what the registration's FIRST rendering does: nothing special, take 1.5 s, fail (renderable error, plain
        # exception, unsuccessful response) at once or after 1.5 s
        first = r.choice(["normal"] * 6 + ["slow", "slow", "raise", "raise-plain", "error", "slow-raise", "slow-add", "slow-add"])
        special_at = r.uniform(0.5, 12.0)
        if first.startswith("slow") and special and r.random() < 0.7:
            special_at = t_reg + r.choice([0.3, 0.7, 1.2])  # the special event lands inside the first rendering
        observers.append({"type": typ, "script": script, "ack_delay": r.choice([0.0, 0.0, 0.3, 2.5]), "special": special, "special_at": special_at, "t_reg": t_reg, "first": first})
    triggers = []
    t = 1.0
    render_delay = r.choice([0.0, 0.0, 0.0, 0.004, 0.02, 0.3])
    prev_special = False
    for _ in range(r.randrange(2, 11)):
        gap = r.choice([0.0, 0.0005, 0.0015, 0.01, 1.0, 5.0])
        if prev_special and gap == 0.0:
            gap = 0.0005  # a same-instant later trigger would coalesce the unsuccessful / last one away
        t += gap
        kind = "update"
        x = r.random()
        # with a rendering that takes time a later trigger can overwrite an unsuccessful / last one before it is
        # processed (coalescing is allowed), so those are only scheduled with instantaneous renderings
        if x < 0.06 and not render_delay:
            kind = "unsuccessful"
        elif x < 0.12 and not render_delay:
            kind = "last"
        triggers.append({"t": t, "kind": kind})
        prev_special = kind != "update"
    # a rendering that takes time (the handler reads its state, then awaits something): state changes can land
    # while a notification is being rendered and must still lead to a notification carrying them
    late_special = False
    if render_delay and triggers and r.random() < 0.35:
        # an explicit final notification (marked last / unsuccessful) pushed while an earlier rendering may still be
        # under way; it is the last trigger of the history, so nothing can coalesce it away
        triggers[-1]["kind"] = r.choice(["last", "unsuccessful"])
        late_special = True
    shutdown_at = t + r.choice([20.0, 150.0])
    slow = [o for o in observers if o["first"].startswith("slow")]
    if slow:
        # (like with slow renderings in general: an unsuccessful / last trigger is only processed once the
        # rendering under way is done, so its instant is not the registration's end)
        for tr in triggers:
            tr["kind"] = "update"
        late_special = False
    if slow and r.random() < 0.15:
        late = r.choice(slow)
        late["t_reg"] = shutdown_at - 0.7  # the context shuts down while this first rendering is under way
        late["special"] = None
    # the resource mixes reliability within a registration (RFC 7641 4.5: mostly non-confirmable, a confirmable one now
    # and then), whatever the type of the registering request was
    rel = r.choice([None, None, None, "mixed-3", "mixed-2"])
    # the handler keeps the response object of a registration and returns the same object from every rendering (once the
    # exchange that carried it before is complete), instead of building a new Message each time
    reuse = r.choice([None, "kept"])
    if not slow and triggers and triggers[-1]["kind"] == "update" and r.random() < (0.6 if reuse else 0.2):
        # more histories in which the resource itself ends the registrations with its closing trigger
        triggers[-1]["kind"] = "last"
        late_special = bool(render_delay)
    # how a trigger marked last is raised: with a new Message, with no message at all (the rendering that follows is the
    # last notification), or with the Message object the registration has sent before
    for tr in triggers:
        if tr["kind"] == "last":
            tr["how"] = r.choice(["push-new", "render", "push-kept"] + (["render", "push-kept", "push-kept"] if reuse else []))
    return {"observers": observers, "triggers": triggers, "shutdown_at": shutdown_at, "render_delay": render_delay, "late_special": late_special, "rel": rel, "reuse": reuse}


def run_history(h, seed, rep, case):
    from harness import scenario, simnet, refcodec as rc
    import asyncio
    import aiocoap
    import aiocoap.resource as R

    box = {}

    async def main(loop):
        net = simnet.SimNet(loop)
        S = simnet.addr("10.0.0.1", 5683)
        rlog = []  # resource-side log

        class Proxy:
            def __init__(self, so, rid):
                self._so, self._rid = so, rid

            def accept(self, cb):
                def wrapped():
                    rlog.append({"ev": "cancel-cb", "rid": self._rid, "t": loop.time(), "seq": len(net.log)})
                    return cb()

                self._so.accept(wrapped)

            def __getattr__(self, name):
                return getattr(self._so, name)

        class Obs(R.ObservableResource):
            def __init__(self):
                super().__init__()
                self.version = 0
                self.rids = {}
                self.nrid = 0
                self.first_done = set()
                self.kept = {}  # rid -> {"msg": Message handed out before, "payloads": [...], "busy": bool}

            def kept_free(self, rid):
                """The response object kept for this registration, if the handler may touch it again: everything it was
                handed over for has been on the wire, and confirmable transmissions of it have been answered."""
                k = self.kept.get(rid)
                if k is None or k["busy"]:
                    return None
                for pl in k["payloads"]:
                    sent = [e for e in net.log if e.kind == "send" and e.src == S and e.msg is not None and e.msg.payload == pl and rc.is_response(e.msg.code)]
                    if not sent:
                        return None  # held back behind another exchange (or never sent)
                    for e in sent:
                        if e.msg.type == rc.CON and not any(x.kind == "deliver" and x.dst == S and x.src == e.dst and x.msg is not None and x.msg.mid == e.msg.mid and x.msg.type in (rc.ACK, rc.RST) and x.seq > e.seq for x in net.log):
                            return None  # may still be retransmitted from the object
                k["payloads"] = k["payloads"][-1:]
                return k["msg"]

            def keep(self, rid, m):
                k = self.kept.get(rid)
                if k is None or k["msg"] is not m:
                    k = self.kept[rid] = {"msg": m, "payloads": [], "busy": False}
                k["payloads"].append(bytes(m.payload))
                return k

            async def add_observation(self, request, serverobservation):
                self.nrid += 1
                rid = self.nrid
                self.rids[id(request)] = rid
                self._keep = getattr(self, "_keep", []) + [request]
                rlog.append({"ev": "register", "rid": rid, "t": loop.time(), "seq": len(net.log), "remote": (request.remote.sockaddr[0], request.remote.sockaddr[1]), "token": bytes(request.token), "count_before": len(self._observations)})
                await super().add_observation(request, Proxy(serverobservation, rid))
                idx = bytes(request.token)[0] - 0xA0 if request.token else -1
                if 0 <= idx < len(h["observers"]) and h["observers"][idx].get("first") == "slow-add" and rid not in self.first_done:
                    # the registration is accepted (counted) and the resource then takes its time over setting something up
                    # for it before the first rendering
                    rep.monitor("slow_add_observation")
                    await asyncio.sleep(1.5)

            def update_observation_count(self, newcount):
                rlog.append({"ev": "count", "n": newcount, "t": loop.time(), "seq": len(net.log)})

            async def render_get(self, request):
                rid = self.rids.get(id(request), 0)
                ver = self.version  # the state is read first ...
                rlog.append({"ev": "render", "rid": rid, "ver": ver, "t": loop.time(), "seq": len(net.log)})
                if rid and rid not in self.first_done:
                    self.first_done.add(rid)
                    idx = bytes(request.token)[0] - 0xA0 if request.token else -1
                    fb = h["observers"][idx].get("first", "normal") if 0 <= idx < len(h["observers"]) else "normal"
                    rep.count("first_render_" + fb)
                    if fb in ("slow", "slow-raise"):
                        await asyncio.sleep(1.5)
                    if fb in ("raise", "raise-plain", "error", "slow-raise"):
                        rlog.append({"ev": "first-fail", "rid": rid, "t": loop.time(), "seq": len(net.log)})
                        if fb == "error":
                            return aiocoap.Message(code=aiocoap.NOT_FOUND, payload=b"nothing here")
                        if fb == "raise-plain":
                            raise RuntimeError("first rendering failed")
                        raise aiocoap.error.NotFound("first rendering failed")
                if h.get("render_delay"):
                    await asyncio.sleep(h["render_delay"])  # ... then the handler takes its time
                m = self.kept_free(rid) if h.get("reuse") and rid else None
                if m is not None:
                    rep.monitor("kept_response_object_returned_again")
                    m.payload = b"rid=%d;ver=%d" % (rid, ver)
                else:
                    m = aiocoap.Message(payload=b"rid=%d;ver=%d" % (rid, ver))
                if h.get("reuse") and rid:
                    self.keep(rid, m)
                if h.get("rel"):
                    k = int(h["rel"].split("-")[1])
                    m.transport_tuning = aiocoap.Reliable() if ver % k == 0 else aiocoap.Unreliable()
                    rep.monitor("mixed_reliability_notification")
                return m

        res_ = Obs()
        site = R.Site()
        site.add_resource(["obs"], res_)
        srv = await simnet.make_context(net, "10.0.0.1", 5683, site)
        peers = []

        def mk_on_msg(i, ob):
            st = {"seen": [], "tokens": {bytes([0xA0 + i])}}

            def on_msg(peer, src, m, raw):
                if m is None or not rc.is_response(m.code) or m.type == rc.ACK:
                    return
                if m.mid in st["seen"]:
                    idx = st["seen"].index(m.mid)
                else:
                    st["seen"].append(m.mid)
                    idx = len(st["seen"]) - 1
                # index 0 is the first notification after the (piggybacked / separate) first response
                if m.mid in st.setdefault("react", {}):
                    react = st["react"][m.mid]  # a retransmitted copy gets the same reaction as the first copy
                else:
                    react = ob["script"][min(idx, len(ob["script"]) - 1)]
                    if ob.get("rst_all"):
                        react = "rst"
                    st["react"][m.mid] = react
                if react == "ack":
                    if m.type == rc.CON:
                        loop.call_later(ob["ack_delay"], peer.send, src, rc.Msg(rc.ACK, 0, m.mid, b"", (), b""))
                elif react == "rst":
                    loop.call_later(ob["ack_delay"], peer.send, src, rc.Msg(rc.RST, 0, m.mid, b"", (), b""))

            return on_msg

        for i, ob in enumerate(h["observers"]):
            p = simnet.RawPeer(net, "10.0.0.%d" % (2 + i // 2), 40000 + i, mk_on_msg(i, ob))
            peers.append(p)

        def register(i, observe=0):
            ob = h["observers"][i]
            p = peers[i]
            opts = [(11, b"obs")]
            if observe is not None:
                opts.append((6, rc.uint_bytes(observe)))
            p.send(S, rc.Msg(rc.CON if ob["type"] == "CON" else rc.NON, 1, p.next_mid(), bytes([0xA0 + i]), tuple(sorted(opts)), b""))

        def trigger(tr):
            if tr["kind"] == "update":
                res_.version += 1
                res_.updated_state()
            elif tr["kind"] == "unsuccessful":
                res_.version += 1
                live = list(res_._observations)
                if len(live) == 1:
                    # the library's own fan-out helper
                    res_.updated_state(aiocoap.Message(code=aiocoap.NOT_FOUND, payload=b"rid=%d;gone;ver=%d" % (live[0]._rid, res_.version)))
                else:
                    for o in live:
                        o.trigger(aiocoap.Message(code=aiocoap.NOT_FOUND, payload=b"rid=%d;gone;ver=%d" % (o._rid, res_.version)))
            else:
                res_.version += 1
                how = tr.get("how", "push-new")
                for o in list(res_._observations):
                    rep.monitor("last_trigger_" + how)
                    if how == "render":
                        # no message given: the rendering the library asks for next is the last notification
                        o.trigger(None, is_last=True)
                        continue
                    m = res_.kept_free(o._rid) if how == "push-kept" and h.get("reuse") else None
                    if m is not None:
                        rep.monitor("last_trigger_with_kept_object")
                        m.code = aiocoap.CONTENT
                        m.payload = b"rid=%d;lastmsg;ver=%d" % (o._rid, res_.version)
                        res_.keep(o._rid, m)["busy"] = True  # handed to the library for good
                    else:
                        m = aiocoap.Message(code=aiocoap.CONTENT, payload=b"rid=%d;lastmsg;ver=%d" % (o._rid, res_.version))
                    o.trigger(m, is_last=True)
            rlog.append({"ev": "trigger", "kind": tr["kind"], "how": tr.get("how"), "ver": res_.version, "t": loop.time(), "seq": len(net.log)})

        def special(i):
            ob = h["observers"][i]
            sp = ob["special"]
            if sp == "reregister":
                register(i, 0)
            elif sp == "deregister":
                register(i, 1)
            elif sp == "unrelated":
                register(i, None)
            elif sp == "icmp":
                net.inject_error(S, peers[i].addr, 111)
            elif sp == "rst-now":
                ob["rst_all"] = True

        timeline = []
        for i, ob in enumerate(h["observers"]):
            timeline.append((ob["t_reg"], 0, lambda i=i: register(i)))
            if ob["special"]:
                timeline.append((ob["special_at"], 2, lambda i=i: special(i)))
        for tr in h["triggers"]:
            timeline.append((tr["t"], 1, lambda tr=tr: trigger(tr)))
        timeline.sort(key=lambda x: (x[0], x[1]))
        now = 0.0
        for t, _, fn in timeline:
            if t >= h["shutdown_at"]:
                break
            if t > now:
                await asyncio.sleep(t - now)
                now = t
            fn()
        await asyncio.sleep(max(0.0, h["shutdown_at"] - now))
        t_sd = loop.time()
        rlog.append({"ev": "shutdown", "t": t_sd, "seq": len(net.log)})
        await srv.shutdown()
        await asyncio.sleep(120)
        box.update(net=net, S=S, rlog=rlog, peers=[p.addr for p in peers], t_sd=t_sd, final_count=len(res_._observations))
        return True

    res = scenario.run(main, seed, horizon=1e6)
    if not res.ok:
        if res.horizon:
            rep.inconc("horizon")
        else:
            rep.violation("scenario-failed", "history did not run to completion: hang=%r error=%r" % (res.hang, res.error), {"history": repr(h)[:1500], "tb": rep.exception_witness(res.error) if res.error else None}, case)
        return
    judge(h, box, res, rep, case)


def judge(h, box, res, rep, case):
    from harness import refcodec as rc

    net, S, rlog, peers = box["net"], box["S"], box["rlog"], box["peers"]
    wit = lambda **kw: dict(history=repr(h)[:2000], resource_log=[{k: (v.hex() if isinstance(v, bytes) else v) for k, v in e.items()} for e in rlog][:80], wire=net.dump(90), **kw)
    for li, e in enumerate(rlog):
        e["li"] = li  # position in the resource-side log: decides the order of entries that share a wire-log position
    regs = [e for e in rlog if e["ev"] == "register"]
    cbs = {}
    for e in rlog:
        if e["ev"] == "cancel-cb":
            cbs.setdefault(e["rid"], []).append(e)
    triggers = [e for e in rlog if e["ev"] == "trigger"]
    ended_early = 0
    overlapped = False
    # notifications per rid: first transmissions on the wire
    notifs = {}
    for e in net.log:
        if e.kind == "send" and e.src == S and e.msg is not None and rc.is_response(e.msg.code):
            pl = e.msg.payload
            rid = None
            if pl.startswith(b"rid="):
                rid = int(pl[4 : pl.index(b";")])
            notifs.setdefault((e.dst, e.msg.token), []).append(e)
    def stamped_ver(e):
        pl = e.msg.payload
        return int(pl[pl.index(b";ver=") + 5 :]) if pl.startswith(b"rid=") and b";ver=" in pl else None

    def closes(e, tr):
        """Is this datagram the notification that trigger tr (unsuccessful / marked last) is sent as?"""
        if e.seq < tr["seq"]:
            return False
        if not (64 <= e.msg.code < 96) or b";lastmsg;" in e.msg.payload:
            return True
        # marked last without a message: the first rendering begun after the trigger (renderings stamp the version
        # they read when they begin, every trigger raises the version)
        return tr.get("how") == "render" and (stamped_ver(e) or 0) >= tr["ver"]

    def closing_how(e, reg):
        for tr in triggers:
            if tr["kind"] == "last" and tr["seq"] >= reg["seq"] and tr["li"] > reg["li"] and closes(e, tr):
                return tr.get("how") or "push-new"
        return None

    first_seq = {}
    for es in notifs.values():
        for e in es:
            first_seq.setdefault((e.dst, e.msg.mid), e.seq)
    for reg in regs:
        rid = reg["rid"]
        dst, tok = reg["remote"], reg["token"]
        nxt = [r2 for r2 in regs if r2["remote"] == dst and r2["token"] == tok and r2["seq"] > reg["seq"]]
        seq_hi = nxt[0]["seq"] if nxt else 10**12
        mine_all = [e for e in notifs.get((dst, tok), []) if reg["seq"] <= e.seq < seq_hi + 0 or (e.seq >= reg["seq"] and e.msg.payload.startswith(b"rid=%d;" % rid))]
        # only datagrams stamped with this rid, or the unsuccessful / last messages sent while it was the live registration
        mine = []
        seen_mids = set()
        for e in mine_all:
            if first_seq.get((e.dst, e.msg.mid), e.seq) < reg["seq"]:
                continue  # a retransmission of something first sent before this registration existed
            pl = e.msg.payload
            stamped = pl.startswith(b"rid=")
            if stamped and not pl.startswith(b"rid=%d;" % rid):
                continue
            if not stamped and not (reg["seq"] <= e.seq < seq_hi):
                continue
            if e.msg.mid in seen_mids:
                continue  # retransmission
            seen_mids.add(e.msg.mid)
            mine.append(e)
        # ---- (a) token + strictly rising Observe ----
        rep.monitor("token_and_rising_observe")
        obsvals = []
        obsev = []
        for e in mine:
            if e.msg.token != tok or e.dst != dst:
                rep.violation("notification-with-foreign-token", "a notification of a registration carries another token / goes to another endpoint", wit(rid=rid, event=e.brief()), case)
                return
            o = rc.opt1(e.msg, 6)
            if o is not None:
                obsvals.append(rc.uint_value(o))
                obsev.append(e)
        bad = [i + 1 for i, (a, b) in enumerate(zip(obsvals, obsvals[1:])) if b <= a]
        if bad:
            e = obsev[bad[0]]
            how = closing_how(e, reg)
            if how is not None:
                # the message that repeats / falls behind is the notification the resource marked last
                key = "observe-values-not-rising/last-notification%s/%s" % ("-in-kept-response-object" if h.get("reuse") else "", how)
                text = "the notification marked last carries an Observe value that is not above the previous notification's"
            else:
                key, text = "observe-values-not-rising", "Observe values within one registration are not strictly increasing"
            rep.violation(key, text, wit(rid=rid, values=obsvals, event=e.brief()), case)
            return
        if h.get("reuse"):
            rep.monitor("rising_observe_with_kept_object")
        if len(mine) > 2 and any(b.t - a.t < 1.0 for a, b in zip(mine, mine[1:])):
            overlapped = True
        # ---- (c) ending instant from the listed causes ----
        # cause = (t_end, seq or None, name, t_tx, seq_tx): the registration ends at t_end (the cancellation callback is
        # expected then); nothing may be first-transmitted for it after (t_tx, seq_tx) - for unsuccessful / last
        # notifications that is the first transmission of the terminating message itself, otherwise the end.
        causes = []
        mids = {e.msg.mid: e for e in mine}
        mid_type = {e.msg.mid: e.msg.type for e in mine}
        for e in net.log:
            if e.seq < reg["seq"]:
                continue
            if e.kind == "deliver" and e.dst == S and e.src == dst and e.msg is not None:
                if e.msg.type == rc.RST and e.msg.mid in mids and mids[e.msg.mid].seq < e.seq:
                    acked_before = [x for x in net.log if x.seq < e.seq and x.kind == "deliver" and x.dst == S and x.src == dst and x.msg is not None and x.msg.mid == e.msg.mid and x.msg.type == rc.ACK]
                    if not acked_before:
                        causes.append((e.t, e.seq, "rst-con" if mid_type[e.msg.mid] == rc.CON else "rst-non", e.t, e.seq))
                if rc.is_request(e.msg.code) and e.msg.token == tok and e.t > reg["t"] + 1e-9:
                    causes.append((e.t, e.seq, "new-request-on-token", e.t, e.seq))
            if e.kind == "error" and e.dst == S and e.src == dst:
                causes.append((e.t, e.seq, "transport-error", e.t, e.seq))
        for ff in rlog:
            if ff["ev"] == "first-fail" and ff["rid"] == rid:
                # the first rendering failed: the registration that add_observation() accepted ends with the
                # unsuccessful first response
                # (the unsuccessful response itself may wait behind an unacknowledged message to that endpoint)
                term = [e for e in mine if e.seq >= ff["seq"] and not (64 <= e.msg.code < 96)]
                causes.append((ff["t"], ff["seq"], "first-response-unsuccessful", term[0].t if term else ff["t"], term[0].seq if term else ff["seq"]))
        for tr in triggers:
            if tr["seq"] >= reg["seq"] and tr["li"] > reg["li"] and tr["kind"] in ("unsuccessful", "last") and tr["t"] > reg["t"] - 1e-12:
                term = [e for e in mine if closes(e, tr)]
                if term:
                    causes.append((tr["t"], None, tr["kind"], term[0].t, term[0].seq))
                else:
                    causes.append((tr["t"], None, tr["kind"], tr["t"], None))
                break
        # a confirmable message to the observer's endpoint that is given up fails everything for that endpoint
        con_first = {}
        for x in net.log:
            if x.kind == "send" and x.src == S and x.dst == dst and x.msg is not None and x.msg.type == rc.CON:
                con_first.setdefault(x.msg.mid, []).append(x)
        for mid_, xs in con_first.items():
            tx = [x.t for x in xs]
            if len(tx) == 5:
                give = tx[0] + (tx[1] - tx[0]) * 31
                acked = [x for x in net.log if x.kind == "deliver" and x.dst == S and x.src == dst and x.msg is not None and x.msg.mid == mid_ and x.msg.type in (rc.ACK, rc.RST) and x.seq > xs[0].seq and x.t <= give]
                if not acked and give > reg["t"]:
                    causes.append((give, None, "con-timeout", give, None))
        causes.append((box["t_sd"], None, "shutdown", box["t_sd"], None))
        causes.sort(key=lambda c: (c[0], c[1] if c[1] is not None else 10**12))
        E = causes[0]
        rep.monitor("end_cause")
        rep.count("end_" + E[2])
        if E[2] != "shutdown":
            ended_early += 1
        # ---- (d) callback exactly once, not before any cause, and by the ending instant ----
        rep.monitor("callback_once")
        mycb = cbs.get(rid, [])
        if len(mycb) > 1:
            rep.violation("cancellation-callback-twice", "the resource's cancellation callback ran %d times for one registration" % len(mycb), wit(rid=rid), case)
            return
        if not mycb:
            rep.violation("cancellation-callback-never/%s" % E[2], "the registration's cancellation callback never ran", wit(rid=rid, cause=E), case)
            return
        t_cb = mycb[0]["t"]
        slack = 0.0
        if h.get("late_special") and E[2] in ("last", "unsuccessful"):
            # a rendering under way when the final notification was pushed is finished (and sent) first
            slack = 2 * h["render_delay"] + 0.01
            rep.monitor("explicit_final_during_render")
            fin = [tr for tr in triggers if tr["kind"] == E[2] and abs(tr["t"] - E[0]) < 1e-9]
            term = [e for e in mine if e.seq >= fin[0]["seq"] and (rc.opt1(e.msg, 6) is None or not (64 <= e.msg.code < 96))] if fin else []
            if term and fin:
                pl = term[0].msg.payload
                want = b";ver=%d" % fin[0]["ver"]
                if not pl.endswith(want):
                    rep.violation("explicit-final-notification-lost", "the message that ended the registration is not the explicit final notification the resource pushed (a rendering that was under way went out marked as the end instead, and the final one was never sent)", wit(rid=rid, cause=E, terminating=term[0].brief(), pushed_version=fin[0]["ver"]), case)
                    return
        if t_cb < E[0] - 1e-6:
            rep.violation("ended-without-listed-cause", "the registration ended at %r although none of the listed causes had occurred (first cause: %r)" % (t_cb, E), wit(rid=rid), case)
            return
        ignored = t_cb > E[0] + slack + 1e-6
        if ignored:
            key = "rst-to-non-notification-ignored" if E[2] == "rst-non" else "end-cause-ignored/%s" % E[2]
            rep.violation(key, "the registration did not end when its ending cause (%s at t=%r) occurred; the cancellation callback ran only at t=%r" % (E[2], E[0], t_cb), wit(rid=rid, cause=E), case)
            if E[2] != "rst-non":
                return
        # ---- nothing first-transmitted after the end ----
        rep.monitor("nothing_after_end")
        renders = [x for x in rlog if x["ev"] == "render" and x["rid"] == rid]
        for e in mine:
            if ignored:
                break
            t_tx, seq_tx = E[3], E[4]
            after = (e.seq > seq_tx) if (seq_tx is not None and abs(e.t - t_tx) < 1e-9) else (e.t > t_tx + 1e-9)
            if not after:
                continue
            # was it rendered before the end (then it sat in the NSTART backlog) or after it?
            pl = e.msg.payload
            ver = int(pl[pl.index(b";ver=") + 5 :]) if b";ver=" in pl and pl.startswith(b"rid=") else None
            rend = [x for x in renders if x["ver"] == ver and x["seq"] <= e.seq] if ver is not None else []
            queued = bool(rend) and rend[-1]["t"] <= E[0] + 1e-9
            if queued and E[2] in ("unsuccessful", "last", "first-response-unsuccessful"):
                # The registration ends WITH its unsuccessful / last notification. What was rendered before that one
                # and waits ahead of it in the same per-endpoint queue goes out before it, i.e. before the end (the
                # terminating message itself may never make it to the wire when the exchange ahead times out).
                rep.count("queued_ahead_of_the_terminating_notification")
                continue
            key = "queued-notification-sent-after-end" if queued else "notification-after-end/%s" % E[2]
            if E[2] == "rst-non":
                # the Reset to a NON notification had no effect at all (known mechanism); whatever ended the
                # registration in the same instant was another cause
                key = "rst-to-non-notification-ignored"
            rep.violation(key, "a notification of a registration was first transmitted after the registration had ended by %s%s" % (E[2], " (it had been rendered before the end and waited behind an unacknowledged notification)" if queued else ""), wit(rid=rid, cause=E, event=e.brief()), case)
            break
        # ---- (b) latest state ----
        changes = [tr for tr in triggers if tr["kind"] == "update" and tr["seq"] >= reg["seq"] and tr["t"] < min(E[0], t_cb) - 1e-9]
        if changes and E[2] == "shutdown":
            if box["t_sd"] - changes[-1]["t"] < 95.0:
                rep.count("latest_state_not_judged_run_too_short")
            else:
                rep.monitor("latest_state")
                last_ver = changes[-1]["ver"]
                vers = []
                for e in mine:
                    pl = e.msg.payload
                    if b";ver=" in pl:
                        vers.append(int(pl[pl.index(b";ver=") + 5 :]))
                if not vers or max(vers) < last_ver:
                    rep.violation("latest-state-never-sent", "after the last state change no notification rendered at or after it was sent although the registration stayed alive for more than MAX_TRANSMIT_WAIT afterwards", wit(rid=rid, last_ver=last_ver, sent=vers), case)
    # ---- observer count ----
    rep.monitor("count_returns")
    counts = [e["n"] for e in rlog if e["ev"] == "count"]
    if box["final_count"] != 0 or (counts and counts[-1] != 0):
        rep.violation("observer-count-not-returned", "after all registrations ended the resource's observer count is not back to zero", wit(counts=counts, final=box["final_count"]), case)
    n = 0
    for e in rlog:
        if e["ev"] == "count":
            if abs(e["n"] - n) != 1:
                rep.violation("observer-count-jump", "the reported observer count changed by other than one", wit(counts=counts), case)
                break
            n = e["n"]
    if res.loop_exceptions:
        rep.violation("loop-exception/" + str(res.loop_exceptions[0].get("exc_type")), "an exception reached the event loop", wit(loop=res.loop_exceptions[:2]), case)
    sig = (tuple((o["type"], tuple(o["script"][:4]), o["special"], o["ack_delay"] > 0) for o in h["observers"]), tuple(t["kind"][0] for t in h["triggers"]), tuple(min(int((b["t"] - a["t"]) * 1000), 2000) for a, b in zip(h["triggers"], h["triggers"][1:])))
    rep.case(sig, nontrivial=ended_early > 0 or overlapped)


def run_shared_response(seed, rep, case):
    """updated_state(response) with several observers: every observer must get the message under its own token and
    registration type, and an unacknowledged copy must be retransmitted unchanged."""
    from harness import scenario, simnet, refcodec as rc
    import asyncio
    import aiocoap
    import aiocoap.resource as R

    box = {}

    async def main(loop):
        net = simnet.SimNet(loop)
        S = simnet.addr("10.0.0.1", 5683)

        class Obs(R.ObservableResource):
            async def render_get(self, request):
                return aiocoap.Message(payload=b"state")

        res_ = Obs()
        site = R.Site()
        site.add_resource(["obs"], res_)
        srv = await simnet.make_context(net, "10.0.0.1", 5683, site)

        def mk(i, silent):
            def on_msg(peer, src, m, raw):
                if m is not None and rc.is_response(m.code) and m.type == rc.CON and not silent:
                    peer.send(src, rc.Msg(rc.ACK, 0, m.mid, b"", (), b""))

            return on_msg

        peers = [simnet.RawPeer(net, "10.0.0.2", 40000 + i, mk(i, i == 0)) for i in range(3)]
        types = [rc.CON, rc.CON, rc.NON]
        for i, p in enumerate(peers):
            p.send(S, rc.Msg(types[i], 1, p.next_mid(), bytes([0xB0 + i]), ((6, b""), (11, b"obs")), b""))
        await asyncio.sleep(1)
        res_.updated_state(aiocoap.Message(code=aiocoap.NOT_FOUND, payload=b"gone-shared"))
        await asyncio.sleep(120)
        box.update(net=net, S=S, peers=[p.addr for p in peers], types=types)
        await srv.shutdown()
        return True

    res = scenario.run(main, seed)
    if not res.ok:
        rep.violation("shared-response/scenario-failed", "scenario did not complete: hang=%r error=%r" % (res.hang, res.error), {}, case)
        return
    net, S = box["net"], box["S"]
    rep.monitor("token_and_rising_observe")
    wit = lambda **kw: dict(wire=net.dump(60), loop=res.loop_exceptions[:2], **kw)
    for i, dst in enumerate(box["peers"]):
        got = [e for e in net.log if e.kind == "send" and e.src == S and e.dst == dst and e.msg is not None and e.msg.payload == b"gone-shared"]
        if not got:
            rep.violation("shared-response/not-delivered", "an observer did not receive the response passed to updated_state()", wit(observer=i), case)
            continue
        if any(e.msg.token != bytes([0xB0 + i]) for e in got):
            rep.violation("notification-with-foreign-token", "a notification was sent to an observer under another registration's token", wit(observer=i, events=[e.brief() for e in got]), case)
        want_type = rc.CON if box["types"][i] == rc.CON else rc.NON
        if any(e.msg.type != want_type for e in got):
            rep.violation("shared-response/wrong-message-type", "a notification for a %s registration was sent with another message type" % ("CON" if want_type == rc.CON else "NON"), wit(observer=i, events=[e.brief() for e in got]), case)
        if i == 0 and (len(got) != 5 or any(e.data != got[0].data for e in got)):
            rep.violation("shared-response/retransmission-broken", "the unacknowledged notification was not retransmitted 4 times byte-identically (%d transmissions)" % len(got), wit(events=[e.brief() for e in got]), case)
    if res.loop_exceptions:
        rep.violation("loop-exception/" + str(res.loop_exceptions[0].get("exc_type")), "an exception reached the event loop", wit(), case)
    rep.case(("shared-response",), nontrivial=True)


def run_shard(shard, rep, only=None):
    from harness import vloop

    vloop.install_time()
    import aiocoap  # noqa

    r = random.Random(shard["seed"])
    for k in range(shard["n"]):
        h = gen(r)
        case = ["hist", k]
        if only is not None and only != case:
            continue
        run_history(h, shard["seed"] * 65537 + k, rep, case)
        if k < 1 and shard["index"] == 0:
            rep.sample({"class": "history", "history": h})
    case = ["shared-response"]
    if only is None or only == case:
        run_shared_response(shard["seed"], rep, case)
