"""C01 — datagram codec: forward exactness, backward agreement, totality, receive paths.

Oracle: harness.refcodec (independent RFC 7252 section 3 codec)."""

import random

ID = "C01"
LEVEL = "exploration"
TECHNIQUE = "differential runtime monitoring: real Message.encode/decode and both datagram receive paths driven with generated + systematically mutated datagrams, judged by an independent RFC 7252 reference codec; datagram sizes up to 65 kB through aiocoap's recvmsg transport on a real (AF_UNIX) datagram socket"
LEVEL_TEXT = "Held on every generated case: ~2e5 (quick) / ~2e7 (thorough) messages and byte strings incl. exhaustive single-byte substitutions, truncations and the extended-field boundary grid; says nothing about inputs outside the generators' classes."
LEVEL_NOTE = "Trusted: harness/refcodec.py (self-tested on RFC example datagrams each run); option value legality table in checks/c01.py."
RULE = (
    "cases are (a) generated field sets built through the public Message API and compared byte-for-byte with the "
    "reference encoder, (b) reference-encoded well-formed datagrams (non-minimal uints, unknown/repeated options, "
    "extended-field boundaries) decoded and compared on values, (c) every single-byte substitution / truncation / "
    "insertion / deletion of valid datagrams plus random strings, checked for totality and round trip, (d) the same "
    "bytes pushed through both receive paths, (e) well-formed datagrams of 0 .. 65 kB (dense around 4096) written to a real datagram socket and read by "
    "aiocoap's recvmsg transport into the udp6 receive path: dispatched as the message they are when the transport read them in full, as that or not at all otherwise. A case is non-trivial when it has at least one option, a token, a payload "
    "or is a mutation; distinct = distinct (class, header shape, option delta/length classes, payload class, outcome) signatures"
)
ASSUMPTIONS = [
    "harness/refcodec.py is a correct reading of RFC 7252 section 3 (self-tested on RFC examples each run)",
    "value legality per format: strings are valid UTF-8 text, uints non-negative, block = (num < 2^20, more, szx 0..7)",
]
REQUIRED_MONITORS = {"forward_bytes": 100, "forward_decode": 100, "backward_values": 100, "totality": 1000, "rx_udp6": 100, "rx_generic": 100, "accepted_in_domain": 1000, "rx_socket": 300, "rx_socket_above_4096": 100, "rx_socket_complete": 100, "rx_socket_complete_at_buffer_size": 5}
EXHAUSTIVE = {"single_byte_substitution": "all 256 values at every offset of each base datagram <= 24 bytes", "truncation": "every prefix length of every base datagram", "ext_field_grid": "delta x length over {0,1,12,13,14,268,269,270,65803,65804}"}

STRING = {3, 8, 11, 15, 20, 35, 39}
UINT = {6, 7, 12, 13, 14, 16, 17, 28, 60, 258}
BLOCK = {23, 27}
KNOWN_NUMBERS = [1, 3, 4, 5, 6, 7, 8, 9, 11, 12, 13, 14, 15, 16, 17, 19, 20, 21, 23, 27, 28, 31, 35, 39, 60, 252, 258, 292, 548]
BOUND = [0, 1, 12, 13, 14, 268, 269, 270, 65803, 65804]


def plan(tier, seed):
    n = 16
    per = {"quick": 2500, "thorough": 250000}[tier]
    return [{"name": "c01-%d" % i, "seed": seed * 1000 + i, "n": per, "index": i, "of": n, "tier": tier} for i in range(n)]


def fmt_of(number):
    if number in STRING:
        return "s"
    if number in UINT:
        return "u"
    if number in BLOCK:
        return "b"
    return "o"


def ref_raw(number, value):
    from harness import refcodec as rc

    f = fmt_of(number)
    if f == "s":
        return value.encode("utf8")
    if f == "u":
        return rc.uint_bytes(value)
    if f == "b":
        return rc.block_bytes(*value)
    return bytes(value)


def ref_value(number, raw):
    from harness import refcodec as rc

    f = fmt_of(number)
    if f == "s":
        return raw.decode("utf8")
    if f == "u":
        return rc.uint_value(raw)
    if f == "b":
        return rc.block_value(raw)
    return bytes(raw)


def cls(v):
    for i, b in enumerate((0, 1, 12, 13, 268, 269, 65803, 65804)):
        if v <= b:
            return i if v == b else i + 100
    return 999


def gen_text(r, n):
    # includes text that is valid UTF-8 but not in NFC (decomposed accent, singletons, conjoining jamo, reordered
    # combining marks): option values are opaque to the codec and must not be normalised
    alphabet = ["a", "Z", "0", "/", "?", "&", "=", "%", "#", " ", "ä", "€", "\U0001f600", "\x00", "\x7f", "�", "e\u0301", "\u212b", "\u2126", "\uf900", "\u1100\u1161", "a\u0323\u0307", "a\u0307\u0323"]
    return "".join(r.choice(alphabet) for _ in range(n))


def gen_value(r, number, big=False):
    f = fmt_of(number)
    ln = r.choice([0, 0, 1, 2, 3, 7, 12, 13, 14, 20, 255, 268, 269, 270, 300]) if not big else r.choice([65803, 65804, 1000, 5000])
    if f == "s":
        t = gen_text(r, min(ln, 300) if not big else 10)
        if big:
            t = "x" * ln
        return t
    if f == "u":
        return r.choice([0, 1, 255, 256, 65535, 65536, 2**24 - 1, 2**32 - 1, 2**32, r.getrandbits(r.choice([1, 8, 16, 31, 63]))])
    if f == "b":
        return (r.choice([0, 1, 15, 16, 4095, 4096, 2**20 - 1, r.getrandbits(20)]), bool(r.getrandbits(1)), r.randrange(8))
    return bytes(r.getrandbits(8) for _ in range(min(ln, 400))) if not big else b"\xab" * ln


def gen_number(r):
    k = r.random()
    if k < 0.6:
        return r.choice(KNOWN_NUMBERS)
    if k < 0.8:
        return r.choice([0, 2, 10, 12, 13, 14, 268, 269, 270, 300, 1000, 2048, 65000, 65535, 65536, 65803, 65804, 70000, 131608])
    return r.randrange(0, 66000)


def gen_fields(r, boundary=False):
    typ = r.randrange(4)
    code = r.choice([0, 1, 2, 3, 4, 5, 6, 7, 31, 32, 63, 64, 65, 69, 95, 128, 132, 160, 163, 191, 192, 224, 226, 255, r.randrange(256)])
    mid = r.choice([0, 1, 0xFFFF, r.randrange(65536)])
    token = bytes(r.getrandbits(8) for _ in range(r.randrange(9)))
    nopt = r.choice([0, 1, 1, 2, 3, 5, 8])
    options = []
    for _ in range(nopt):
        n = gen_number(r)
        options.append((n, gen_value(r, n)))
        if r.random() < 0.25:  # repeated option
            options.append((n, gen_value(r, n)))
    payload = r.choice([b"", b"", b"\x00", b"\xff", b"\xff\xff\xff", bytes(r.getrandbits(8) for _ in range(r.choice([1, 7, 64, 1024])))])
    return typ, code, mid, token, options, payload


def build(fields):
    import aiocoap
    from aiocoap.numbers.types import Type
    from aiocoap.numbers.optionnumbers import OptionNumber

    typ, code, mid, token, options, payload = fields
    m = aiocoap.Message(code=code, payload=payload)
    m.mtype = Type(typ)
    m.mid = mid
    m.token = token
    for n, v in options:
        m.opt.add_option(OptionNumber(n).create_option(value=v))
    return m


def fields_of(m):
    out = []
    for o in m.opt.option_list():
        v = o.value
        if isinstance(v, tuple):
            v = (int(v[0]), bool(v[1]), int(v[2]))
        elif isinstance(v, int):
            v = int(v)
        out.append((int(o.number), v))
    return (int(m.mtype), int(m.code), m.mid, bytes(m.token), out, bytes(m.payload))


def sig_of(kind, data, outcome):
    from harness import refcodec as rc

    try:
        p = rc.parse(data)
        shape = (p.type, len(p.token), min(len(p.options), 6), tuple(sorted({(cls(n), cls(len(v))) for n, v in p.options}))[:6], cls(len(p.payload)))
    except rc.Malformed as e:
        shape = ("malformed", str(e), min(len(data), 12))
    return (kind, shape, outcome)


class Checker:
    def __init__(self, rep):
        import aiocoap
        from aiocoap import error
        from aiocoap.message import Message, Direction

        self.rep = rep
        self.Message = Message
        self.Direction = Direction
        self.Unparsable = error.UnparsableMessage
        self.rx = None

    def forward(self, fields, kind, case):
        """(a) fields -> Message -> encode == ref; decode gives equal fields; fixed point."""
        from harness import refcodec as rc

        rep = self.rep
        typ, code, mid, token, options, payload = fields
        ref_opts = tuple((n, ref_raw(n, v)) for n, v in options)
        try:
            want = rc.encode(rc.Msg(typ, code, mid, token, ref_opts, payload))
        except rc.Unrepresentable:
            want = None
        try:
            m = build(fields)
            got = m.encode()
        except ValueError as e:
            if want is None:
                rep.count("forward_unrepresentable_both")
                return None
            rep.violation("forward/encode-refuses-representable/" + self.boundary_tag(ref_opts), "Message.encode() raises %s for a message the RFC format can carry" % type(e).__name__, {"fields": repr(fields)[:600], "exc": repr(e)}, case)
            return None
        except Exception as e:
            rep.violation("forward/encode-raises/" + type(e).__name__, "Message.encode() raised %r" % e, {"fields": repr(fields)[:600], "tb": rep.exception_witness(e)}, case)
            return None
        rep.monitor("forward_bytes")
        if want is None:
            rep.violation("forward/encodes-unrepresentable", "encode() produced bytes for fields the wire format cannot carry", {"fields": repr(fields)[:600], "got": got[:64].hex()}, case)
            return None
        if got != want:
            rep.violation("forward/bytes-differ", "Message.encode() differs from the RFC 7252 section 3 serialisation", {"fields": repr(fields)[:600], "got": got[:200].hex(), "want": want[:200].hex()}, case)
            return got
        # decode back
        try:
            m2 = self.Message.decode(got)
        except Exception as e:
            rep.violation("forward/decode-of-own-encoding-raises/" + type(e).__name__, "decode(encode(m)) raised %r" % e, {"fields": repr(fields)[:600], "bytes": got[:200].hex()}, case)
            return got
        rep.monitor("forward_decode")
        sorted_opts = sorted(options, key=lambda o: o[0])
        exp = (typ, code, mid, token, [(n, self.norm(v)) for n, v in sorted_opts], payload)
        f2 = fields_of(m2)
        if f2 != exp:
            rep.violation("forward/decode-fields-differ", "decode(encode(m)) is not equal to m in every field / option order", {"want": repr(exp)[:600], "got": repr(f2)[:600]}, case)
        m2.direction = self.Direction.OUTGOING
        try:
            again = m2.encode()
        except Exception as e:
            rep.violation("forward/reencode-raises/" + type(e).__name__, "re-encoding a decoded message raised %r" % e, {"bytes": got[:200].hex()}, case)
            return got
        if again != got:
            rep.violation("forward/not-a-fixed-point", "encode(decode(encode(m))) != encode(m)", {"first": got[:200].hex(), "second": again[:200].hex()}, case)
        rep.case(sig_of(kind, got, "ok"), nontrivial=bool(options or token or payload))
        return got

    @staticmethod
    def boundary_tag(ref_opts):
        prev = 0
        tags = set()
        for n, v in sorted(ref_opts, key=lambda o: o[0]):
            if n - prev == 65804:
                tags.add("delta-65804")
            if len(v) == 65804:
                tags.add("length-65804")
            prev = n
        return "+".join(sorted(tags)) or "other"

    @staticmethod
    def norm(v):
        if isinstance(v, tuple):
            return (int(v[0]), bool(v[1]), int(v[2]))
        return v

    def backward(self, refmsg, kind, case):
        """(b) well-formed reference datagram -> decode agrees on values."""
        from harness import refcodec as rc

        rep = self.rep
        data = rc.encode(refmsg, sort=True)
        parsed = rc.parse(data)  # what the independent reading says
        try:
            want_opts = [(n, ref_value(n, v)) for n, v in parsed.options]
        except UnicodeDecodeError:
            return self.total(data, kind + "-badutf8", case)
        try:
            m = self.Message.decode(data)
        except self.Unparsable as e:
            rep.violation("backward/wellformed-rejected", "a datagram well-formed under RFC 7252 section 3 was rejected as unparsable", {"bytes": data[:300].hex(), "exc": repr(e)}, case)
            return
        except Exception as e:
            rep.violation("backward/decode-raises/" + type(e).__name__, "decode() of a well-formed datagram raised %r" % e, {"bytes": data[:300].hex(), "tb": rep.exception_witness(e)}, case)
            return
        rep.monitor("backward_values")
        got = fields_of(m)
        want = (parsed.type, parsed.code, parsed.mid, parsed.token, want_opts, parsed.payload)
        if got != want:
            rep.violation("backward/fields-differ", "decode() assigns different fields than an independent reading of RFC 7252 section 3", {"bytes": data[:300].hex(), "got": repr(got)[:500], "want": repr(want)[:500]}, case)
        rep.case(sig_of(kind, data, "ok"), nontrivial=True)
        self.total(data, kind, case, count=False)

    def total(self, data, kind, case, count=True):
        """(c) any bytes: UnparsableMessage, or a message that round-trips."""
        from harness import refcodec as rc

        rep = self.rep
        rep.monitor("totality")
        outcome = None
        try:
            m = self.Message.decode(data)
        except self.Unparsable:
            outcome = "unparsable"
            try:
                p = rc.parse(data)
                for n, v in p.options:
                    ref_value(n, v)
                wellformed = True
            except (rc.Malformed, UnicodeDecodeError):
                wellformed = False
            if wellformed:
                rep.violation("total/wellformed-rejected", "well-formed datagram rejected", {"bytes": data[:300].hex()}, case)
        except Exception as e:
            outcome = "escape"
            rep.violation(self.escape_key("total/decode-escape", e, data), "Message.decode() let %s escape instead of UnparsableMessage" % type(e).__name__, {"bytes": data[:300].hex(), "tb": rep.exception_witness(e)}, case)
        else:
            outcome = "parsed"
            f1 = fields_of(m)
            rep.monitor("accepted_in_domain")
            if len(f1[3]) > 8:
                # token lengths 9-15 "MUST be processed as a message format error" (RFC 7252 section 3); what came out is
                # no message the library can represent (0-8 byte token) and its serialisation is no section 3 datagram
                rep.violation("total/token-longer-than-8-accepted", "a datagram with token length 9-15 was parsed into a message (with a %d byte token) instead of being rejected" % len(f1[3]), {"bytes": data[:300].hex(), "fields": repr(f1)[:300]}, case)
            m.direction = self.Direction.OUTGOING
            try:
                y = m.encode()
                m2 = self.Message.decode(y)
                f2 = fields_of(m2)
            except Exception as e:
                rep.violation(self.reencode_key(e, f1), "a message accepted by decode() does not round-trip: %s on re-encoding/decoding" % type(e).__name__, {"bytes": data[:300].hex(), "fields": repr(f1)[:400], "exc": repr(e)}, case)
            else:
                if f1 != f2:
                    rep.violation("total/lenient-roundtrip-differs", "a message accepted by decode() is not equal to decode(encode(it))", {"bytes": data[:300].hex(), "first": repr(f1)[:400], "second": repr(f2)[:400]}, case)
        if count:
            rep.case(sig_of(kind, data, outcome), nontrivial=True)
        rep.count("outcome_" + outcome)
        self.receive_paths(data, case)
        return outcome

    def socket_path(self, refmsg, kind, case):
        """(e) a well-formed datagram of any size that arrives on the socket is dispatched as what it is, or not at
        all (UDP may drop); never as something else."""
        from harness import refcodec as rc

        rep = self.rep
        data = rc.encode(refmsg)
        try:
            dispatched, received, errors = self.rx.through_socket(data)
        except OSError as e:
            rep.count("socket_path_send_refused_" + str(e.errno))
            return
        rep.monitor("rx_socket")
        rep.seen("rx_socket_size_class", cls(len(data)))
        if len(data) > 4096:
            rep.monitor("rx_socket_above_4096")
        if not received and not errors:
            rep.inconc("the datagram written to the socket pair was not read by the transport")
            return
        for m in dispatched:
            got = fields_of(m)
            want_opts = [(n, ref_value(n, v)) for n, v in refmsg.options]
            want = (refmsg.type, refmsg.code, refmsg.mid, refmsg.token, want_opts, refmsg.payload)
            if got != want:
                what = "truncated" if len(got[5]) < len(want[5]) and want[5].startswith(got[5]) and got[:5] == want[:5] else "other"
                rep.violation("rx/udp6-socket-dispatches-different-message/" + what, "a well-formed datagram read from the socket was dispatched as a different message (%d of %d payload bytes)" % (len(got[5]), len(want[5])), {"datagram_length": len(data), "read_by_transport": received, "head": data[:40].hex(), "got": repr(got)[:300]}, case)
        if received and received[0][0] == len(data):
            # the transport read the datagram in full: there is nothing that entitles it to lose a well-formed message
            rep.monitor("rx_socket_complete")
            if len(data) >= 4096:
                rep.monitor("rx_socket_complete_at_buffer_size")
            if not dispatched:
                rep.violation("rx/udp6-socket-drops-complete-datagram", "a well-formed datagram that the transport had read in full (%d bytes) was not dispatched" % len(data), {"datagram_length": len(data), "read_by_transport": received, "head": data[:40].hex()}, case)
        rep.count("rx_socket_dispatched" if dispatched else "rx_socket_dropped")

    @staticmethod
    def escape_key(prefix, e, data):
        if isinstance(e, UnicodeDecodeError):
            return prefix + "/non-utf8-string-option"
        return prefix + "/" + type(e).__name__

    @staticmethod
    def reencode_key(e, f1):
        if isinstance(e, ValueError) and "out of range" in str(e).lower():
            prev = 0
            for n, v in f1[4]:
                ln = len(v) if isinstance(v, (bytes, str)) else 0
                if n - prev == 65804 or ln == 65804:
                    return "total/reencode-refuses-ext-field-65804"
                prev = n
        return "total/reencode-raises/" + type(e).__name__

    def receive_paths(self, data, case):
        """(d) nothing may escape MessageInterfaceUDP6.datagram_msg_received /
        GenericMessageInterface._received_datagram."""
        rx = self.rx
        if rx is None:
            return
        rep = self.rep
        for name, fn in rx.paths:
            before = len(rx.dispatched)
            try:
                fn(data)
            except Exception as e:
                rep.violation(self.escape_key("rx/%s-escape" % name, e, data), "%s let %s escape for an incoming datagram" % (name, type(e).__name__), {"bytes": data[:300].hex(), "tb": rep.exception_witness(e)}, case)
            rep.monitor("rx_" + name)
            if len(rx.dispatched) > before:
                rep.count("rx_%s_dispatched" % name)
            del rx.dispatched[:]


class RxPaths:
    def close(self):
        try:
            self.sock_transport.close()
        except Exception:
            pass
        self.sock_tx.close()

    def through_socket(self, data):
        """Send one datagram through the socket pair and let the transport read it. Returns (messages dispatched,
        (received length, flags) as the transport saw it)."""
        del self.dispatched[:], self.sock_received[:], self.sock_errors[:]
        self.sock_tx.send(data)
        # (an AF_UNIX socket has no error queue: reading it would hand out the datagram itself; the error-queue half of
        # _read_ready is not this path's subject)
        from aiocoap.util.asyncio import recvmsg

        saved = recvmsg.socknumbers.HAS_RECVERR
        recvmsg.socknumbers.HAS_RECVERR = False
        try:
            self.sock_transport._read_ready()
        finally:
            recvmsg.socknumbers.HAS_RECVERR = saved
        out = list(self.dispatched), list(self.sock_received), list(self.sock_errors)
        del self.dispatched[:]
        return out

    def __init__(self, loop):
        import logging
        import socket
        import struct
        import aiocoap
        from aiocoap.transports.udp6 import MessageInterfaceUDP6
        from aiocoap.transports.generic_udp import GenericMessageInterface

        self.dispatched = []
        log = logging.getLogger("c01rx")
        log.setLevel(logging.CRITICAL)
        outer = self

        class Mgr:
            def dispatch_message(self, m):
                outer.dispatched.append(m)

            def dispatch_error(self, *a):
                pass

        async def mk():
            return MessageInterfaceUDP6(bind=("::", 0), log=log, loop=loop)

        u = loop.run_until_complete(mk())
        u._ctx = Mgr()
        pktinfo = struct.pack("16sI", socket.inet_pton(socket.AF_INET6, "2001:db8::1"), 0)
        anc = [(socket.IPPROTO_IPV6, socket.IPV6_PKTINFO, pktinfo)]

        class G(GenericMessageInterface):
            async def recognize_remote(self, remote):
                return False

        g = G(Mgr(), log, loop)
        # the real receive path below datagram_msg_received: aiocoap's own recvmsg() transport on a real datagram
        # socket (AF_UNIX pair: the kernel's datagram truncation semantics without needing a network)
        from aiocoap.util.asyncio.recvmsg import RecvmsgSelectorDatagramTransport

        class NoLoop:
            def call_soon(self, *a, **kw):
                pass

            def remove_reader(self, *a):
                pass

            def add_reader(self, *a):
                pass

            def is_closed(self):
                return True

        class Proto:
            def connection_made(self, t):
                pass

            def connection_lost(self, exc):
                pass

            def datagram_errqueue_received(self, *a):
                pass

            def error_received(self, exc):
                outer.sock_errors.append(exc)

            def datagram_msg_received(self, data, ancdata, flags, address):
                outer.sock_received.append((len(data), flags))
                u.datagram_msg_received(data, anc, flags, ("2001:db8::2", 5683, 0, 0))

        self.sock_errors = []
        self.sock_received = []
        self.sock_rx, self.sock_tx = socket.socketpair(socket.AF_UNIX, socket.SOCK_DGRAM)
        self.sock_rx.setblocking(False)
        self.sock_tx.setsockopt(socket.SOL_SOCKET, socket.SO_SNDBUF, 1 << 20)
        self.sock_transport = RecvmsgSelectorDatagramTransport(NoLoop(), self.sock_rx, Proto(), None)
        self.paths = [
            ("udp6", lambda data: u.datagram_msg_received(data, anc, 0, ("2001:db8::2", 5683, 0, 0))),
            ("generic", lambda data: g._received_datagram("addr", data)),
        ]


def base_datagrams(r):
    from harness import refcodec as rc

    out = [
        bytes.fromhex("40017d34") + b"\xbbtemperature",
        bytes.fromhex("60457d34") + b"\xff22.3 C",
        rc.encode(rc.Msg(0, 1, 0x1234, b"\x01\x02", ((11, b"a"), (11, b"b"), (15, b"q=1")), b"")),
        rc.encode(rc.Msg(1, 2, 1, b"tok", ((12, b"\x28"), (27, b"\x0e"), (60, b"\x04\x00")), b"body")),
        rc.encode(rc.Msg(2, 69, 7, b"12345678", ((4, b"etag"), (6, b"\x05"), (23, b"\x1e")), b"p" * 5)),
        rc.encode(rc.Msg(0, 2, 9, b"", ((3, b"host"), (7, b"\x16\x33"), (35, b"coap://x/")), b"")),
        rc.encode(rc.Msg(0, 1, 3, b"\xaa", ((9, b"\x09\x01"), (258, b"\x1a"), (292, b"t")), b"")),
        rc.encode(rc.Msg(3, 0, 77, b"", (), b"")),
        rc.encode(rc.Msg(0, 1, 3, b"", ((11, b"x" * 13), (300, b"y" * 20)), b"z")),
    ]
    return out


def run_shard(shard, rep, only=None):
    from harness import vloop, refcodec as rc

    assert rc.selftest()
    r = random.Random(shard["seed"])
    ck = Checker(rep)
    loop = vloop.new_loop()
    try:
        ck.rx = RxPaths(loop)
        n = shard["n"]
        idx = shard["index"]
        case_no = 0

        def want(c):
            return only is None or only == c

        # ---- ext-field grid (exhaustive, split across shards) -------------
        grid = [(d, l) for d in BOUND for l in BOUND]
        for gi, (d, l) in enumerate(grid):
            if gi % shard["of"] != idx:
                continue
            case = ["grid", d, l]
            if not want(case):
                continue
            # forward through the library with an opaque option
            fields = (0, 1, 1, b"", [(2000, b""), (2000 + d, b"\x5a" * l)], b"")
            ck.forward(fields, "grid", case)
            # backward: two options so that the second has delta d
            ck.backward(rc.Msg(1, 2, 2, b"t", ((2001, b""), (2001 + d, b"\x5a" * l)), b"x"), "grid-b", case)
        # ---- (a) forward ---------------------------------------------------
        for i in range(n):
            case = ["fwd", i]
            fields = gen_fields(r)
            if not want(case):
                continue
            ck.forward(fields, "fwd", case)
            if i < 3:
                rep.sample({"class": "forward", "fields": repr(fields)[:300]})
        # ---- (b) backward --------------------------------------------------
        for i in range(n):
            case = ["bwd", i]
            typ, code, mid, token, options, payload = gen_fields(r)
            raw = []
            for nn, v in options:
                b = ref_raw(nn, v)
                f = fmt_of(nn)
                if f in ("u", "b") and r.random() < 0.4:
                    b = b"\x00" * r.randrange(1, 4) + b  # non-minimal integers are legal on the wire
                if r.random() < 0.1:
                    nn = r.choice([2, 10, 22, 64, 1000, 2049, 65001, 65535, 65536, 70001])
                raw.append((nn, b))
            if not want(case):
                continue
            try:
                msg = rc.Msg(typ, code, mid, token, tuple(sorted(raw, key=lambda o: o[0])), payload)
                rc.encode(msg)
            except rc.Unrepresentable:
                continue
            ck.backward(msg, "bwd", case)
        # ---- (c) mutations ---------------------------------------------------
        bases = base_datagrams(r)
        extra = []
        for _ in range(max(2, n // 600)):
            try:
                f = gen_fields(r)
                extra.append(rc.encode(rc.Msg(f[0], f[1], f[2], f[3], tuple((nn, ref_raw(nn, v)) for nn, v in f[4]), f[5])))
            except rc.Unrepresentable:
                pass
        for bi, base in enumerate(bases + extra):
            systematic = bi < len(bases)
            if systematic and bi % shard["of"] != idx % len(bases) and shard["of"] >= len(bases):
                # spread the fixed bases over shards; each base is still covered by >= 1 shard
                if bi != idx % len(bases):
                    continue
            # every truncation
            for k in range(len(base)):
                case = ["trunc", bi, k]
                if want(case):
                    ck.total(base[:k], "trunc", case)
            # substitutions
            if len(base) <= 24 and systematic:
                offs = range(len(base))
                vals = range(256)
            else:
                offs = sorted(r.sample(range(len(base)), min(len(base), 12)))
                vals = None
            for off in offs:
                for val in vals if vals is not None else [r.randrange(256) for _ in range(24)] + [0, 0xFF, 0xD0, 0xE0, 0x0D, 0x0E, 0xF0, 0x0F]:
                    if val == base[off]:
                        continue
                    case = ["subst", bi, off, val]
                    if want(case):
                        ck.total(base[:off] + bytes([val]) + base[off + 1 :], "subst", case)
            # insertions / deletions
            for off in range(len(base) + 1) if len(base) <= 40 else r.sample(range(len(base) + 1), 20):
                for val in (0x00, 0xFF, 0x80, 0xC3, 0xD1, 0xE1):
                    case = ["ins", bi, off, val]
                    if want(case):
                        ck.total(base[:off] + bytes([val]) + base[off:], "ins", case)
                if off < len(base):
                    case = ["del", bi, off]
                    if want(case):
                        ck.total(base[:off] + base[off + 1 :], "del", case)
            if bi < 2 and idx == 0:
                rep.sample({"class": "mutation-base", "bytes": base.hex()})
        # ---- random strings ------------------------------------------------------
        for i in range(n):
            case = ["rand", i]
            ln = r.choice([0, 1, 3, 4, 5, 8, 12, 16, 40, 200, 1500])
            data = bytes(r.getrandbits(8) for _ in range(ln))
            if data and r.random() < 0.7:
                data = bytes([0x40 | (data[0] & 0x3F)]) + data[1:]
            if want(case):
                ck.total(data, "rand", case)
        # ---- (e) sizes through the real socket receive path ------------------------
        sizes = [0, 1, 100, 1024, 1152, 1280, 1500, 2048, 4000, 4080, 4090, 4095, 4096, 4096, 4096, 4097, 4100, 5000, 8192, 9000, 16384, 40000, 65000, 65400]
        for i in range(max(40, n // 50)):
            case = ["sock", i]
            if not want(case):
                continue
            typ, code, mid, token, options, payload = gen_fields(r)
            try:
                opts = tuple(sorted(((nn, ref_raw(nn, v)) for nn, v in options), key=lambda o: o[0]))
                head = rc.encode(rc.Msg(typ, code or 1, mid, token, opts, b"x"))
            except rc.Unrepresentable:
                continue
            total = r.choice(sizes) + r.choice([0, 0, 0, -1, 1, r.randrange(0, 50)])
            plen = max(1, total - (len(head) - 1))
            body = bytes(r.getrandbits(8) for _ in range(min(plen, 64))) * (plen // 64 + 1)
            ck.socket_path(rc.Msg(typ, code or 1, mid, token, opts, body[:plen]), "sock", case)
        # targeted: invalid UTF-8 in each string option; delta/length 65804 on the wire
        for nn in sorted(STRING):
            case = ["badutf8", nn]
            if want(case):
                ck.total(rc.encode(rc.Msg(0, 1, 5, b"", ((nn, b"\xff\xfe"),), b"")), "badutf8", case)
        case = ["delta65804"]
        if want(case):
            ck.total(rc.encode(rc.Msg(0, 1, 5, b"", ((65804, b""),), b"")), "ext65804", case)
    finally:
        if ck.rx is not None:
            ck.rx.close()
        vloop.close_loop(loop)
