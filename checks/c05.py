"""C05 — block-wise client: both bodies intact or a loud failure; wire options consistent."""

import random

ID = "C05"
LEVEL = "exploration"
TECHNIQUE = "differential runtime monitoring: the real BlockwiseRequest client against an independent RFC 7959 / RFC 8323 section 6 (BERT) reference server (harness/refblock.py) on a lossy virtual-time network; oracles = byte comparison of both bodies, arithmetic over the Block1/Block2 options seen on the wire (SZX 7 counted in 1024-byte units, non-final BERT blocks whole multiples of 1024), and error-or-complete-representation for misbehaving servers"
LEVEL_TEXT = "Every combination of boundary body lengths x server size exponents 0..7 x client maximum block sizes 0..7 (7 = BERT, with 1..4 blocks per message on either side) x negotiation (initial and mid-transfer reduction, including from BERT to regular blocks) is sampled systematically, with loss/duplication of individual block exchanges and each misbehaving-server variant named in the statement (among them: a later block where block 0 is due, a later block under another response code, a later Block2 response without its Block2 option, a server that enlarges its Block2 blocks at aligned offsets or ignores the size asked for -- there the transfer may go through, only the client's own requests must not follow the growth, a Block1 acknowledgement without its Block1 option on a non-final or -- as a bare 2.31 -- on the final block); held on every transfer executed."
LEVEL_NOTE = "Trusted: harness/refblock.py (reference server, independent of aiocoap), simnet, refcodec. A representation change without ETags is undetectable for any client and not generated; payloads <= 1124 bytes (k x 1024 + 100 on a BERT transport) are legitimately sent unfragmented at SZX >= 6. BERT runs on the simulated datagram transport whose remotes are given, per case, the block size exponent 7 and maximum payload size the RFC 8323 transports' remotes have; TCP framing itself is C15's matter. When a later block arrives under an unsuccessful code (with or without a Block2 option), handing exactly that response to the caller counts as a loud failure as well; a successful response without the Block2 option in that place does not, whatever its payload."
RULE = (
    "one case = one request through the default API: (method, request body length, response body length, server SZX, client max SZX, BERT blocks per message of client and server, Block1 reduction point, Block2 reduction point, loss profile, misbehaviour and its variant). "
    "Non-trivial = at least one body needed more than one block; distinct = distinct parameter tuples with lengths classified relative to the block size (below/at/above a boundary, number of blocks)"
)
ASSUMPTIONS = ["default TransportTuning; one-way latency 1 ms", "with random loss a transfer may legitimately fail with a time-out: such failures are counted, not judged", "a BERT-capable server never sends more 1024-byte blocks per message than the client's maximum payload size holds"]
REQUIRED_MONITORS = {"refused_upload": 10, "request_body": 200, "response_body": 200, "block1_options": 150, "block2_options": 150, "misbehaving_server": 60, "negotiation": 60, "client_max_szx7": 120, "bert_upload": 70, "bert_reduction": 50, "bert_download": 20, "first_block_number": 30, "code_change": 20, "block2_option_missing": 25, "block1_option_missing": 25, "block2_size_grows": 35}

LENGTHS = [0, 1, 15, 16, 17, 31, 32, 33, 63, 64, 65, 127, 128, 129, 255, 256, 257, 511, 512, 513, 1023, 1024, 1025, 1124, 1125, 2047, 2048, 2049, 5000, 20000]
ETAG_MIS = ("etag-changes", "etag-vanishes", "etag-appears")
# (more are drawn in widen(): "b2-first-later-block", "b2-code-changes", and in widen2(): "b2-option-missing", "b1-option-missing", in widen3(): "b2-size-grows-aligned", "b2-ignores-requested-size")
MISBEHAVIOURS = ["b1-wrong-num", "b1-wrong-num-final", "b1-more-on-final", "b1-continue-on-final", "b2-wrong-num", "b2-short-with-more", "b2-repeat-prev", "b2-restart-0", "b1-observe-in-continue", "etag-changes", "etag-vanishes", "etag-appears"]


def plan(tier, seed):
    n = 16
    per = {"quick": 80, "thorough": 9000}[tier]
    return [{"name": "c05-%d" % i, "seed": seed * 1000 + i, "index": i, "of": n, "n": per, "tier": tier} for i in range(n)]


def body(r, n, tag):
    # position-dependent content so that any duplication / reordering / truncation changes the bytes
    out = bytearray()
    i = 0
    while len(out) < n:
        out += b"%s%06d|" % (tag, i)
        i += 1
    return bytes(out[:n])


def gen(r, r2, r3, r4, k, tier):
    method = r.choice(["PUT", "POST", "FETCH", "GET", "PUT"])
    szx = r.randrange(0, 7)
    cmax = r.choice([6, 6, 6, 5, 4, 2, 0, r.randrange(0, 7)])
    req_len = 0 if method == "GET" else r.choice(LENGTHS)
    resp_len = r.choice(LENGTHS)
    # keep the number of exchanges bounded
    eff = min(szx, cmax)
    cap = (1 << (eff + 4)) * (80 if tier == "quick" else 400)
    req_len = min(req_len, cap)
    resp_len = min(resp_len, cap)
    red1 = r.choice([None, None, (0, r.randrange(0, szx + 1)), (r.randrange(1, 4), r.randrange(0, szx + 1))])
    red2 = r.choice([None, None, (r.randrange(1, 4), r.randrange(0, szx + 1))])
    loss = r.choice([None, None, None, {"p_drop": 0.12, "p_dup": 0.12, "p_delay": 0.2, "max_delay": 0.3}, {"p_drop": 0.0, "p_dup": 0.4, "p_delay": 0.4, "max_delay": 0.05}])
    mis = None
    if r.random() < 0.3:
        mis = r.choice(MISBEHAVIOURS)
        loss = None
    mis_at = r.randrange(0, 3)
    if mis in ETAG_MIS or mis in ("b2-repeat-prev", "b2-restart-0"):
        mis_at = r.randrange(1, 4)  # a change from the very first block on is a consistent representation, not a change
    fail1 = None
    hint = False
    if method != "GET" and mis is None:
        if r.random() < 0.12:
            fail1 = (r.randrange(0, 4), r.choice([rc_code(4, 13), rc_code(4, 1), rc_code(5, 0), rc_code(4, 8)]), r.random() < 0.5)
        if r.random() < 0.15:
            hint = True  # block size passed in through a Block1 option on the request (the older way) instead of the remote
    p = {"fail1": fail1, "hint": hint, "method": method, "szx": szx, "cmax": cmax, "req_len": req_len, "resp_len": resp_len, "red1": red1, "red2": red2, "loss": loss, "mis": mis, "mis_at": mis_at, "etag": r.choice([True, True, False])}
    return widen3(widen2(widen(p, r2, tier), r3, tier), r4, tier)


NEW_MIS = ("b2-first-later-block", "b2-code-changes")


def unit(szx):
    """bytes one step of NUM stands for (RFC 7959 section 2.2; RFC 8323 section 6: SZX 7 counts like SZX 6)"""
    return 1024 if szx == 7 else 1 << (szx + 4)


def widen(p, r2, tier):
    """Further dimensions, drawn from a generator of their own so that the older dimensions of a case stay what they were."""
    p.update(tp=None, srv_k=1, mis_arg=None)
    budget = 80 if tier == "quick" else 400
    if r2.random() < 0.24:
        # a transport on which BERT (RFC 8323 section 6) is available: the client's remotes have maximum block size
        # exponent 7 and a maximum payload of tp x 1024 (+100 slack) bytes; the server understands BERT and either
        # uses it itself (szx 7, srv_k x 1024 bytes per response) or prefers regular blocks (szx <= 6)
        tp = p["tp"] = r2.choice([1, 1, 2, 3, 4])
        p["srv_k"] = r2.randrange(1, tp + 1)
        p["cmax"] = r2.choice([7, 7, 7, 7, p["cmax"]])
        p["szx"] = r2.choice([7, 7, p["szx"], r2.randrange(0, 7), r2.choice([4, 5, 6])])
        red = lambda first: (r2.randrange(0 if first else 1, 3), r2.choice([6, 5, 4, r2.randrange(0, 7), r2.randrange(2, 8)]))
        p["red1"] = r2.choice([None, None, red(True), red(True)])
        p["red2"] = r2.choice([None, None, red(False)])
        base = tp * 1024
        lengths = [base - 1, base, base + 1, base + 100, base + 101, base + 1023, base + 1024, base + 1025, 2 * base, 2 * base + 1, 2 * base + 101, 3 * base + 512, 4 * base + 100, 4 * base + 101, 5000, 9000, 20000, r2.choice(LENGTHS)]
        if p["method"] != "GET":
            p["req_len"] = r2.choice(lengths)
        p["resp_len"] = r2.choice(lengths)
        # keep the number of exchanges bounded: what lies beyond the first BERT block may go in the smallest negotiated size
        low1 = min([p["szx"], p["cmax"], 6] + ([p["red1"][1]] if p["red1"] else []))
        low2 = min([p["szx"], p["cmax"], 6] + ([p["red2"][1]] if p["red2"] else []))
        p["req_len"] = min(p["req_len"], base + 100 + unit(low1) * budget)
        p["resp_len"] = min(p["resp_len"], base + 100 + unit(low2) * budget)
    if r2.random() < 0.11:
        p["mis"] = r2.choice(NEW_MIS)
        p["loss"] = None
        p["fail1"] = None
        if p["mis"] == "b2-first-later-block":
            # block 0 is due, a later one comes (the mis_at + 1 st, or the last one)
            p["mis_at"] = r2.randrange(0, 3)
            multi = r2.random() < 0.75
        else:
            p["mis_at"] = r2.randrange(1, 4)
            p["mis_arg"] = {"code": r2.choice(["4.04", "4.04", "5.00", "5.03", "4.00", "alt"]), "payload": r2.choice(["diag", "diag", "chunk"]), "etag": r2.random() < 0.4}
            if p["mis_arg"]["code"] == "alt":
                p["mis_arg"]["payload"] = "chunk"
            multi = True
        if multi:
            # a representation of several blocks (in the size the server will use)
            size = unit(min(p["szx"], 6)) * (p["srv_k"] if p["szx"] == 7 else 1)
            p["resp_len"] = size * r2.randrange(1, 5) + r2.choice([1, size // 2, size - 1, size])
            if p["red2"] is not None:
                p["resp_len"] = min(p["resp_len"], size + unit(min(p["red2"][1], 6)) * budget)
    return p


GROW_MIS = ("b2-size-grows-aligned", "b2-ignores-requested-size")


def widen3(p, r4, tier):
    """Servers that enlarge their Block2 blocks during a transfer (again from a generator of their own)."""
    if r4.random() >= 0.13 or p["mis"] is not None or p["fail1"] is not None:
        return p  # (only conforming-server cases are turned into these, the other variants keep their numbers)
    p["mis"] = r4.choice(GROW_MIS)
    p["loss"] = None
    p["fail1"] = None
    p["mis_at"] = r4.randrange(1, 3)
    p["mis_arg"] = {"grow": r4.choice([1, 1, 2, 3])}
    if p["mis"] == "b2-size-grows-aligned":
        # the server starts out with small blocks; the client could take larger ones
        p["szx"] = r4.randrange(0, 5)
        if not p["tp"] or p["cmax"] < 7:
            p["cmax"] = r4.choice([6, 6, r4.randrange(p["szx"], 7)])
        if p["red2"] is not None:
            p["red2"] = (p["red2"][0], min(p["red2"][1], p["szx"]))
        size = unit(p["szx"])
        p["resp_len"] = size * r4.randrange(4, 14) + r4.choice([0, 1, size // 2])
    else:
        # the client asks for smaller blocks than the server's own (its maximum is smaller), or the server reduced of its
        # own accord before
        p["szx"] = r4.randrange(2, 7)
        if r4.random() < 0.5:
            p["cmax"] = r4.randrange(0, p["szx"])
            p["red2"] = None
        else:
            if not p["tp"] or p["cmax"] < 7:
                p["cmax"] = r4.choice([6, 6, r4.randrange(p["szx"], 7)])
            p["red2"] = (r4.randrange(0, 2), r4.randrange(0, p["szx"]))
        size = unit(p["szx"])
        p["resp_len"] = size * r4.randrange(3, 7) + r4.choice([0, 1, size // 2])
    if p["red1"] is not None:
        p["red1"] = (p["red1"][0], min(p["red1"][1], p["szx"]))
    return p


OPTIONLESS_MIS = ("b2-option-missing", "b1-option-missing")


def widen2(p, r3, tier):
    """Block responses that lack their block option (again from a generator of their own)."""
    if r3.random() >= 0.1:
        return p
    budget = 80 if tier == "quick" else 400
    p["mis"] = r3.choice(OPTIONLESS_MIS)
    p["loss"] = None
    p["fail1"] = None
    if p["mis"] == "b2-option-missing":
        # a later Block2 request is answered without a Block2 option
        p["mis_at"] = r3.randrange(1, 4)
        code = r3.choice(["same", "same", "same", "alt", "4.04", "5.00"])
        p["mis_arg"] = {"code": code, "payload": "diag" if code[0] in "45" else r3.choice(["chunk", "chunk", "whole"]), "etag": r3.random() < 0.7}
        size = unit(min(p["szx"], 6)) * (p["srv_k"] if p["szx"] == 7 else 1)
        p["resp_len"] = size * r3.randrange(1, 5) + r3.choice([1, size // 2, size - 1, size])
        if p["red2"] is not None:
            p["resp_len"] = min(p["resp_len"], size + unit(min(p["red2"][1], 6)) * budget)
    else:
        # a Block1 request is acknowledged without a Block1 option: a non-final one with a success code or a bare 2.31,
        # the final one with a bare 2.31
        where = r3.choice(["nonfinal", "nonfinal", "final"])
        p["mis_at"] = r3.randrange(0, 3)
        p["mis_arg"] = {"where": where, "code": "continue" if where == "final" else r3.choice(["final", "final", "continue"])}
        if p["method"] == "GET":
            p["method"] = r3.choice(["PUT", "POST", "FETCH"])
        # a request body of several blocks: the client starts with its own maximum size and fragments what exceeds the
        # maximum payload size (at SZX >= 6) or one block (below)
        tp = p["tp"]
        first = (tp * 1024 if tp and p["cmax"] == 7 else unit(min(p["cmax"], 6)))
        thresh = ((tp * 1024 if tp else 1024) + 100) if p["cmax"] >= 6 else first
        low1 = min([p["szx"], p["cmax"], 6] + ([p["red1"][1]] if p["red1"] else []))
        p["req_len"] = thresh + first * r3.randrange(0, 4) + r3.choice([1, first // 2, first])
        p["req_len"] = min(p["req_len"], max(thresh + 1, first + unit(low1) * budget))
    return p


def rc_code(cls, detail):
    return (cls << 5) | detail


def lenclass(n, size):
    if n == 0:
        return "0"
    q, rem = divmod(n, size)
    return "%s%s" % (min(q, 5), "" if rem == 0 else "+")


class bert_transport:
    """For the duration of one case, the simulated datagram transport's remotes have what the remotes of the RFC 8323
    transports have (rfc8323common: maximum_block_size_exp 7, maximum_payload_size k x 1024 + 100): class attributes
    set on entry and restored on exit, so that every remote object of the case (the resolved request remote and the
    remotes of the responses alike) carries them, as one connection object does on those transports."""

    def __init__(self, k):
        self.k = k

    def __enter__(self):
        if self.k is None:
            return
        from aiocoap.transports.udp6 import UDP6EndpointAddress as A

        self.saved = A.__dict__["maximum_block_size_exp"]
        assert "maximum_payload_size" not in A.__dict__
        A.maximum_block_size_exp = 7
        A.maximum_payload_size = self.k * 1024 + 100

    def __exit__(self, *a):
        if self.k is None:
            return
        from aiocoap.transports.udp6 import UDP6EndpointAddress as A

        A.maximum_block_size_exp = self.saved
        del A.maximum_payload_size


def run_case(p, seed, rep, case):
    from harness import scenario, simnet, refcodec as rc, refblock
    import asyncio
    import aiocoap

    box = {}
    r = random.Random(seed)
    req_body = body(r, p["req_len"], b"Q")
    rep_body = body(r, p["resp_len"], b"R")

    mis_arg = None
    if p.get("mis_arg"):
        first_code = rc_code(2, 5) if p["method"] in ("GET", "FETCH") else rc_code(2, 4)
        named = {"4.04": rc_code(4, 4), "5.00": rc_code(5, 0), "5.03": rc_code(5, 3), "4.00": rc_code(4, 0), "alt": rc_code(2, 4) if first_code == rc_code(2, 5) else rc_code(2, 5), "same": first_code}
        mis_arg = dict(p["mis_arg"], code=named.get(p["mis_arg"].get("code"), p["mis_arg"].get("code")))

    async def main(loop):
        pol = simnet.RandomPolicy(random.Random(seed + 1), **p["loss"]) if p["loss"] else simnet.Policy()
        net = simnet.SimNet(loop, pol)
        srv = refblock.BlockServer(net, "10.0.0.1", 5683, szx=p["szx"], representation=rep_body, etag=b"" if p["mis"] == "etag-appears" else b"v1" if (p["etag"] or p["mis"] in ETAG_MIS) else b"", reduce_block1_at=p["red1"], reduce_block2_at=p["red2"], misbehave=p["mis"], misbehave_at=p["mis_at"], fail_block1_at=p.get("fail1"), peer_bert=p.get("tp") is not None, bert_blocks=p.get("srv_k", 1), misbehave_arg=mis_arg)
        cli = await simnet.make_context(net, "10.0.0.2", 40001, None, server=False)
        m = aiocoap.Message(code=getattr(aiocoap, p["method"]), uri="coap://10.0.0.1/res", payload=req_body)
        if p.get("hint"):
            from aiocoap.optiontypes import BlockOption

            m.opt.block1 = BlockOption.BlockwiseTuple(0, False, p["cmax"])
            if p.get("tp"):
                m.remote.maximum_block_size_exp = 7
        else:
            m.remote.maximum_block_size_exp = p["cmax"]
        # (7 is nothing an application would set: it is what the remotes of a BERT-capable transport come with; the
        # datagram transport takes the minimum of its own and the unresolved remote's value, so it is passed in here)
        import warnings

        with warnings.catch_warnings():
            warnings.simplefilter("ignore", DeprecationWarning)
            rq = cli.request(m)
        try:
            resp = await rq.response
            out = ("response", int(resp.code), bytes(resp.payload))
        except Exception as e:
            out = ("exception", e)
        await asyncio.sleep(1)
        await cli.shutdown()
        box.update(net=net, srv=srv, out=out)
        return True

    with bert_transport(p.get("tp")):
        res = scenario.run(main, seed, horizon=1e6)
    if not res.ok:
        if res.horizon:
            rep.inconc("horizon")
        elif res.hang:
            rep.violation("request-hangs", "a block-wise request neither completed nor failed", {"params": repr(p)}, case)
        else:
            rep.violation("scenario-exception/" + type(res.error).__name__, "exception escaped: %r" % res.error, {"params": repr(p), "tb": rep.exception_witness(res.error)}, case)
        return
    judge(p, box, req_body, rep_body, res, rep, case)


def judge(p, box, req_body, rep_body, res, rep, case):
    from harness import refcodec as rc
    from aiocoap import error

    net, srv, out = box["net"], box["srv"], box["out"]
    seen = srv.seen
    wit = lambda **kw: dict(params=repr(p), outcome=repr(out)[:300], requests=[(s["code"], s["b1"], s["b2"], s["plen"]) for s in seen][:60], **kw)
    lossy = p["loss"] is not None and p["loss"]["p_drop"] > 0
    eff1 = min(p["szx"], p["cmax"])
    # ---- wire arithmetic: Block1 ----
    b1reqs = [s for s in seen if s["b1"] is not None]
    # a non-final BERT request block that the server acknowledged with a regular size: the rest of the body continues
    # at the same byte offset in the smaller unit. What goes wrong in such a transfer is filed under one heading
    bert_reduced = any(s["b1"][2] == 7 and s["b1"][1] and s["ack1"] is not None and s["ack1"][2] < 7 for s in b1reqs)
    ctx = "bert-reduction/" if bert_reduced else ""
    if b1reqs:
        rep.monitor("block1_options")
        if any(s["b1"][2] == 7 and s["b1"][1] for s in b1reqs):
            rep.monitor("bert_upload")
        if bert_reduced:
            rep.monitor("bert_reduction")
        offset = 0
        last_szx = None
        for s in b1reqs:
            num, more, szx = s["b1"]
            size = unit(szx)
            if num == 0 and offset != 0 and s["plen"] and offset >= 0:
                offset = 0  # a restarted transfer (not expected from this client)
            if num * size != offset:
                rep.violation(ctx + "block1/num-times-size-not-offset", "a Block1 request's NUM x size does not equal the number of body bytes sent before it (gap or overlap)", wit(at=s["b1"], offset=offset), case)
                break
            if last_szx is not None and szx > last_szx:
                rep.violation(ctx + "block1/szx-grew", "the client's block size exponent grew during a transfer", wit(at=s["b1"]), case)
                break
            if szx > (7 if p.get("tp") else 6):
                rep.violation(ctx + "block1/reserved-szx", "a Block1 request with size exponent 7 on a transport without BERT", wit(at=s["b1"]), case)
                break
            if szx == 7:
                # RFC 8323 section 6: non-final BERT blocks are whole 1024-byte blocks (at least one), and no message
                # carries more than the client's own maximum payload
                if more and (s["plen"] == 0 or s["plen"] % 1024 != 0):
                    rep.violation(ctx + "block1/nonfinal-block-not-full", "a non-final BERT Block1 request does not carry a positive multiple of 1024 bytes", wit(at=s["b1"], plen=s["plen"]), case)
                    break
                if s["plen"] > p["tp"] * 1024 + 100:
                    rep.violation(ctx + "block1/payload-larger-than-block", "a BERT Block1 request carries more payload than the client's maximum payload size", wit(at=s["b1"], plen=s["plen"]), case)
                    break
            else:
                if more and s["plen"] != size:
                    rep.violation(ctx + "block1/nonfinal-block-not-full", "a non-final Block1 request does not carry exactly one block of payload", wit(at=s["b1"], plen=s["plen"]), case)
                    break
                if s["plen"] > size:
                    rep.violation(ctx + "block1/payload-larger-than-block", "a Block1 request carries more payload than its block size", wit(at=s["b1"], plen=s["plen"]), case)
                    break
            final = offset + s["plen"] >= len(req_body)
            if more == final and not (p["mis"] or "").startswith("b1"):
                rep.violation(ctx + "block1/more-flag-wrong", "the more-flag is not set exactly on the non-final blocks", wit(at=s["b1"], offset=offset, total=len(req_body)), case)
                break
            if s["payload"] != req_body[offset : offset + s["plen"]]:
                rep.violation(ctx + "block1/payload-not-the-slice", "a Block1 request's payload is not the body slice at its offset", wit(at=s["b1"], offset=offset), case)
                break
            offset += s["plen"]
            last_szx = szx
            if not more:
                break
        if p["red1"] is not None or p["szx"] < p["cmax"]:
            rep.monitor("negotiation")
    # ---- wire arithmetic: Block2 requests ----
    b2reqs = [s for s in seen if s["b2"] is not None and s["b2"][0] > 0]
    if b2reqs:
        rep.monitor("block2_options")
        last = None
        for s in b2reqs:
            num, more, szx = s["b2"]
            if last is not None and szx > last:
                rep.violation("wire/block2-request-exponent-grows", "the size exponent of the client's Block2 requests grew during a transfer", wit(at=s["b2"], before=last), case)
                break
            # a size passed in through the request's Block1 option is a hint for the request body only
            if szx > ((7 if p.get("tp") else 6) if p.get("hint") else p["cmax"]):
                rep.violation("block2/exceeds-client-maximum", "the client asked for blocks larger than its own maximum block size", wit(at=s["b2"]), case)
                break
            last = szx
        # contiguity of what was served to a conforming flow is visible in the final body comparison
        if p["red2"] is not None or (p["cmax"] < p["szx"] and not p.get("hint")):
            rep.monitor("negotiation")
    if p.get("tp") and p["cmax"] == 7:
        rep.monitor("client_max_szx7")
    if srv.bert_served > 1:
        rep.monitor("bert_download")
    # ---- outcome ----
    kind = out[0]
    if p["mis"] in GROW_MIS:
        # larger blocks than asked for at aligned offsets leave every block well-formed and the body assemblable: the
        # request may go through (with the intact body) or fail with a library error; what the statement rules out is
        # on the wire (the client's own requests follow the growth), judged above
        if srv.size_grown:
            rep.monitor("misbehaving_server")
            rep.monitor("block2_size_grows")
        if kind == "exception" and srv.size_grown:
            if not isinstance(out[1], error.Error):
                rep.violation("misbehaving-server-wrong-exception/" + type(out[1]).__name__, "the failure is not a library error", wit(), case)
        else:
            judge_conforming(p, srv, out, req_body, rep_body, lossy, rep, case, wit, ctx)
    elif p["mis"] == "b1-observe-in-continue":
        # an Observe option on the 2.31 acknowledgements is out of place but breaks no sequencing rule: the transfer
        # either goes through intact or fails with a library error
        if any(s_["b1"] is not None and s_["b1"][1] for s_ in seen):
            rep.monitor("misbehaving_server")
        if kind == "exception":
            if not isinstance(out[1], error.Error):
                rep.violation("out-of-place-option-wrong-exception/" + type(out[1]).__name__, "an Observe option on a 2.31 Continue made the request fail with an exception outside the library's error hierarchy", wit(), case)
        else:
            judge_conforming(p, srv, out, req_body, rep_body, lossy, rep, case, wit, ctx)
    elif p["mis"]:
        # did the misbehaviour actually manifest on the wire?
        manifested = misbehaviour_manifested(p, srv, req_body, rep_body)
        if manifested:
            rep.monitor("misbehaving_server")
            if p["mis"] in NEW_MIS:
                rep.monitor({"b2-first-later-block": "first_block_number", "b2-code-changes": "code_change"}[p["mis"]])
            if p["mis"] in OPTIONLESS_MIS:
                rep.monitor({"b2-option-missing": "block2_option_missing", "b1-option-missing": "block1_option_missing"}[p["mis"]])
            passed_on = p["mis"] in ("b2-code-changes", "b2-option-missing") and kind == "response" and (srv.changed_first[0] >> 5) != 2 and (out[1], out[2]) == srv.changed_first
            if passed_on:
                # the server's unsuccessful response handed to the caller as it is (its code, its payload and nothing
                # else) is a loud failure too: nothing of the earlier blocks is passed off under it
                rep.count("error_response_passed_on")
            elif kind == "response":
                # statement: ends with an error and never yields a truncated, duplicated or mixed body
                v2 = bytes((x + 1) & 0xFF for x in rep_body)
                rep.violation("misbehaving-server-not-an-error/%s%s" % (p["mis"], "" if out[2] in (rep_body, v2) else "/corrupt-body"), "the server violated the sequencing rules / changed the representation, but the request ended with a response instead of an error", wit(returned_len=len(out[2]), complete=out[2] in (rep_body, v2)), case)
            elif not isinstance(out[1], error.Error):
                rep.violation("misbehaving-server-wrong-exception/" + type(out[1]).__name__, "the failure is not a library error", wit(), case)
        else:
            rep.count("misbehaviour_not_manifested")
            judge_conforming(p, srv, out, req_body, rep_body, lossy, rep, case, wit, ctx)
    elif p.get("fail1") and srv.failed_block1:
        # the server refused one block of the upload: the caller must see that refusal (as a response with the
        # server's code, or as a library error), never a success, and the server must not have been handed a body
        rep.monitor("refused_upload")
        if kind == "response" and out[1] != p["fail1"][1]:
            rep.violation("refused-upload-not-reported", "the server refused a block of the upload with %s, but the request ended with %s" % (rc.code_str(p["fail1"][1]), rc.code_str(out[1])), wit(), case)
        elif kind == "exception" and not isinstance(out[1], error.Error):
            rep.violation("refused-upload-wrong-exception/" + type(out[1]).__name__, "the failure is not a library error", wit(), case)
    else:
        judge_conforming(p, srv, out, req_body, rep_body, lossy, rep, case, wit, ctx)
    if res.loop_exceptions:
        rep.violation("loop-exception/" + str(res.loop_exceptions[0].get("exc_type")), "an exception reached the event loop", wit(loop=res.loop_exceptions[:2]), case)
    size1 = 1 << (min(p["szx"], p["cmax"], 6) + 4)
    sig = (p.get("tp"), p.get("srv_k"), (p.get("mis_arg") or {}).get("code"), (p.get("mis_arg") or {}).get("payload"), (p.get("mis_arg") or {}).get("where"), (p.get("mis_arg") or {}).get("grow"), p["method"], p["szx"], p["cmax"], lenclass(p["req_len"], size1), lenclass(p["resp_len"], size1), p["red1"] is not None, p["red2"] is not None, p["loss"] is not None, p["mis"], p["etag"], bool(p.get("fail1")), bool(p.get("hint")))
    rep.case(sig, nontrivial=len(b1reqs) > 1 or len(b2reqs) > 0)


def misbehaviour_manifested(p, srv, req_body, rep_body):
    mis, at = p["mis"], p["mis_at"]
    if mis == "b1-wrong-num":
        return srv.b1_count > at
    if mis == "b1-wrong-num-final":
        return any(b[0] > 0 and not b[1] for tr in [s_ for s_ in srv.seen if s_["b1"] is not None] for b in [tr["b1"]]) and len(srv.completed_bodies) > 0
    if mis in ("b1-more-on-final", "b1-continue-on-final"):
        return any(b[0] == ("res",) or True for b in srv.completed_bodies) and any(s["b1"] is not None for s in srv.seen) and len(srv.completed_bodies) > 0
    if mis in ("b2-wrong-num", "b2-short-with-more"):
        # needs a block2 response with index == at that has more / wrong num relevance
        size_hint = srv.served
        if mis == "b2-short-with-more":
            return len(srv.served) > at and srv.served[at][0] + srv.served[at][1] < len(rep_body) and any(l not in (16, 32, 64, 128, 256, 512, 1024) for _, l in srv.served[at : at + 1])
        return len(srv.served) > at
    if mis in ("b2-repeat-prev", "b2-restart-0"):
        return getattr(srv, "repeated_earlier", 0) > 0
    if mis == "b2-first-later-block":
        return srv.first_later > 0
    if mis == "b2-code-changes":
        return srv.code_changed > 0
    if mis == "b2-option-missing":
        return srv.b2_opt_missing > 0
    if mis == "b1-option-missing":
        return srv.b1_opt_missing > 0
    if mis in ETAG_MIS:
        # the representation changed between the first block and a later one
        return at >= 1 and len(srv.served) > at and srv.served[0][0] == 0
    return False


def judge_conforming(p, srv, out, req_body, rep_body, lossy, rep, case, wit, ctx=""):
    from aiocoap import error

    if out[0] == "exception":
        if lossy and isinstance(out[1], error.Error):
            rep.count("failed_under_loss")
            return
        rep.violation(ctx + "conforming-transfer-failed/" + type(out[1]).__name__, "a transfer with a conforming server and no message loss ended with an error", wit(tb=rep.exception_witness(out[1])), case)
        return
    rep.monitor("response_body")
    if out[2] != rep_body:
        rep.violation(ctx + "response-body-differs", "the body returned to the caller is not byte-identical to the server's representation", wit(returned_len=len(out[2]), want_len=len(rep_body), first_diff=first_diff(out[2], rep_body)), case)
    if p["method"] != "GET":
        rep.monitor("request_body")
        bodies = [b for _, b in srv.completed_bodies]
        if not bodies or bodies[-1] != req_body:
            rep.violation(ctx + "request-body-differs", "the body the server reassembled is not byte-identical to the payload handed to the request API", wit(reassembled=[len(b) for b in bodies], want_len=len(req_body)), case)


def first_diff(a, b):
    for i, (x, y) in enumerate(zip(a, b)):
        if x != y:
            return i
    return min(len(a), len(b))


def run_shard(shard, rep, only=None):
    from harness import vloop

    vloop.install_time()
    import aiocoap  # noqa

    r = random.Random(shard["seed"])
    r2 = random.Random(shard["seed"] * 7919 + 5)
    r3 = random.Random(shard["seed"] * 104729 + 11)
    r4 = random.Random(shard["seed"] * 15485863 + 17)
    for k in range(shard["n"]):
        p = gen(r, r2, r3, r4, k, shard["tier"])
        case = ["case", k]
        if only is not None and only != case:
            continue
        run_case(p, shard["seed"] * 65537 + k, rep, case)
        if k < 1 and shard["index"] == 0:
            rep.sample({"class": "transfer", "params": p})
