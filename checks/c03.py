"""C03 — CON retransmission: count, identical bytes, back-off arithmetic, stop on ACK/RST,
give-up time and exception, per-message transport tuning. Fault enumeration over
(tuning x loss subset x acknowledgement kind/timing/variant)."""

import itertools
import random

ID = "C03"
LEVEL = "fault_enumeration"
TECHNIQUE = "fault enumeration on a virtual-time simulated network: every loss subset x ACK/RST kind and arrival offset x wrong-MID/wrong-source decoys x transport tunings; arithmetic oracle over wire timestamps and bytes"
LEVEL_TEXT = "Every cell of the (tuning, lost-transmission subset, acknowledgement kind/offset/decoy) grid for MAX_RETRANSMIT <= 4 is executed against the real MessageManager on virtual time and judged by timestamp/byte arithmetic; larger MAX_RETRANSMIT and server-side CON responses are sampled; copies refused by the operating system and a Message object sent again while its earlier exchange is still open are run as scenario families."
LEVEL_NOTE = "Trusted: harness/vloop.py virtual clock, harness/simnet.py wire log, harness/refcodec.py. ACK arrival instants are kept >= 1 ms away from timer instants (both orders are legal at the same instant)."
RULE = (
    "one case = one CON exchange under one cell (tuning, set of lost transmissions, ack kind in {none, empty ACK+separate response, piggybacked, RST}, "
    "ack trigger transmission k, ack delay class, decoy in {none, mid+1, mid-1, other port, other ip, duplicate ack, the peer's own NON request / CON request / ping under the same message ID}); client requests and server-sent CON responses. "
    "Non-trivial = at least one retransmission or fault or decoy happened; distinct = distinct cell tuples"
)
ASSUMPTIONS = ["datagram latency in the simulation is 1 ms each way", "random.uniform is the source of the initial timeout (seeded per case)"]
REQUIRED_MONITORS = {"schedule": 200, "bytes_identical": 200, "stop_after_ack": 100, "giveup": 30, "decoy_no_effect": 50, "server_con_response": 20, "refused_copy": 20, "message_object_reused": 16}
EXHAUSTIVE = {"grid": "tunings x all loss subsets for MAX_RETRANSMIT<=4 x ack kinds x trigger transmission x delay classes x decoys (split over shards)"}

TUNINGS = [
    (2.0, 1.5, 4),  # defaults
    (0.5, 1.0, 0),
    (0.5, 3.0, 1),
    (5.3, 1.5, 2),
    (2.0, 1.0, 4),
    (0.7, 2.0, 3),
]
TUNINGS_SAMPLED = [(0.5, 1.5, 7), (1.0, 1.2, 5)]
ACK_KINDS = ["none", "empty", "piggy", "rst", "foreign"]
DECOYS = ["none", "mid+1", "mid-1", "port", "ip", "dup", "own-non-req", "own-con-req", "own-ping"]
DELAYS = ["fast", "mid", "late", "after1"]  # position of the ack inside the gap following transmission k
TOL = 1e-6


def cells(tier):
    out = []
    for tun in TUNINGS:
        mr = tun[2]
        for nlost in range(0, mr + 2):
            for lost in itertools.combinations(range(mr + 1), nlost):
                # no ack at all
                out.append((tun, lost, "none", None, None, "none"))
                for kind in ("empty", "piggy", "rst", "foreign"):
                    for k in range(mr + 1):
                        if k in lost:
                            continue  # the peer never saw transmission k
                        for delay in DELAYS:
                            for decoy in DECOYS:
                                out.append((tun, lost, kind, k, delay, decoy))
    return out


def plan(tier, seed):
    n = 16
    return [{"name": "c03-%d" % i, "seed": seed * 1000 + i, "index": i, "of": n, "tier": tier} for i in range(n)]


def mk_tuning(at, arf, mr, base=None):
    from aiocoap.numbers.constants import TransportTuning

    class T(base or TransportTuning):
        ACK_TIMEOUT = at
        ACK_RANDOM_FACTOR = arf
        MAX_RETRANSMIT = mr

    return T()


def run_client_case(cell, seed, rep, case):
    """aiocoap client sends one CON request to a raw server."""
    from harness import scenario, simnet, refcodec as rc
    import aiocoap
    from aiocoap import error

    (at, arf, mr), lost, kind, k, delay, decoy = cell
    S = simnet.addr("10.0.0.1", 5683)
    S_PORT = simnet.addr("10.0.0.1", 5684)
    S_IP = simnet.addr("10.0.0.3", 5683)
    C = simnet.addr("10.0.0.2", 40001)
    obs = {}

    async def main(loop):
        tx = []  # (t, bytes) transmissions of the request

        def fate(net, src, dst, data, idx, m):
            if src == C and dst == S and m is not None and m.type == rc.CON and rc.is_request(m.code):
                n = len(tx)
                tx.append((loop.time(), data))
                return [] if n in lost else None
            return None

        net = simnet.SimNet(loop, simnet.ScriptPolicy(fate))
        acked = []

        def on_msg(peer, src, m, raw):
            if m is None or m.type != rc.CON or not rc.is_request(m.code):
                return
            n = len(tx) - 1
            if kind == "none" or n != k or acked:
                return
            acked.append(n)
            # delay inside the gap following transmission k (gap = first_gap * 2^k); unknown to the
            # peer, so use the bounds: fast = immediately, mid = 40% of minimal gap, late = minimal gap - 5 ms
            gmin = at * (2**k)
            # "after1": the ACK answering copy k is delayed until after copy k+1 went out
            d = {"fast": 0.0, "mid": 0.4 * gmin, "late": gmin - 0.005 - 0.002, "after1": at * arf * (2**k) + 0.3 * at * (2 ** (k + 1))}[delay]

            def reply():
                if decoy == "mid+1":
                    peer.send(src, rc.Msg(rc.ACK, 0, (m.mid + 1) & 0xFFFF, b"", (), b""))
                elif decoy == "mid-1":
                    peer.send(src, rc.Msg(rc.ACK, 0, (m.mid - 1) & 0xFFFF, b"", (), b""))
                elif decoy == "port":
                    net.send(S_PORT, src, rc.encode(rc.Msg(rc.ACK, 0, m.mid, b"", (), b"")))
                elif decoy == "ip":
                    net.send(S_IP, src, rc.encode(rc.Msg(rc.ACK, 0, m.mid, b"", (), b"")))
                elif decoy == "own-non-req":
                    # the peer is a client of ours as well, and its own message-ID counter happens to stand where
                    # ours does: message IDs of the two directions are unrelated
                    peer.send(src, rc.Msg(rc.NON, 1, m.mid, b"\x99", ((11, b"peers-own"),), b""))
                elif decoy == "own-con-req":
                    peer.send(src, rc.Msg(rc.CON, 1, m.mid, b"\x99", ((11, b"peers-own"),), b""))
                elif decoy == "own-ping":
                    peer.send(src, rc.Msg(rc.CON, 0, m.mid, b"", (), b""))

            def real():
                if kind == "empty":
                    msg = rc.Msg(rc.ACK, 0, m.mid, b"", (), b"")
                elif kind == "piggy":
                    msg = rc.Msg(rc.ACK, rc.c(2, 5), m.mid, m.token, (), b"piggy")
                elif kind == "foreign":
                    # right message ID, right endpoint, but a response for a token the client does not know:
                    # the message layer must still treat it as the acknowledgement of this exchange
                    msg = rc.Msg(rc.ACK, rc.c(2, 5), m.mid, b"\xf0\x0f\xf0", (), b"stale")
                else:
                    msg = rc.Msg(rc.RST, 0, m.mid, b"", (), b"")
                peer.send(src, msg)
                if decoy == "dup":
                    peer.send(src, msg)
                    loop.call_later(0.3, peer.send, src, msg)
                if kind in ("empty", "foreign"):
                    # separate response a little later (NON, so no further exchange state is needed)
                    loop.call_later(0.5, peer.send, src, rc.Msg(rc.NON, rc.c(2, 5), peer.next_mid(), m.token, (), b"separate"))

            if decoy in ("mid+1", "mid-1", "port", "ip", "own-non-req", "own-con-req", "own-ping"):
                # the decoy arrives first and leaves the exchange open for a while, the real one later:
                # decoys must not change the schedule in between
                loop.call_later(d, reply)
                if delay == "fast":
                    # let one or more retransmissions happen under the decoy, then ack really
                    loop.call_later(at * arf * (2**k) * 1.0 + 0.01 + d, real) if k < mr else loop.call_later(d + 0.01, real)
                else:
                    loop.call_later(d + 0.002, real)
            else:
                loop.call_later(d, real)

        peer = simnet.RawPeer(net, "10.0.0.1", 5683, on_msg)
        cli = await simnet.make_context(net, "10.0.0.2", 40001, None, server=False)
        req = aiocoap.Message(code=aiocoap.GET, uri="coap://10.0.0.1/x", transport_tuning=mk_tuning(at, arf, mr))
        t_start = loop.time()
        r = cli.request(req, handle_blockwise=False)
        done = {}
        r.response.add_done_callback(lambda f: done.setdefault("t", loop.time()))
        try:
            resp = await r.response
            outcome = ("response", bytes(resp.payload))
        except BaseException as e:
            outcome = ("exception", e)
        t_done = done.get("t", loop.time())
        # run on: nothing more may be transmitted afterwards
        import asyncio

        await asyncio.sleep(at * arf * (2 ** (mr + 2)) + 5)
        await cli.shutdown()
        obs.update(tx=tx, outcome=outcome, t_done=t_done, t_start=t_start, net=net, match=lambda e: e.src == S and e.dst == C)
        return True

    res = scenario.run(main, seed)
    if not res.ok:
        if res.hang:
            rep.violation("client/request-hangs", "a CON request neither completed nor failed (event loop ran dry)", {"cell": repr(cell)}, case)
        elif res.horizon:
            rep.inconc("virtual horizon exceeded in %r" % (cell,))
        else:
            rep.violation("client/scenario-exception/" + type(res.error).__name__, "exception escaped the request API: %r" % res.error, {"cell": repr(cell), "tb": rep.exception_witness(res.error)}, case)
        return
    judge(cell, obs, rep, case, "client", res)


def judge(cell, obs, rep, case, side, res):
    from harness import refcodec as rc
    from aiocoap import error

    (at, arf, mr), lost, kind, k, delay, decoy = cell
    tx = obs["tx"]
    net = obs["net"]
    w = lambda **kw: dict(cell=repr(cell), tx=[round(t, 6) for t, _ in tx], wire=net.dump(40), **kw)
    if not tx:
        rep.inconc("no transmission observed for %r" % (cell,))
        return
    t0 = tx[0][0]
    # bytes identical
    rep.monitor("bytes_identical")
    if any(b != tx[0][1] for _, b in tx):
        rep.violation(side + "/retransmission-bytes-differ", "a retransmitted copy is not byte-identical to the first transmission", w(), case)
    # count
    if len(tx) > 1 + mr:
        rep.violation(side + "/too-many-transmissions", "more than 1+MAX_RETRANSMIT copies were sent", w(), case)
    # schedule
    rep.monitor("schedule")
    gaps = [tx[i + 1][0] - tx[i][0] for i in range(len(tx) - 1)]
    if gaps:
        g1 = gaps[0]
        if not (at - TOL <= g1 <= at * arf + TOL):
            rep.violation(side + "/initial-timeout-out-of-range", "first retransmission gap outside [ACK_TIMEOUT, ACK_TIMEOUT*ACK_RANDOM_FACTOR] of the message's tuning", w(gap=g1, lo=at, hi=at * arf), case)
        for i in range(1, len(gaps)):
            if abs(gaps[i] - 2 * gaps[i - 1]) > TOL * max(1, gaps[i]):
                rep.violation(side + "/gap-not-doubled", "a later retransmission gap is not exactly twice the previous one", w(gaps=gaps), case)
                break
    # when did the matching ACK/RST reach the sender?
    first = rc.parse(tx[0][1])
    mid = first.mid
    t_ack = None
    for e in net.log:
        if e.kind == "deliver" and e.msg is not None and e.msg.mid == mid and e.msg.type in (rc.ACK, rc.RST) and obs["match"](e):
            t_ack = e.t
            break
    if t_ack is not None and side == "client" and obs["outcome"][0] == "exception" and obs["t_done"] < t_ack - 1e-9:
        # the exchange had already ended (give-up) when that ACK/RST arrived: it matches nothing;
        # the give-up clauses below then judge whether ending at that time was right
        t_ack = None
        rep.count("ack_after_giveup")
    if t_ack is not None:
        rep.monitor("stop_after_ack")
        late = [t for t, _ in tx if t > t_ack + TOL]
        if late:
            rep.violation(side + "/retransmission-after-ack", "a copy was sent after the matching ACK/RST had arrived from the same endpoint", w(t_ack=t_ack), case)
        # every retransmission that was due strictly before the ack must have happened (decoys change nothing)
        if gaps or len(tx) == 1:
            g1 = gaps[0] if gaps else None
            if g1 is not None:
                due = [t0 + g1 * (2**i - 1) for i in range(0, mr + 1)]
                expected = [t for t in due if t < t_ack - 1e-4]
                if len(tx) < len(expected):
                    rep.violation(side + "/retransmission-missing-before-ack", "a retransmission that was due before the ACK/RST arrived was not sent", w(t_ack=t_ack, due=due), case)
            if decoy in ("mid+1", "mid-1", "port", "ip", "own-non-req", "own-con-req", "own-ping"):
                rep.monitor("decoy_no_effect")
    else:
        # no matching ack ever arrived: full schedule and give-up
        rep.monitor("giveup")
        if len(tx) != 1 + mr:
            rep.violation(side + "/wrong-transmission-count-without-ack", "without ACK/RST exactly 1+MAX_RETRANSMIT copies are expected", w(n=len(tx), want=1 + mr), case)
        if decoy != "none" and kind != "none":
            rep.monitor("decoy_no_effect")
    # outcome (client side only)
    if side == "client":
        kind_o, val = obs["outcome"]
        t_done = obs["t_done"]
        matched_kind = kind if t_ack is not None else "none"
        if matched_kind == "piggy":
            if kind_o != "response" or val != b"piggy":
                rep.violation("client/piggybacked-response-not-delivered", "request did not complete with the piggybacked response", w(outcome=repr(val)), case)
        elif matched_kind in ("empty", "foreign"):
            if kind_o != "response" or val != b"separate":
                rep.violation("client/separate-response-not-delivered", "after an empty ACK the request did not complete with the separate response", w(outcome=repr(val)), case)
        elif matched_kind == "rst":
            if kind_o != "exception" or not isinstance(val, error.Error):
                rep.violation("client/rst-does-not-fail-request", "a Reset for the request's message ID did not fail the request with a library error", w(outcome=repr(val)), case)
            elif abs(t_done - t_ack) > 1e-3:
                rep.violation("client/rst-failure-late", "the request failed at a different time than the Reset's arrival", w(t_done=t_done, t_ack=t_ack), case)
        else:
            if kind_o != "exception":
                rep.violation("client/completes-without-ack", "request completed with a response although nothing matching arrived", w(outcome=repr(val)), case)
            else:
                if not (isinstance(val, error.NetworkError) and isinstance(val, error.TimeoutError)):
                    rep.violation("client/giveup-wrong-exception/" + type(val).__name__, "give-up did not raise a timeout-class network error", w(outcome=repr(val)), case)
                if gaps or mr == 0:
                    g1 = gaps[0] if gaps else None
                    if g1 is None:
                        # MR == 0: a single transmission, failure after one initial timeout
                        lo, hi = t0 + at, t0 + at * arf
                        if not (lo - TOL <= t_done <= hi + TOL):
                            rep.violation("client/giveup-time-wrong", "give-up time is not one initial timeout after the only transmission", w(t_done=t_done), case)
                    else:
                        want = t0 + g1 * (2 ** (mr + 1) - 1)
                        if abs(t_done - want) > 1e-4:
                            rep.violation("client/giveup-time-wrong", "give-up is not one more doubled interval after the last copy", w(t_done=t_done, want=want), case)
                if t_done - t0 > at * arf * (2 ** (mr + 1) - 1) + 1e-4:
                    rep.violation("client/giveup-later-than-MAX_TRANSMIT_WAIT", "give-up later than MAX_TRANSMIT_WAIT", w(t_done=t_done), case)
    if res.loop_exceptions:
        rep.violation(side + "/loop-exception/" + str(res.loop_exceptions[0].get("exc_type")), "an exception reached the event loop during the exchange", w(loop=res.loop_exceptions[:2]), case)
    nontrivial = len(tx) > 1 or bool(lost) or decoy != "none" or kind != "piggy"
    rep.case((side,) + tuple(map(repr, cell)), nontrivial=nontrivial)


def run_server_case(tun, lost, ack_at, custom, seed, rep, case):
    """aiocoap server sends a separate CON response (slow handler); raw client acks or not."""
    from harness import scenario, simnet, refcodec as rc
    import asyncio
    import aiocoap
    import aiocoap.resource as R

    at, arf, mr = tun
    S = simnet.addr("10.0.0.1", 5683)
    C = simnet.addr("10.0.0.2", 40002)
    obs = {}

    class Slow(R.Resource):
        async def render_get(self, request):
            await asyncio.sleep(1.0)
            m = aiocoap.Message(payload=b"late")
            if custom:
                m.transport_tuning = mk_tuning(at, arf, mr)
            return m

    async def main(loop):
        tx = []

        def fate(net, src, dst, data, idx, m):
            if src == S and dst == C and m is not None and m.type == rc.CON and rc.is_response(m.code):
                n = len(tx)
                tx.append((loop.time(), data))
                return [] if n in lost else None
            return None

        net = simnet.SimNet(loop, simnet.ScriptPolicy(fate))

        def on_msg(peer, src, m, raw):
            if m is not None and m.type == rc.CON and rc.is_response(m.code):
                n = len(tx) - 1
                if ack_at is not None and n == ack_at:
                    peer.send(src, rc.Msg(rc.ACK, 0, m.mid, b"", (), b""))

        peer = simnet.RawPeer(net, "10.0.0.2", 40002, on_msg)
        site = R.Site()
        site.add_resource(["slow"], Slow())
        srv = await simnet.make_context(net, "10.0.0.1", 5683, site)
        peer.send(S, rc.Msg(rc.CON, 1, 0x4242, b"tk", ((11, b"slow"),), b""))
        await asyncio.sleep(1.0 + at * arf * (2 ** (mr + 2)) + 5)
        await srv.shutdown()
        obs.update(tx=tx, net=net, outcome=None, t_done=None, match=lambda e: e.src == C and e.dst == S)
        return True

    res = scenario.run(main, seed)
    cell = ((at, arf, mr) if custom else (2.0, 1.5, 4), tuple(lost), "empty" if ack_at is not None else "none", ack_at, "fast", "none")
    if not res.ok:
        if res.horizon:
            rep.inconc("virtual horizon exceeded (server case)")
        else:
            rep.violation("server/scenario-failed", "server-side scenario did not finish: hang=%r error=%r" % (res.hang, res.error), {"cell": repr(cell)}, case)
        return
    if not obs["tx"]:
        rep.violation("server/no-separate-con-response", "slow handler's response was never transmitted as CON", {"wire": obs["net"].dump(20)}, case)
        return
    rep.monitor("server_con_response")
    judge(cell, obs, rep, case, "server", res)


def run_shard(shard, rep, only=None):
    from harness import vloop

    vloop.install_time()
    import aiocoap  # noqa

    tier = shard["tier"]
    idx, of = shard["index"], shard["of"]
    all_cells = cells(tier)
    r = random.Random(shard["seed"])
    mine = [(i, c) for i, c in enumerate(all_cells) if i % of == idx]
    reps = 1 if tier == "quick" else 12  # thorough repeats the whole grid with other seeds (other initial timeouts)
    # sampled larger MAX_RETRANSMIT
    extra = []
    for tun in TUNINGS_SAMPLED:
        mr = tun[2]
        for _ in range(6 if tier == "quick" else 400):
            lost = tuple(sorted(r.sample(range(mr + 1), r.randrange(0, mr + 2))))
            kind = r.choice(ACK_KINDS)
            ks = [x for x in range(mr + 1) if x not in lost]
            if kind != "none" and ks:
                extra.append((tun, lost, kind, r.choice(ks), r.choice(DELAYS), r.choice(DECOYS)))
            else:
                extra.append((tun, lost, "none", None, None, "none"))
    n = 0
    for rp in range(reps):
        for i, cell in mine:
            case = ["cell", i, rp]
            if only is not None and only != case:
                continue
            _client(cell, (shard["seed"] * 100003 + i) * 31 + rp, rep, case)
            n += 1
            if n <= 2 and idx == 0:
                rep.sample({"class": "client-cell", "cell": repr(cell)})
    for j, cell in enumerate(extra):
        case = ["extra", j]
        if only is not None and only != case:
            continue
        _client(cell, shard["seed"] * 100003 + 50000 + j, rep, case)
    # the operating system refuses copy k
    rc_cases = [(tun, k) for tun in TUNINGS + TUNINGS_SAMPLED for k in range(tun[2] + 1)]
    for j, (tun, k) in enumerate(rc_cases):
        if j % of != idx:
            continue
        for rp in range(1 if tier == "quick" else 20):
            case = ["refused", j, rp]
            if only is not None and only != case:
                continue
            run_refused_copy_case(tun, k, shard["seed"] * 100003 + 90000 + j * 37 + rp, rep, case)
    # the application sends the same Message object again while the exchange of its earlier use is still open
    ru_cases = [(tun, why, when, bw) for tun in TUNINGS[:3] + TUNINGS_SAMPLED[:1] for why in ("given-up", "answered-separately", "twice-at-once") for when in ("before-first-retx", "after-first-retx") for bw in (False, True) if not (why == "twice-at-once" and when == "after-first-retx")]
    for j, (tun, why, when, bw) in enumerate(ru_cases):
        if j % of != idx:
            continue
        for rp in range(1 if tier == "quick" else 10):
            case = ["reuse", j, rp]
            if only is not None and only != case:
                continue
            run_reuse_case(tun, why, when, bw, shard["seed"] * 100003 + 70000 + j * 41 + rp, rep, case)
    # server-side CON responses
    srv_cases = []
    for tun in [(2.0, 1.5, 4), (0.5, 3.0, 1), (0.7, 2.0, 3)]:
        mr = tun[2]
        for custom in (False, True):
            if not custom and tun != (2.0, 1.5, 4):
                continue
            for nlost in range(0, mr + 2):
                for lost in itertools.combinations(range(mr + 1), nlost):
                    for ack_at in [None] + [x for x in range(mr + 1) if x not in lost]:
                        srv_cases.append((tun, lost, ack_at, custom))
    for j, (tun, lost, ack_at, custom) in enumerate(srv_cases):
        if j % of != idx:
            continue
        case = ["srv", j]
        if only is not None and only != case:
            continue
        run_server_case(tun, lost, ack_at, custom, shard["seed"] * 100003 + 70000 + j, rep, case)


def run_reuse_case(tun, why, when, blockwise, seed, rep, case):
    """A polling application sends one Message object again: its first use is over for the application (given up
    after a while, or answered by a separate response whose request was never acknowledged), but the message layer's
    exchange for it is still open and retransmitting. Every copy on the wire under one message ID is byte-identical,
    the second use and an unrelated fresh request to the same peer each end with a response or a network error, and
    nothing is left behind."""
    from harness import scenario, simnet, refcodec as rc
    import asyncio
    import aiocoap
    from aiocoap import error

    at, arf, mr = tun
    S = simnet.addr("10.0.0.1", 5683)
    obs = {}
    mtw = at * arf * (2 ** (mr + 1) - 1)

    async def main(loop):
        net = simnet.SimNet(loop)
        seen = []

        def on_msg(peer, src, m, raw):
            if m is None or not rc.is_request(m.code):
                return
            seen.append(m.mid)
            if why == "answered-separately" and len(seen) == 1:
                # the response overtakes the acknowledgement, which never comes
                peer.send(src, rc.Msg(rc.NON, rc.c(2, 5), peer.next_mid(), m.token, (), b"first"))

        simnet.RawPeer(net, "10.0.0.1", 5683, on_msg)
        cli = await simnet.make_context(net, "10.0.0.2", 40001, None, server=False)
        msg = aiocoap.Message(code=aiocoap.GET, uri="coap://10.0.0.1/poll", transport_tuning=mk_tuning(at, arf, mr))
        wait = at * 0.5 if when == "before-first-retx" else at * arf * 1.5
        r1 = cli.request(msg, handle_blockwise=blockwise)
        out = {}
        if why == "twice-at-once":
            # (asyncio.gather(ctx.request(msg).response, ctx.request(msg).response): the object is handed in a second
            # time before the first use has even been stamped with a message ID)
            out["first"] = "pending"
        elif why == "given-up":
            try:
                await asyncio.wait_for(r1.response, wait)
                out["first"] = "response"
            except asyncio.TimeoutError:
                out["first"] = "given-up"
            except Exception as e:
                out["first"] = repr(e)
        else:
            try:
                await r1.response
                out["first"] = "response"
            except Exception as e:
                out["first"] = repr(e)
            await asyncio.sleep(wait)
        t_again = loop.time()
        r2 = cli.request(msg, handle_blockwise=blockwise)
        r3 = cli.request(aiocoap.Message(code=aiocoap.GET, uri="coap://10.0.0.1/other", transport_tuning=mk_tuning(at, arf, mr)), handle_blockwise=blockwise)
        done = {}
        for name, r_ in (("second", r2), ("fresh", r3)) + ((("first", r1),) if why == "twice-at-once" else ()):
            r_.response.add_done_callback(lambda f, name=name: done.setdefault(name, (loop.time(), "cancelled" if f.cancelled() else f.exception() or "response")))
        await asyncio.sleep(3 * mtw + 10)
        mm = cli.request_interfaces[0].token_interface
        obs.update(net=net, out=out, done=dict(done), t_again=t_again, open_exchanges=len(mm._active_exchanges or {}), backlogs=len(mm._backlogs or {}))
        await cli.shutdown()
        return True

    res = scenario.run(main, seed)
    if not res.ok:
        if res.horizon:
            rep.inconc("virtual horizon exceeded in reuse case")
        else:
            rep.violation("message-reuse/scenario-failed", "scenario did not complete: hang=%r error=%r" % (res.hang, res.error), {"tuning": tun, "why": why, "when": when}, case)
        return
    net = obs["net"]
    log = [e for e in net.log if e.kind == "send" and e.dst == S and e.msg is not None and rc.is_request(e.msg.code)]
    w = lambda **kw: dict(tuning=tun, why=why, when=when, blockwise=blockwise, first=obs["out"].get("first"), done={k: (round(v[0], 6), repr(v[1])) for k, v in obs["done"].items()}, wire=[(round(e.t, 6), e.msg.mid, e.msg.token.hex(), rc.opt1(e.msg, 11)) for e in log], **kw)
    if obs["out"].get("first") != {"given-up": "given-up", "twice-at-once": "pending"}.get(why, "response"):
        # (with MAX_RETRANSMIT 0 the first use times out by itself before the application gives up: not this scenario)
        rep.count("reuse_case_first_use_ended_by_itself")
        return
    rep.monitor("message_object_reused")
    by_mid = {}
    for e in log:
        by_mid.setdefault(e.msg.mid, []).append(e)
    for mid, es in by_mid.items():
        rep.monitor("bytes_identical")
        if len({e.data for e in es}) != 1:
            rep.violation("message-reuse/copies-differ", "copies transmitted under one message ID are not byte-identical", w(mid=mid), case)
            return
        if len(es) > 1 + mr:
            rep.violation("message-reuse/too-many-copies", "more than 1+MAX_RETRANSMIT copies of one message", w(mid=mid), case)
            return
    for name in ("second", "fresh") + (("first",) if why == "twice-at-once" else ()):
        d = obs["done"].get(name)
        if d is None:
            rep.violation("message-reuse/%s-request-hangs" % name, "%s neither completed nor failed within three times MAX_TRANSMIT_WAIT" % ({"second": "the second use of the Message object", "first": "the first use of a Message object that was handed in twice in a row"}.get(name, "an unrelated fresh request to the same peer, submitted after the second use,")), w(), case)
            return
        if d[1] != "response" and not isinstance(d[1], error.NetworkError):
            rep.violation("message-reuse/%s-request-wrong-error" % name, "the request ended with something other than a response or a network error", w(), case)
            return
    if obs["open_exchanges"] or obs["backlogs"]:
        rep.violation("message-reuse/exchange-left-open", "exchange state for the peer survived all requests to it", w(open_exchanges=obs["open_exchanges"], backlogs=obs["backlogs"]), case)
    if res.loop_exceptions:
        rep.violation("message-reuse/loop-exception/" + str(res.loop_exceptions[0].get("exc_type")), "an exception reached the event loop", w(loop=res.loop_exceptions[:2]), case)
    rep.case(("reuse", tun, why, when, blockwise), nontrivial=True)


def run_refused_copy_case(tun, k, seed, rep, case):
    """The operating system refuses copy number k (k = 0: the first transmission) right in the send call (the route
    to the peer is gone): the request fails with a network error in that instant, nothing further is transmitted
    for it, and a later request to the same peer (route back) runs its own, unburdened schedule."""
    from harness import scenario, simnet, refcodec as rc
    import asyncio
    import aiocoap
    from aiocoap import error

    at, arf, mr = tun
    S = simnet.addr("10.0.0.1", 5683)
    obs = {}

    async def main(loop):
        net = simnet.SimNet(loop)
        simnet.RawPeer(net, "10.0.0.1", 5683)  # silent
        cli = await simnet.make_context(net, "10.0.0.2", 40001, None, server=False)
        t0 = loop.time()
        if k == 0:
            net.unreachable[S] = 101
        r = cli.request(aiocoap.Message(code=aiocoap.GET, uri="coap://10.0.0.1/x", transport_tuning=mk_tuning(at, arf, mr)), handle_blockwise=False)
        done = {}
        r.response.add_done_callback(lambda f: done.setdefault("t", loop.time()))

        def watch():
            # cut the route right after copy k-1 went out
            n = len([e for e in net.log if e.kind == "send" and e.dst == S])
            if n >= k and S not in net.unreachable and "cut" not in done:
                done["cut"] = loop.time()
                net.unreachable[S] = 101
            elif "cut" not in done:
                loop.call_later(0.01, watch)

        if k > 0:
            watch()
        try:
            await r.response
            outcome = ("response", None)
        except BaseException as e:
            outcome = ("exception", e)
        t_fail = done.get("t")
        net.unreachable.pop(S, None)
        # a later request to the same peer: full schedule of its own
        r2 = cli.request(aiocoap.Message(code=aiocoap.GET, uri="coap://10.0.0.1/y", transport_tuning=mk_tuning(at, arf, mr)), handle_blockwise=False)
        t2 = loop.time()
        try:
            await r2.response
            out2 = ("response", None)
        except BaseException as e:
            out2 = ("exception", e)
        t2_done = loop.time()
        await asyncio.sleep(at * arf * (2 ** (mr + 2)) + 5)
        mm = cli.request_interfaces[0].token_interface
        obs.update(net=net, outcome=outcome, t_fail=t_fail, out2=out2, t2=t2, t2_done=t2_done, open_exchanges=len(mm._active_exchanges or {}), backlogs=len(mm._backlogs or {}))
        await cli.shutdown()
        return True

    res = scenario.run(main, seed)
    if not res.ok:
        if res.horizon:
            rep.inconc("virtual horizon exceeded in refused-copy case")
        else:
            rep.violation("refused-copy/scenario-failed", "scenario did not complete: hang=%r error=%r" % (res.hang, res.error), {"tuning": tun, "k": k}, case)
        return
    net = obs["net"]
    rep.monitor("refused_copy")
    log = [e for e in net.log if e.dst == S and e.msg is not None and rc.is_request(e.msg.code)]
    first = {}
    for e in log:
        first.setdefault(e.msg.mid, []).append(e)
    mids = list(first)
    w = lambda **kw: dict(tuning=tun, k=k, wire=[(round(e.t, 6), e.kind, e.msg.mid) for e in log], outcome=repr(obs["outcome"]), later=repr(obs["out2"]), **kw)
    a = first[mids[0]] if mids else []
    refused = [e for e in a if e.kind == "senderror"]
    if not refused:
        rep.inconc("refused-copy: the send was never refused (k=%d)" % k)
        return
    t_ref = refused[0].t
    if obs["outcome"][0] != "exception" or not isinstance(obs["outcome"][1], error.NetworkError) or abs(obs["t_fail"] - t_ref) > 1e-6:
        rep.violation("refused-copy/request-not-failed-at-refusal", "the request did not fail with a network error in the instant the operating system refused a copy of its message", w(t_refused=t_ref, t_fail=obs["t_fail"]), case)
        return
    after = [e for e in a if e.t > t_ref + 1e-9]
    if after:
        rep.violation("refused-copy/copy-sent-after-failure", "a further copy of the message was transmitted after its request had failed with the transport's error", w(t_refused=t_ref), case)
        return
    b = first[mids[1]] if len(mids) > 1 else []
    if len([e for e in b if e.kind == "send"]) != 1 + mr or obs["out2"][0] != "exception" or not isinstance(obs["out2"][1], error.NetworkError):
        rep.violation("refused-copy/later-request-disturbed", "a later request to the same peer did not run its own full schedule (1+MAX_RETRANSMIT copies, then a timeout-class error)", w(), case)
        return
    if obs["open_exchanges"] or obs["backlogs"]:
        rep.violation("refused-copy/exchange-left-open", "exchange state for the peer survived the failure and the time-out of all requests to it", w(open_exchanges=obs["open_exchanges"], backlogs=obs["backlogs"]), case)
    if res.loop_exceptions:
        rep.violation("refused-copy/loop-exception/" + str(res.loop_exceptions[0].get("exc_type")), "an exception reached the event loop", w(loop=res.loop_exceptions[:2]), case)
    rep.case(("refused-copy", tun, k), nontrivial=True)


def _client(cell, seed, rep, case):
    run_client_case(cell, seed, rep, case)
