"""C09 — every request gets exactly one final response reflecting the handler outcome."""

import random

ID = "C09"
LEVEL = "exploration"
TECHNIQUE = "runtime monitoring on a simulated network: the full handler-outcome table (returns, every renderable error class, foreign exceptions, wrong return types, failing error renderers) x methods x CON/NON x completion before/after the empty ACK, run with concurrent neighbours from several raw endpoints; oracle = outcome table from the statement applied per (source, token) to the wire log, plus a leak detector for exception text"
LEVEL_TEXT = "The complete outcome x method x message-type x speed table is executed (exhaustive) and random concurrent mixes of outcomes from 1-3 endpoints are run; every request must get exactly one final response with the predicted code and payload, no secret marker from exception text may appear in any datagram, and neighbours / later requests must be answered normally."
LEVEL_NOTE = "Trusted: harness/simnet.py, refcodec, the outcome table in checks/c09.py. Expected code/payload of renderable errors are read from the raised instance's documented `code`/`message` attributes, not from its renderer."
RULE = (
    "one case = one request (table part) or one burst of 2-7 concurrent requests (mix part); cell = (outcome kind, method, CON/NON, handler delay). "
    "Non-trivial = the handler outcome is not a plain successful return, or neighbours ran concurrently; distinct = distinct cells / distinct mixes of outcome kinds"
)
ASSUMPTIONS = ["handlers raising BaseException subclasses (CancelledError, KeyboardInterrupt) are outside 'any other exception'"]
REQUIRED_MONITORS = {"kept_codeless_response_across_methods": 16, "one_final_response": 500, "code_and_payload": 500, "no_leak": 500, "neighbour_unaffected": 100, "later_request": 16, "no_site": 8, "neighbour_transport_failure": 30, "same_reaction_alone": 300, "response_usable": 500, "handler_suppressed": 30, "observable_resource": 60, "late_acks_from_peer": 60, "outcome_behind_unacked_neighbour": 60}
EXHAUSTIVE = {"outcome_table": "every outcome kind x 7 methods (+1 unassigned method code) x CON/NON x {before, after} the empty ACK"}

METHODS = [1, 2, 3, 4, 5, 6, 7]
MARK = "SECRETMARKER"


def default_code(method):
    if method in (1, 5):
        return 69
    if method == 4:
        return 66
    return 68


def outcomes():
    """list of (name, expected(method) -> (code, payload) )"""
    from aiocoap import error

    out = [
        ("return-with-code-2.05", lambda m: (69, b"body")),
        ("return-with-code-2.01", lambda m: (65, b"body")),
        ("return-with-code-4.03", lambda m: (131, b"body")),
        ("return-with-code-5.03", lambda m: (163, b"body")),
        ("return-without-code", lambda m: (default_code(m), b"body")),
        # a resource that keeps one code-less response and returns the same object for every request, whatever its method
        ("return-kept-message-without-code", lambda m: (default_code(m), b"kept")),
        ("return-NoResponse-sentinel", lambda m: ("suppressed", None)),
        ("return-with-no_response-option", lambda m: ("suppressed", None)),
        ("return-unserialisable-message", lambda m: (160, b"")),
        ("return-none", lambda m: (160, b"")),
        ("return-str", lambda m: (160, b"")),
        ("return-int", lambda m: (160, b"")),
        ("return-dict", lambda m: (160, b"")),
        # a Message, but not one that can be a response: a request code (the DELETE / DELETED slip) or the empty code
        ("return-request-code-message", lambda m: (160, None)),
        ("return-empty-code-message", lambda m: (160, None)),
        ("raise-ValueError", lambda m: (160, b"")),
        ("raise-KeyError", lambda m: (160, b"")),
        ("raise-custom", lambda m: (160, b"")),
        ("raise-asyncio-timeout", lambda m: (160, b"")),
        ("raise-library-nonrenderable", lambda m: (160, b"")),
        ("raise-response-wrapping", lambda m: (160, b"")),
        ("renderer-raises", lambda m: (160, b"")),
        ("renderer-returns-none", lambda m: (160, b"")),
        ("renderer-returns-codeless-message", lambda m: (160, b"")),
        ("renderer-returns-str", lambda m: (160, b"")),
        ("renderer-is-coroutine-function", lambda m: (160, b"")),
        ("renderer-returns-unserialisable-message", lambda m: (160, b"")),
        ("renderer-returns-incoming-message", lambda m: (160, b"")),
        ("renderer-returns-int-code-message", lambda m: (160, b"")),
    ]
    for cls in renderable_classes():
        out.append(("raise-renderable-" + cls.__name__, None))
    return out


def renderable_classes():
    from aiocoap import error

    seen, stack, res = set(), [error.ConstructionRenderableError], []
    while stack:
        c = stack.pop()
        for s in c.__subclasses__():
            if s not in seen and s.__module__ == "aiocoap.error":
                seen.add(s)
                stack.append(s)
                res.append(s)
    return sorted(res, key=lambda c: c.__name__)


def make_renderable(cls, text):
    try:
        return cls(text)
    except TypeError:
        return cls()


def build_site(loop, hlog):
    import asyncio
    import aiocoap
    import aiocoap.resource as R
    from aiocoap import error

    names = [n for n, _ in outcomes()]
    classes = {c.__name__: c for c in renderable_classes()}

    class Custom(Exception):
        pass

    class BadRenderer(error.RenderableError):
        def __init__(self, mode):
            self.mode = mode

        def to_message(self):
            if self.mode == "raise":
                raise RuntimeError("renderer failed " + MARK)
            if self.mode == "codeless":
                return aiocoap.Message(payload=("no code " + MARK).encode())
            if self.mode == "str":
                return "not a message " + MARK
            if self.mode == "unser":
                # a Message with a code, but one that cannot be put on the wire (text where bytes belong)
                return aiocoap.Message(code=aiocoap.BAD_REQUEST, payload="diagnostic that was never encoded " + MARK)
            if self.mode == "incoming":
                # what a forwarding resource has in hand: a response as it came in from upstream
                m = aiocoap.Message(code=aiocoap.BAD_GATEWAY, payload=MARK.encode())
                m.direction = aiocoap.message.Direction.INCOMING
                return m
            if self.mode == "intcode":
                m = aiocoap.Message(payload=MARK.encode())
                m.code = 128
                return m
            return None

    class AsyncRenderer(error.RenderableError):
        async def to_message(self):  # (written as a coroutine function by mistake: the call returns a coroutine)
            return aiocoap.Message(code=aiocoap.BAD_REQUEST, payload=MARK.encode())

    KEPT = aiocoap.Message(payload=b"kept")

    class Outcome(R.Resource):
        async def _handle(self, request):
            # payload: b"<outcome index>;<delay>;<serial>"
            idx, delay, serial = bytes(request.payload).split(b";")
            name = names[int(idx)]
            hlog.append((loop.time(), name, int(request.code), bytes(request.token).hex()))
            d = float(delay)
            if d:
                await asyncio.sleep(d)
            secret = "%s-%s" % (MARK, serial.decode())
            if name.startswith("return-with-code-"):
                c = name.rsplit("-", 1)[1]
                return aiocoap.Message(code=aiocoap.numbers.codes.Code((int(c[0]) << 5) | int(c[2:])), payload=b"body")
            if name == "return-without-code":
                return aiocoap.Message(payload=b"body")
            if name == "return-kept-message-without-code":
                return KEPT
            if name == "return-unserialisable-message":
                # a Message all right, but one that cannot be put on the wire (text where bytes belong)
                return aiocoap.Message(code=aiocoap.CONTENT, payload="text " + secret)
            if name == "return-none":
                return None
            if name == "return-NoResponse-sentinel":
                import warnings

                with warnings.catch_warnings():
                    warnings.simplefilter("ignore", DeprecationWarning)
                    return aiocoap.message.NoResponse
            if name == "return-with-no_response-option":
                return aiocoap.Message(code=aiocoap.CONTENT, payload=b"body", no_response=26)
            if name == "return-str":
                return "a string " + secret
            if name == "return-int":
                return 42
            if name == "return-dict":
                return {"code": 69, "x": secret}
            if name == "return-request-code-message":
                return aiocoap.Message(code=aiocoap.DELETE, payload=b"body")
            if name == "return-empty-code-message":
                return aiocoap.Message(code=aiocoap.EMPTY)
            if name == "raise-ValueError":
                raise ValueError(secret)
            if name == "raise-KeyError":
                raise KeyError(secret)
            if name == "raise-custom":
                raise Custom(secret)
            if name == "raise-asyncio-timeout":
                raise asyncio.TimeoutError(secret)
            if name == "raise-library-nonrenderable":
                raise error.Error(secret)
            if name == "raise-response-wrapping":
                raise error.ResponseWrappingError(aiocoap.Message(code=aiocoap.FORBIDDEN, payload=secret.encode()))
            if name == "renderer-raises":
                raise BadRenderer("raise")
            if name == "renderer-returns-none":
                raise BadRenderer("none")
            if name == "renderer-returns-codeless-message":
                raise BadRenderer("codeless")
            if name == "renderer-returns-str":
                raise BadRenderer("str")
            if name == "renderer-returns-unserialisable-message":
                raise BadRenderer("unser")
            if name == "renderer-returns-incoming-message":
                raise BadRenderer("incoming")
            if name == "renderer-returns-int-code-message":
                raise BadRenderer("intcode")
            if name == "renderer-is-coroutine-function":
                import warnings

                warnings.filterwarnings("ignore", message="coroutine .* was never awaited")
                raise AsyncRenderer()
            if name.startswith("raise-renderable-"):
                raise make_renderable(classes[name[len("raise-renderable-") :]], "diag-" + serial.decode())
            raise AssertionError("unknown outcome")

        render_get = render_post = render_put = render_delete = render_fetch = render_patch = render_ipatch = _handle

    class GetOnly(R.Resource):
        async def render_get(self, request):
            return aiocoap.Message(payload=b"getonly")

    class ObsDecline(R.ObservableResource):
        """an observable resource that does not take up the observation it is offered (which is its right)"""

        render_get = render_post = render_put = render_delete = render_fetch = render_patch = render_ipatch = Outcome._handle

        async def add_observation(self, request, serverobservation):
            pass

    class ObsAccept(R.ObservableResource):
        """... and one that accepts; like any writable observable resource it announces a state change when written to"""

        render_get = render_delete = render_fetch = render_patch = render_ipatch = Outcome._handle

        async def _write(self, request):
            key = bytes(request.token)
            self.writes[key] = self.writes.get(key, 0) + 1
            if self.writes[key] > 4:
                # the same write request is being executed over and over: break the loop (the count is judged)
                raise RuntimeError("write request re-executed")
            resp = await Outcome._handle(self, request)
            self.updated_state()
            return resp

        writes = {}
        render_put = render_post = _write

    site = R.Site()
    site.add_resource(["o"], Outcome())
    site.add_resource(["od"], ObsDecline())
    oa = ObsAccept()
    oa.writes = {}
    site.add_resource(["oa"], oa)
    site.add_resource(["getonly"], GetOnly())
    site._c09_obs_accept = oa
    return site, names


def expected_for(name, method, serial, table):
    from aiocoap import error

    if name.startswith("raise-renderable-"):
        cls = {c.__name__: c for c in renderable_classes()}[name[len("raise-renderable-") :]]
        e = make_renderable(cls, "diag-%d" % serial)
        return int(e.code), e.message.encode("utf8")
    return dict(table)[name](method)


def plan(tier, seed):
    n = 16
    return [{"name": "c09-%d" % i, "seed": seed * 1000 + i, "index": i, "of": n, "tier": tier, "mixes": {"quick": 25, "thorough": 3000}[tier]} for i in range(n)]


def run_requests(reqs, seed, rep, case, with_site=True, fault=None, ack_delay=0.0):
    """reqs: list of dict(peer, kind: 'o'|'getonly'|'missing', outcome idx, method, type, delay, t)"""
    from harness import scenario, simnet, refcodec as rc
    import asyncio

    box = {}

    async def main(loop):
        net = simnet.SimNet(loop)
        hlog = []
        site, names = build_site(loop, hlog)
        srv = await simnet.make_context(net, "10.0.0.1", 5683, site if with_site else None)
        S = simnet.addr("10.0.0.1", 5683)

        def on_msg(peer, src, m, raw):
            if m is not None and m.type == rc.CON and rc.is_response(m.code):
                # (a slow peer / long path: separate responses are acknowledged late, so that the next separate
                # response to this peer has to wait its turn)
                if ack_delay:
                    loop.call_later(ack_delay, peer.send, src, rc.Msg(rc.ACK, 0, m.mid, b"", (), b""))
                else:
                    peer.send(src, rc.Msg(rc.ACK, 0, m.mid, b"", (), b""))

        peers = [simnet.RawPeer(net, ip, port, on_msg) for ip, port in [("10.0.0.2", 40000), ("10.0.0.2", 40001), ("10.0.0.3", 40000)]]
        now = 0.0
        if fault is not None:
            # a transport-level failure of ONE peer (ICMP error for its address) while others have requests in flight
            net.inject_error(S, peers[fault["peer"]].addr, 111, delay=fault["t"])
        for k, q in enumerate(sorted(reqs, key=lambda q: q["t"])):
            if q["t"] > now:
                await asyncio.sleep(q["t"] - now)
                now = q["t"]
            path = {"o": b"o", "getonly": b"getonly", "missing": b"nope"}[q["kind"]]
            opts = ((11, path),)
            if q.get("obs") and q["kind"] == "o":
                # the same outcomes behind an observable resource (declining / accepting), asked for with Observe: 0
                opts = ((6, b""), (11, b"od" if q["obs"] == "decline" else b"oa"))
            payload = b"%d;%s;%d" % (q.get("outcome", 0), repr(q["delay"]).encode(), q["serial"])
            peers[q["peer"]].send(S, rc.Msg(q["type"], q["method"], 0x100 + (q["serial"] % 0x7000), bytes([0xC0, q["serial"] & 0xFF, (q["serial"] >> 8) & 0xFF]), opts, payload))
        await asyncio.sleep(3.0 + 8 * ack_delay)
        # a later, ordinary request must be answered normally
        peers[0].send(S, rc.Msg(rc.CON, 1, 0xFFF0, b"\xee\xee", ((11, b"o"),), b"0;0.0;9999"))
        await asyncio.sleep(1.0)
        box.update(net=net, S=S, peers=[p.addr for p in peers], hlog=hlog, names=names, writes=dict(getattr(site, "_c09_obs_accept").writes))
        await srv.shutdown()
        return True

    res = scenario.run(main, seed)
    return res, box


def judge(reqs, res, box, rep, case, table, with_site=True, fault=None):
    from harness import refcodec as rc

    if not res.ok:
        if res.horizon:
            rep.inconc("horizon")
        else:
            rep.violation("scenario-failed", "scenario did not complete: hang=%r error=%r" % (res.hang, res.error), {"reqs": repr(reqs)[:800]}, case)
        return
    net, S, names = box["net"], box["S"], box["names"]
    wit = lambda **kw: dict(reqs=repr(reqs)[:1500], wire=net.dump(60), **kw)
    sends = [e for e in net.log if e.kind == "send" and e.src == S and e.msg is not None]
    # ---- leak detector over everything the server ever sent ----
    rep.monitor("no_leak", len(sends))
    for e in sends:
        if MARK.encode() in e.data:
            rep.violation("exception-text-leaked", "text of a non-renderable exception / wrong return value appears in a datagram", wit(event=e.brief()), case)
            break
    many = len(reqs) > 1
    for tok, n in box.get("writes", {}).items():
        if n > 1:
            rep.violation("write-request-executed-%s" % ("repeatedly" if n > 4 else "%d-times" % n), "one PUT/POST request was handed to its handler %s times: the request was taken for an observation registration and re-rendered for every state change (the one it causes itself included)" % (n if n <= 4 else "more than 4"), wit(token=tok.hex()), case)
            break
    for q in reqs:
        if fault is not None and q["peer"] == fault["peer"]:
            rep.count("requests_of_failed_peer_not_judged")
            continue
        tok = bytes([0xC0, q["serial"] & 0xFF, (q["serial"] >> 8) & 0xFF])
        dst = box["peers"][q["peer"]]
        finals = {}
        for e in sends:
            if e.dst == dst and e.msg.token == tok and rc.is_response(e.msg.code):
                finals.setdefault((e.msg.mid, e.data), e)
        rep.monitor("one_final_response")
        name = names[q.get("outcome", 0)] if q["kind"] == "o" else q["kind"]
        if not with_site:
            exp = (132, None)
        elif q["kind"] == "missing":
            exp = (132, None)
        elif q["kind"] == "getonly":
            exp = (69, b"getonly") if q["method"] == 1 else (133, None)
        elif q["method"] not in METHODS:
            exp = (133, None)
        else:
            exp = expected_for(name, q["method"], q["serial"], table)
        key = "%s" % name if not name.startswith("raise-renderable-") else "raise-renderable"
        if exp[0] == "suppressed":
            # the handler asked for no response to be sent: none goes out, a confirmable request still gets its
            # empty ACK
            rep.monitor("handler_suppressed")
            acks = {e.data for e in sends if e.dst == dst and e.msg.mid == 0x100 + (q["serial"] % 0x7000) and e.msg.type == rc.ACK and e.msg.code == 0}
            if finals:
                rep.violation("suppressed-response-sent/%s" % key, "the handler suppressed the response, but one was sent", wit(request=repr(q), finals=[e.brief() for e in finals.values()]), case)
            elif q["type"] == rc.CON and len(acks) != 1:
                rep.violation("suppressed-response-no-empty-ack/%s" % key, "the handler suppressed the response; the confirmable request got %d empty ACKs instead of one" % len(acks), wit(request=repr(q)), case)
            continue
        if len(finals) != 1:
            rep.violation("final-responses-%d/%s" % (len(finals), key), "a request was answered with %d final responses instead of exactly one" % len(finals), wit(request=repr(q), finals=[e.brief() for e in finals.values()]), case)
            continue
        e = list(finals.values())[0]
        # answered = by a message a conforming client accepts as the response: a piggy-backed ACK under the
        # request's own message ID (CON requests only), or a CON/NON message; an ACK under any other message ID
        # acknowledges nothing and is discarded by its receiver
        rep.monitor("response_usable")
        req_mid = 0x100 + (q["serial"] % 0x7000)
        if e.msg.type == rc.RST or (e.msg.type == rc.ACK and (q["type"] != rc.CON or e.msg.mid != req_mid)):
            rep.violation("final-response-unusable/%s" % key, "the only response to the request is a %s that does not belong to the request's message exchange (a client discards it): the request is effectively unanswered" % ("Reset" if e.msg.type == rc.RST else "ACK"), wit(request=repr(q), response=e.brief()), case)
            continue
        rep.monitor("code_and_payload")
        if e.msg.code != exp[0]:
            rep.violation("wrong-code/%s" % key, "the final response carries code %s, the handler outcome calls for %s" % (rc.code_str(e.msg.code), rc.code_str(exp[0])), wit(request=repr(q), response=e.brief()), case)
        elif exp[1] is not None and e.msg.payload != exp[1]:
            rep.violation("wrong-payload/%s" % key, "the final response's payload does not reflect the handler outcome", wit(request=repr(q), response=e.brief(), expected=repr(exp[1])), case)
        elif exp == (160, b"") and not name.startswith("raise-renderable-") and (e.msg.payload or e.msg.options):
            rep.violation("5.00-not-bare/%s" % key, "the 5.00 produced for an unexpected handler outcome is not bare (payload or options present)", wit(request=repr(q), response=e.brief()), case)
        if q["type"] == rc.CON and e.msg.type not in (rc.ACK, rc.CON, rc.NON):
            pass
        if many:
            rep.monitor("neighbour_unaffected")
    # later request
    rep.monitor("later_request")
    later = [e for e in sends if e.msg.token == b"\xee\xee" and rc.is_response(e.msg.code)]
    want = 69 if with_site else 132
    if len({(e.msg.mid, e.data) for e in later}) != 1 or later[0].msg.code != want:
        rep.violation("later-request-affected", "an ordinary request sent after the failures was not answered normally", wit(later=[e.brief() for e in later]), case)
    if res.loop_exceptions:
        rep.violation("loop-exception/" + str(res.loop_exceptions[0].get("exc_type")), "an exception reached the event loop", wit(loop=res.loop_exceptions[:2]), case)
    if res.logging_failures:
        rep.violation("logging-call-failed", "a logging call inside the library raised while handling the outcome", wit(failures=res.logging_failures[:2]), case)


def reaction_signature(box, q):
    """what the server sent in reaction to q, without times; the message ID relation only for ACK/RST (the ID of a
    CON/NON message is the node's own choice and may coincide with the request's by chance)"""
    from harness import refcodec as rc

    tok = bytes([0xC0, q["serial"] & 0xFF, (q["serial"] >> 8) & 0xFF])
    mid = 0x100 + (q["serial"] % 0x7000)
    dst = box["peers"][q["peer"]]
    out, seen = [], set()
    for e in box["net"].log:
        if e.kind == "send" and e.src == box["S"] and e.dst == dst and e.msg is not None and e.data not in seen:
            m = e.msg
            if m.token == tok or (m.mid == mid and m.type in (rc.ACK, rc.RST)):
                seen.add(e.data)
                out.append(("CON NON ACK RST".split()[m.type], rc.code_str(m.code), ("same-mid" if m.mid == mid else "other-mid") if m.type in (rc.ACK, rc.RST) else "own-mid", m.token.hex(), repr(m.options), m.payload.hex()))
    return out


def run_shard(shard, rep, only=None):
    from harness import vloop, refcodec as rc

    vloop.install_time()
    import aiocoap  # noqa

    table = outcomes()
    names = [n for n, _ in table]
    r = random.Random(shard["seed"])
    idx, of = shard["index"], shard["of"]
    serial = [0]

    def nxt():
        serial[0] += 1
        return serial[0]

    # ---- exhaustive table, one request per scenario ----
    cells = []
    for oi, name in enumerate(names):
        for method in METHODS + [9]:
            for typ in (rc.CON, rc.NON):
                for delay in (0.0, 0.3):
                    cells.append(("o", oi, method, typ, delay))
    for method in METHODS:
        for typ in (rc.CON, rc.NON):
            cells.append(("getonly", 0, method, typ, 0.0))
            cells.append(("missing", 0, method, typ, 0.0))
    ncells_plain = len(cells)
    for oi, name in enumerate(names):
        for typ in (rc.CON, rc.NON):
            for delay in (0.0, 0.3):
                for obs in ("decline", "accept"):
                    cells.append(("o", oi, 1, typ, delay, obs))
    # Observe: 0 on a write request to a writable observable resource
    for name in ("return-with-code-2.05", "return-without-code", "return-with-code-4.03"):
        for method in (2, 3):
            for typ in (rc.CON, rc.NON):
                for obs in ("decline", "accept"):
                    cells.append(("o", names.index(name), method, typ, 0.0, obs))
    for ci, cell in enumerate(cells):
        kind, oi, method, typ, delay = cell[:5]
        if ci % of != idx:
            continue
        case = ["cell", ci]
        if only is not None and only != case:
            continue
        q = {"peer": 0, "kind": kind, "outcome": oi, "method": method, "type": typ, "delay": delay, "t": 0.0, "serial": nxt()}
        if len(cell) > 5:
            q["obs"] = cell[5]
            rep.monitor("observable_resource")
        res, box = run_requests([q], shard["seed"] * 7919 + ci, rep, case)
        judge([q], res, box, rep, case, table)
        nm = names[oi] if kind == "o" else kind
        rep.case(("cell", nm, method, typ, delay), nontrivial=not nm.startswith("return-with-code-2") or method == 9)
        if ci < 40 and ci % 20 == 0 and idx == 0:
            rep.sample({"class": "cell", "outcome": nm, "method": method, "type": typ, "delay": delay})
    # ---- every outcome as a separate response that has to wait behind a neighbour's unacknowledged one ----
    for oi, name in enumerate(names):
        for method in (1, 3):
            case = ["behind", oi, method]
            if (oi * 2 + method) % of != idx or (only is not None and only != case):
                continue
            reqs = [
                {"peer": 0, "kind": "o", "outcome": names.index("return-with-code-2.05"), "method": 1, "type": rc.CON, "delay": 0.3, "t": 0.0, "serial": nxt()},
                {"peer": 0, "kind": "o", "outcome": oi, "method": method, "type": rc.CON, "delay": 0.4, "t": 0.0, "serial": nxt()},
                {"peer": 0, "kind": "o", "outcome": names.index("return-with-code-2.01"), "method": 2, "type": rc.CON, "delay": 0.5, "t": 0.0, "serial": nxt()},
            ]
            res, box = run_requests(reqs, shard["seed"] * 31 + oi, rep, case, ack_delay=0.6)
            judge(reqs, res, box, rep, case, table)
            rep.monitor("outcome_behind_unacked_neighbour")
            rep.case(("behind", name, method), nontrivial=True)
    # ---- the kept code-less response object returned for requests of several methods, one after the other: each gets
    # the default success code of its own method --------
    koi = names.index("return-kept-message-without-code")
    orders = [(4, 3, 2, 1, 5), (1, 4, 3, 1, 2), (3, 1, 4, 2, 5), (2, 5, 1, 4, 3)]
    for ki, order in enumerate(orders):
        for typ in (rc.CON, rc.NON):
            for delay in (0.0, 0.3):
                case = ["kept", ki, typ, delay]
                if (ki * 4 + typ * 2 + (1 if delay else 0)) % of != idx or (only is not None and only != case):
                    continue
                reqs = [{"peer": 0, "kind": "o", "outcome": koi, "method": m_, "type": typ, "delay": delay, "t": 1.0 * k_, "serial": nxt()} for k_, m_ in enumerate(order)]
                res, box = run_requests(reqs, shard["seed"] * 613 + ki, rep, case)
                judge(reqs, res, box, rep, case, table)
                rep.monitor("kept_codeless_response_across_methods")
                rep.case(("kept", order, typ, delay), nontrivial=True)
    # ---- concurrent mixes ----
    for mi in range(shard["mixes"]):
        case = ["mix", mi]
        n = r.randrange(2, 8)
        reqs = []
        for _ in range(n):
            kind = r.choice(["o"] * 8 + ["getonly", "missing"])
            reqs.append({"peer": r.randrange(3), "kind": kind, "outcome": r.randrange(len(names)), "method": r.choice(METHODS), "type": r.choice([rc.CON, rc.NON]), "delay": r.choice([0.0, 0.0, 0.05, 0.3, 1.0]), "t": r.choice([0.0, 0.0, 0.01, 0.2]), "serial": nxt()})
        if only is not None and only != case:
            continue
        fault = None
        if r.random() < 0.4:
            fault = {"peer": r.choice([1, 2]), "t": r.choice([0.02, 0.1, 0.25, 0.6])}
        ack_delay = r.choice([0.0, 0.0, 0.6, 2.5])
        if ack_delay:
            rep.monitor("late_acks_from_peer")
            rep.monitor("separate_response_behind_unacked_one", 1 if sum(1 for q in reqs if q["delay"] >= 0.3 and q["type"] == rc.CON and q["peer"] == reqs[0]["peer"]) >= 2 else 0)
        res, box = run_requests(reqs, shard["seed"] * 104729 + mi, rep, case, fault=fault, ack_delay=ack_delay)
        judge(reqs, res, box, rep, case, table, fault=fault)
        if fault is not None:
            rep.monitor("neighbour_transport_failure")
        # "a failure in one request affects neither requests in flight nor any later request": every request of the
        # mix, sent on its own to a fresh server, must draw the same reaction (type, code, token, options, payload,
        # same/fresh message ID) as it drew inside the mix
        if res.ok:
            for q in reqs:
                if fault is not None and q["peer"] == fault["peer"]:
                    continue
                res1, box1 = run_requests([q], shard["seed"] * 104729 + mi, rep, case, ack_delay=ack_delay)
                if not res1.ok:
                    continue
                rep.monitor("same_reaction_alone")
                a, b = reaction_signature(box, q), reaction_signature(box1, q)
                if a != b:
                    nm = names[q["outcome"]] if q["kind"] == "o" else q["kind"]
                    nm = "raise-renderable" if nm.startswith("raise-renderable-") else nm
                    rep.violation("reaction-differs-from-solo/%s" % nm, "a request drew another reaction among concurrent / earlier requests than the same request draws on its own", {"request": repr(q), "in_mix": a, "alone": b, "reqs": repr(reqs)[:1500], "wire": box["net"].dump(60)}, case)
        rep.case(("mix", tuple(sorted((names[q["outcome"]] if q["kind"] == "o" else q["kind"]) for q in reqs))), nontrivial=True)
    # ---- context without a site ----
    case = ["nosite"]
    if only is None or only == case:
        reqs = [{"peer": k % 3, "kind": "o", "outcome": 0, "method": METHODS[k % 7], "type": rc.CON if k % 2 else rc.NON, "delay": 0.0, "t": 0.0, "serial": nxt()} for k in range(4)]
        res, box = run_requests(reqs, shard["seed"], rep, case, with_site=False)
        rep.monitor("no_site")
        judge(reqs, res, box, rep, case, table, with_site=False)
        rep.case(("nosite",), nontrivial=True)
