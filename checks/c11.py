"""C11 — OSCORE: round trip, inner data hidden, responses bound to their request, tampering detected.

Runs under /usr/bin/python3 (has `cryptography`) with the cbor2/filelock stand-ins.
Oracles: harness.refcodec (independent RFC 7252 codec, decodes the outer wire bytes) and
harness.oscore_c11ref (independent reading of RFC 8613 sections 3.2.1, 5.2-5.4, 6.1)."""

import random

ID = "C11"
LEVEL = "exploration"
INTERPRETER = "system"
SHIMS = True
TECHNIQUE = (
    "runtime monitoring of the real CanProtect.protect / CanUnprotect.unprotect on in-memory context pairs: generated "
    "requests and responses are protected, serialised with Message.encode, re-decoded and unprotected; the wire bytes are "
    "decoded by an independent RFC 7252 codec (hiding) and decrypted by an independent RFC 8613 re-implementation "
    "(AAD, nonce, key derivation); every single-bit flip and a catalogue of field-level edits of OSCORE option and "
    "ciphertext, foreign-key contexts and all response/request cross pairings are pushed through unprotect and judged "
    "by an independent parser of the compressed option"
)
LEVEL_TEXT = (
    "Held (apart from the mechanism-keyed findings) on every generated case: every AEAD algorithm of oscore.algorithms (12; A128CBC is "
    "not an AEAD and is refused by protect()), all admissible sender/recipient ID length pairs, ID contexts of 0/1/8/255 bytes or none, "
    "Partial IVs of 1..5 bytes; 1.6e3 (quick) / 4.8e4 (thorough) context-pair scenarios with 1.9e6 / 5.7e7 unprotect attempts on "
    "genuine, manipulated, cross-paired and foreign-key messages; says nothing about Group OSCORE, EDHOC, Appendix B.2, Proxy-Uri "
    "(protect() refuses it) or messages outside the generators' classes."
)
LEVEL_NOTE = (
    "Trusted: harness/refcodec.py, harness/oscore_c11ref.py (self-tested on RFC 8613 Appendix C vectors each run), the "
    "cbor2 stand-in (checked by the repository's own Appendix C tests each run), the `cryptography` AEAD primitives."
)
RULE = (
    "a case is one unprotect() attempt (genuine, manipulated, cross-paired or under a foreign context) or one hiding / "
    "reference-decryption evaluation of a protected message; all are non-trivial (each carries a ciphertext). distinct = "
    "distinct (algorithm, sender/recipient ID lengths, ID-context class, Partial-IV length, message kind, code, inner option "
    "number set, payload size class, manipulation kind / touched field, outcome class) signatures"
)
ASSUMPTIONS = [
    "harness/oscore_c11ref.py is a correct reading of RFC 8613 sections 3.2.1, 5.2, 5.3, 5.4 and 6.1 (Appendix C vectors C.1.1, C.3.1, C.4, C.7, C.8 pass each run)",
    "the outer option numbers the statement permits are OSCORE(9), Uri-Host(3), Uri-Port(7), Proxy-Uri(35), Proxy-Scheme(39), Observe(6); anything else in an outer message produced by protect() is flagged (RFC 8613 would also allow outer Max-Age/Block/Size/No-Response/Hop-Limit, but only when an intermediary or outer block-wise adds them, which protect() never does)",
    "a manipulated OSCORE option whose RFC 8613 section 6.1 reading gives the same Partial IV bytes, an (explicit or implied) kid equal to the receiver's Recipient ID and an (explicit or implied) kid context equal to the receiver's ID Context is semantically neutral: it may be rejected or yield the original message; a request without kid is NOT neutral (RFC 8613 section 8.2 step 3 needs the kid to find the context)",
    "a request's Partial IV is compared byte-exact (it is the request_piv of the AAD); a response's own Partial IV only enters the nonce left-padded to 5 bytes, so a leading zero byte added to it is neutral (RFC 8613 sections 5.2, 5.4: the option value itself is not authenticated)",
    "sender ID != recipient ID within a context pair (RFC 8613 section 3.3 requires unique sender IDs)",
    "ReplayWindow is re-initialised empty before every unprotect attempt so that replay rejection never masks a verdict",
]
REQUIRED_MONITORS = {
    "rt_request": 100, "rt_response_reuse": 100, "rt_response_ownpiv": 100, "hide": 300, "ref_decrypt": 300,
    "binding": 500, "tamper_bitflip_option": 5000, "tamper_bitflip_ciphertext": 20000, "tamper_field": 5000,
    "foreign_context": 1000, "fixed_witnesses": 4,
}
EXHAUSTIVE = {
    "single_bit_flip_option": "every bit of every OSCORE option value up to 40 bytes (requests, responses with own Partial IV); for longer ones (255-byte ID context) every bit of the first 8 bytes (flag, Partial IV, s) and last 9 bytes (kid) plus 24 random bits",
    "single_bit_flip_ciphertext": "every bit of every ciphertext up to 48 bytes; for longer ones every bit of the first 8 and last 17 bytes plus 64 random bits",
    "truncation": "every proper prefix of every option value and of every ciphertext up to 48 bytes",
    "pairing": "all ordered pairs of distinct requests in a pool of 2 clients x 2 Partial IVs, both nonce modes",
    "alg_x_seq_x_idctx": "12 AEAD algorithms x 9 boundary sequence numbers x 4 ID-context classes enumerated over the global scenario index",
}
WORKER_TIMEOUT = {"quick": 600, "thorough": 7200}

SEQS = [0, 1, 255, 256, 65535, 65536, 2**24, 2**32, 2**40 - 2]
REQ_CODES = [1, 2, 3, 4, 5, 6, 7]  # GET POST PUT DELETE FETCH PATCH iPATCH
RESP_CODES = [65, 66, 67, 68, 69, 128, 129, 130, 131, 132, 133, 134, 140, 141, 143, 160, 161, 162, 163, 164, 165]
PAYLOAD_SIZES = [0, 1, 15, 16, 17, 255, 1024]
ALLOWED_OUTER = {9, 3, 7, 35, 39, 6}
CLASS_U = {3, 7, 35, 39}
OUTER_REQ_CODES = {2, 5}
OUTER_RESP_CODES = {68, 69}
MARK_ALPHABET = "abcdefghijklmnopqrstuvwxyzABCDEFGHIJKLMNOPQRSTUVWXYZ0123456789"

# option number -> value kind, for Class E options a request / response may carry
STRING, UINT, OPAQUE, BLOCK, EMPTY = "s", "u", "o", "b", "e"
REQ_OPTS = {1: OPAQUE, 4: OPAQUE, 5: EMPTY, 11: STRING, 12: UINT, 15: STRING, 17: UINT, 23: BLOCK, 27: BLOCK, 28: UINT, 60: UINT, 252: OPAQUE, 258: UINT, 292: OPAQUE, 65000: OPAQUE, 2049: OPAQUE}
RESP_OPTS = {4: OPAQUE, 8: STRING, 12: UINT, 14: UINT, 20: STRING, 23: BLOCK, 27: BLOCK, 28: UINT, 60: UINT, 252: OPAQUE, 65000: OPAQUE}
REPEATABLE = {1, 4, 8, 11, 15, 20, 292}


def plan(tier, seed):
    n = 16
    per = {"quick": 100, "thorough": 3000}[tier]
    return [{"name": "c11-%d" % i, "seed": seed * 1000 + i, "n": per, "index": i, "of": n, "tier": tier} for i in range(n)]


# ------------------------------------------------------------------------------ generators


def marker(r, tag):
    return tag + "".join(r.choice(MARK_ALPHABET) for _ in range(10))


def rbytes(r, n):
    return bytes(r.getrandbits(8) for _ in range(n))


def uint_raw(v):
    return v.to_bytes((v.bit_length() + 7) // 8, "big")


def raw_of(kind, v):
    if kind == STRING:
        return v.encode("utf8")
    if kind == UINT:
        return uint_raw(v)
    if kind == BLOCK:
        return uint_raw((v[0] << 4) | (8 if v[1] else 0) | v[2])
    if kind == EMPTY:
        return b""
    return bytes(v)


def gen_value(r, number, kind, markers):
    if kind == STRING:
        m = marker(r, "S%d" % number)
        markers.append(m.encode())
        return m
    if kind == UINT:
        if number in (12, 17):
            return r.choice([0, 40, 50, 60, 110, 10000, 65535])
        if number == 258:
            return r.choice([0, 2, 8, 16, 26])
        return r.choice([0, 1, 60, 255, 256, 65536, 2**32 - 1])
    if kind == BLOCK:
        return (r.choice([0, 1, 15, 16, 4095, 2**20 - 1]), bool(r.getrandbits(1)), r.randrange(7))
    if kind == EMPTY:
        return b""
    m = marker(r, "O%d" % number).encode()[: r.choice([1, 4, 8, 8])]
    if len(m) >= 8:
        markers.append(m)
    return m


def gen_message(r, is_request, gi):
    """-> dict(code, opts [(number, value, kind)], outer [(number, value)], payload, markers)"""
    markers = []
    table = REQ_OPTS if is_request else RESP_OPTS
    code = (REQ_CODES if is_request else RESP_CODES)[gi % len(REQ_CODES if is_request else RESP_CODES)] if r.random() < 0.5 else r.choice(REQ_CODES if is_request else RESP_CODES)
    opts = []
    style = r.random()
    if style < 0.15:
        numbers = []
    elif style < 0.3:
        numbers = sorted(table)  # every class at once
    else:
        numbers = sorted(r.sample(sorted(table), r.randrange(1, 6)))
    if is_request and 11 not in numbers and r.random() < 0.7:
        numbers = sorted(numbers + [11])
    for n in numbers:
        kind = table[n]
        reps = r.choice([1, 1, 2, 3]) if n in REPEATABLE else 1
        for _ in range(reps):
            opts.append((n, gen_value(r, n, kind, markers), kind))
    outer = []
    observe = None
    if is_request:
        k = r.random()
        if k < 0.3:
            outer.append((3, "h" + marker(r, "").lower() + ".example"))
        if k < 0.15:
            outer.append((7, r.choice([5683, 1, 65535])))
        if 0.3 <= k < 0.36:
            outer.append((39, "http"))
            outer.append((3, "proxied.example"))
        if r.random() < 0.25 and code in (1, 5):
            observe = 0
    else:
        if r.random() < 0.2 and code in (67, 69):
            observe = r.choice([0, 1, 5, 2**24 - 1])
    size = PAYLOAD_SIZES[gi % len(PAYLOAD_SIZES)] if r.random() < 0.6 else r.choice(PAYLOAD_SIZES[:5])
    if size >= 15:
        m = marker(r, "PAYL").encode()  # 14 bytes
        markers.append(m)
        payload = m + rbytes(r, size - len(m))
    else:
        payload = rbytes(r, size)
    return {"code": code, "opts": opts, "outer": outer, "observe": observe, "payload": payload, "markers": markers}


def gen_ids(r, maxlen, gi):
    """Two different IDs with lengths cycling through all pairs 0..maxlen."""
    pairs = [(a, b) for a in range(maxlen + 1) for b in range(maxlen + 1) if (a, b) != (0, 0)]
    la, lb = pairs[((gi // 12) * 11) % len(pairs)] if r.random() < 0.7 else r.choice(pairs)
    style = r.random()
    a = rbytes(r, la) if style < 0.6 else (b"\0" * la if style < 0.8 else b"\xff" * la)
    b = rbytes(r, lb) if style < 0.6 else (b"\0" * lb if style < 0.9 else b"\xff" * lb)
    if a == b:
        b = bytes([b[0] ^ 1]) + b[1:]
    return a, b


def gen_idctx(r, gi):
    k = (gi // 108) % 4
    if r.random() < 0.15:
        k = r.randrange(5)
    return [None, rbytes(r, 1), rbytes(r, 8), rbytes(r, 255), b""][k]


# ------------------------------------------------------------------------------ judging


def piv_len_class(o):
    return 0 if o is None or o.piv is None else len(o.piv)


def size_class(n):
    for i, b in enumerate((0, 1, 15, 16, 17, 255, 1024)):
        if n <= b:
            return i
    return 9


def judge(ref, recv_recipient_id, recv_id_context, is_request, orig, orig_ct, optv, ct):
    """Independent expectation for unprotect(optv, ct) at a receiver whose Recipient ID /
    ID Context are given, when (orig, orig_ct) is a genuine message for that receiver.
    -> ("must_fail" | "neutral", reason)"""
    if ct != orig_ct:
        return "must_fail", "ciphertext-changed"
    if optv is None:
        return "must_fail", "option-removed"
    try:
        o = ref.parse_option(optv)
    except ref.RefError as e:
        return "must_fail", "malformed-" + "".join(c if c.isalnum() else "-" for c in str(e).lower()).replace("--", "-").strip("-")
    if is_request:
        # the request's Partial IV bytes are the request_piv of the AAD (section 5.4): exact bytes matter
        if o.piv != orig.piv:
            return "must_fail", "piv-changed"
    else:
        # a response's own Partial IV only enters the nonce, left-padded to 5 bytes (section 5.2); the
        # OSCORE option itself is not authenticated, so leading zeros are neutral for every RFC 8613 receiver
        if (o.piv is None) != (orig.piv is None) or (o.piv is not None and int.from_bytes(o.piv, "big") != int.from_bytes(orig.piv, "big")):
            return "must_fail", "piv-changed"
    if o.kid is None:
        if is_request and orig.kid:
            return "must_fail", "request-kid-removed"
    elif o.kid != recv_recipient_id:
        return "must_fail", "kid-changed"
    if o.kid_context is not None and o.kid_context != recv_id_context:
        return "must_fail", "kid-context-changed"
    return "neutral", "same-piv-kid-context"


def option_field_of_byte(orig, optv, i):
    """Which field of the genuine option byte i belongs to (for signatures / keys)."""
    if i == 0:
        return "flag"
    pos = 1
    n = len(orig.piv) if orig.piv else 0
    if i < pos + n:
        return "piv"
    pos += n
    if orig.kid_context is not None:
        if i == pos:
            return "s"
        pos += 1
        if i < pos + len(orig.kid_context):
            return "kidctx"
    return "kid"


def escape_mechanism(ref, exc, optv):
    f = optv[0] if optv else 0
    name = type(exc).__name__
    if name == "IndexError" and f & 0x10:
        n = f & 7
        if len(optv) <= 1 + n:
            return "uncompress-h-flag-without-kidctx-length"
    if name == "AttributeError" and f & 0x20 and "alg_signature" in str(exc):
        return "group-flag-on-non-group-context"
    if name == "AssertionError" and (f & 7) > 5 and "XOR" in str(exc):
        return "piv-length-6-or-7"
    tb = exc.__traceback__
    fn = "unknown"
    while tb is not None:
        co = tb.tb_frame.f_code
        if "aiocoap" in co.co_filename:
            fn = co.co_name
        tb = tb.tb_next
    return "in-" + fn


# ------------------------------------------------------------------------------ manipulations


def flips_for(r, data, exhaustive_limit, head, tail, extra):
    n = len(data)
    if n <= exhaustive_limit:
        return range(n * 8)
    bits = set(range(min(head, n) * 8)) | set(range(max(0, n - tail) * 8, n * 8))
    for _ in range(extra):
        bits.add(r.randrange(n * 8))
    return sorted(bits)


def flip(data, bit):
    i, b = divmod(bit, 8)
    return data[:i] + bytes([data[i] ^ (0x80 >> b)]) + data[i + 1 :]


def option_edits(r, ref, o, recv_recipient_id, recv_sender_id, recv_id_context, request_piv, maxid):
    """Field-level edits of a genuine option `o` (ref.Opt). Yields (name, new option value)."""
    B = ref.build_option
    piv, kc, kid = o.piv, o.kid_context, o.kid
    if piv is not None:
        v = int.from_bytes(piv, "big")
        m = 1 << (8 * len(piv))
        yield "piv-inc", B(((v + 1) % m).to_bytes(len(piv), "big"), kc, kid)
        yield "piv-dec", B(((v - 1) % m).to_bytes(len(piv), "big"), kc, kid)
        yield "piv-msb", B(bytes([piv[0] ^ 0x80]) + piv[1:], kc, kid)
        rp = rbytes(r, len(piv))
        if rp != piv:
            yield "piv-random", B(rp, kc, kid)
        if len(piv) < 5:
            yield "piv-leading-zero", B(b"\0" + piv, kc, kid)
            yield "piv-trailing-zero", B(piv + b"\0", kc, kid)
        yield "piv-len-6", B(piv.rjust(6, b"\0"), kc, kid)
        yield "piv-len-7", B(piv.rjust(7, b"\0"), kc, kid)
        if len(piv) > 1:
            yield "piv-drop-first", B(piv[1:], kc, kid)
            yield "piv-drop-last", B(piv[:-1], kc, kid)
        yield "piv-removed", B(None, kc, kid)
        yield "piv-n-plus-1-no-bytes", B(piv, kc, kid, n=len(piv) + 1)
        yield "piv-n-minus-1-no-bytes", B(piv, kc, kid, n=len(piv) - 1)
    else:
        yield "piv-added-zero", B(b"\0", kc, kid)
        if request_piv is not None:
            yield "piv-added-request-piv", B(request_piv, kc, kid)
        yield "piv-added-random", B(rbytes(r, r.randrange(1, 6)), kc, kid)
        yield "piv-n-6-added", B(rbytes(r, 6), kc, kid)
    if kid is not None:
        if kid:
            yield "kid-bitflip", B(piv, kc, flip(kid, r.randrange(len(kid) * 8)))
            yield "kid-truncated", B(piv, kc, kid[:-1])
            yield "kid-empty", B(piv, kc, b"")
            yield "kid-flag-cleared-bytes-left", (B(piv, kc, None) or b"\0") + kid
        yield "kid-appended", B(piv, kc, kid + b"\0")
        yield "kid-zero-prepended", B(piv, kc, b"\0" + kid)
        if recv_sender_id != kid:
            yield "kid-replaced-by-receivers-sender-id", B(piv, kc, recv_sender_id)
        yield "kid-removed", B(piv, kc, None)
    else:
        yield "kid-added-expected", B(piv, kc, recv_recipient_id)
        yield "kid-added-receivers-sender-id", B(piv, kc, recv_sender_id)
        rk = rbytes(r, r.randrange(1, maxid + 2))
        if rk != recv_recipient_id:
            yield "kid-added-random", B(piv, kc, rk)
        if recv_recipient_id != b"":
            yield "kid-added-empty", B(piv, kc, b"")
        yield "trailing-garbage", B(piv, kc, None) + (b"\xaa" if (piv or kc is not None) else b"")
    if kc is not None:
        if kc:
            yield "kidctx-bitflip", B(piv, flip(kc, r.randrange(len(kc) * 8)), kid)
            yield "kidctx-truncated", B(piv, kc[:-1], kid)
            yield "kidctx-empty", B(piv, b"", kid)
        if len(kc) < 255:
            yield "kidctx-appended", B(piv, kc + b"\0", kid)
        yield "kidctx-removed", B(piv, None, kid)
        full = B(piv, kc, kid)
        spos = 1 + (len(piv) if piv else 0)
        if len(kc) < 255:
            yield "kidctx-s-plus-1", full[:spos] + bytes([full[spos] + 1]) + full[spos + 1 :]
        if kc:
            yield "kidctx-s-minus-1", full[:spos] + bytes([full[spos] - 1]) + full[spos + 1 :]
        yield "kidctx-s-255", full[:spos] + b"\xff" + full[spos + 1 :]
        yield "kidctx-cut-after-s", full[: spos + 1]
        yield "kidctx-cut-before-s", full[:spos]
    else:
        if recv_id_context is not None:
            yield "kidctx-added-own", B(piv, recv_id_context, kid)
        oc = rbytes(r, 4)
        if oc != recv_id_context:
            yield "kidctx-added-other", B(piv, oc, kid)
        if recv_id_context != b"":
            yield "kidctx-added-empty", B(piv, b"", kid)
        yield "h-flag-only", B(piv, None, kid, flag_or=0x10)
        yield "h-flag-only-kid-dropped", B(piv, None, None, flag_or=0x10 | (0x08 if kid is not None else 0))
    for bit in (5, 6, 7):
        yield "reserved-bit-%d" % bit, B(piv, kc, kid, flag_or=1 << bit)
    full = B(piv, kc, kid)
    if full:
        yield "flag-zeroed-content-kept", b"\0" + full[1:]
        yield "option-emptied", b""
    else:
        yield "option-single-zero-byte", b"\0"
        for f in (0x08, 0x10, 0x18, 0x20, 0x40, 0x80, 0x01, 0x05, 0x06, 0x07, 0x1F, 0xFF):
            yield "option-lone-flag-%02x" % f, bytes([f])


def ciphertext_edits(r, ct, tag, other_ct):
    yield "ct-empty", b""
    yield "ct-one-byte", ct[:1]
    yield "ct-first-tag-bytes", ct[:tag]
    yield "ct-tag-only", ct[-tag:]
    yield "ct-tag-plus-one", ct[-(tag + 1) :] if len(ct) > tag + 1 else ct + b"\0"
    yield "ct-zeroed", b"\0" * len(ct)
    yield "ct-appended", ct + b"\0"
    yield "ct-prepended", b"\0" + ct
    yield "ct-reversed", ct[::-1] if ct[::-1] != ct else ct + b"\1"
    yield "ct-body-dropped-first-byte", ct[1:]
    if other_ct is not None and other_ct != ct:
        yield "ct-spliced-from-other-message", other_ct
    n = len(ct)
    cuts = range(n) if n <= 48 else sorted({0, 1, 2, tag - 1, tag, tag + 1, n - tag - 1, n - tag, n - tag + 1, n - 2, n - 1} | {r.randrange(n) for _ in range(12)})
    for k in cuts:
        if 0 <= k < n:
            yield "ct-truncated", ct[:k]


# ------------------------------------------------------------------------------ engine


class Engine:
    def __init__(self, rep):
        import copy
        import aiocoap
        import aiocoap.oscore as o
        from aiocoap.message import Message, Direction
        from aiocoap.numbers.codes import Code
        from aiocoap.numbers.optionnumbers import OptionNumber
        from aiocoap.numbers.types import Type
        from harness import refcodec, oscore_c11ref

        self.rep, self.o, self.rc, self.ref, self.copy = rep, o, refcodec, oscore_c11ref, copy
        self.Message, self.Direction, self.Code, self.OptionNumber, self.Type = Message, Direction, Code, OptionNumber, Type

        class MemCtx(o.CanProtect, o.CanUnprotect, o.SecurityContextUtils):
            """Plain in-memory context, like tests/test_oscore.py's NonsavingSecurityContext."""

            echo_recovery = None

            def post_seqnoincrease(self):
                pass

        self.MemCtx = MemCtx
        self.algs = []

    # -- contexts ---------------------------------------------------------------------------
    def probe_algorithms(self):
        o, rep = self.o, self.rep
        for name, alg in o.algorithms.items():
            if not isinstance(alg, o.AeadAlgorithm):
                rep.seen("algorithms_not_aead", name)
                continue
            if name not in self.ref.ALGS:
                rep.seen("algorithms_without_reference", name)
                continue
            try:
                ct = alg.encrypt(b"probe", b"aad", b"\x01" * alg.key_bytes, b"\x02" * alg.iv_bytes)
                assert alg.decrypt(ct, b"aad", b"\x01" * alg.key_bytes, b"\x02" * alg.iv_bytes) == b"probe"
            except Exception as e:
                rep.seen("algorithms_unsupported_by_cryptography", "%s: %s" % (name, type(e).__name__))
                continue
            v, k, t, n = self.ref.ALGS[name]
            if (alg.value, alg.key_bytes, alg.tag_bytes, alg.iv_bytes) != (v, k, t, n):
                rep.violation("ref/algorithm-parameters-differ", "algorithm table entry differs from the COSE registry", {"alg": name, "aiocoap": [alg.value, alg.key_bytes, alg.tag_bytes, alg.iv_bytes], "cose": [v, k, t, n]}, ["probe"])
                continue
            rep.seen("algorithms_exercised", name)
            self.algs.append(name)
        self.algs.sort()

    def ctx(self, p, sender_id, recipient_id, seq=0):
        o = self.o
        c = self.MemCtx()
        c.alg_aead = o.algorithms[p.alg]
        c.hashfun = o.hashfunctions[p.hashname]
        c.sender_id = sender_id
        c.recipient_id = recipient_id
        c.id_context = p.id_context
        c.derive_keys(p.salt, p.secret)
        c.sender_sequence_number = seq
        c.recipient_replay_window = o.ReplayWindow(32, lambda: None)
        c.recipient_replay_window.initialize_empty()
        return c

    # -- messages ---------------------------------------------------------------------------
    def build(self, spec):
        m = self.Message(code=self.Code(spec["code"]), payload=spec["payload"])
        for n, v, _k in spec["opts"]:
            m.opt.add_option(self.OptionNumber(n).create_option(value=v))
        for n, v in spec["outer"]:
            m.opt.add_option(self.OptionNumber(n).create_option(value=v))
        if spec["observe"] is not None:
            m.opt.observe = spec["observe"]
        m.direction = self.Direction.OUTGOING
        return m

    @staticmethod
    def expected_inner(spec):
        opts = [(n, raw_of(k, v)) for n, v, k in spec["opts"]]
        if spec["observe"] is not None:
            opts.append((6, uint_raw(spec["observe"])))
        opts.sort(key=lambda x: x[0])
        return (spec["code"], opts, spec["payload"])

    @staticmethod
    def fields(m):
        return (int(m.code), [(int(x.number), bytes(x.encode())) for x in m.opt.option_list()], bytes(m.payload))

    def to_wire(self, outer, mtype, mid, token):
        outer.mtype = self.Type(mtype)
        outer.mid = mid
        outer.token = token
        return outer.encode()

    # -- one unprotect attempt ----------------------------------------------------------------
    def attempt(self, ctx, base, optv, ct, request_id):
        """base: refcodec.Msg of the genuine outer message. -> (outcome, detail)"""
        rc = self.rc
        options = tuple((n, v) for n, v in base.options if n != 9)
        if optv is not None:
            options += ((9, optv),)
        wire = rc.encode(rc.Msg(base.type, base.code, base.mid, base.token, options, ct))
        try:
            m = self.Message.decode(wire)
        except Exception as e:  # the harness built something the codec refuses: not an OSCORE verdict
            self.rep.count("harness_wire_not_decodable/" + type(e).__name__)
            return "skipped", None
        ctx.recipient_replay_window.initialize_empty()
        rid = self.copy.copy(request_id) if request_id is not None else None
        try:
            inner, _ = ctx.unprotect(m, rid)
        except self.o.ReplayError as e:
            self.rep.inconc("a manipulated message was rejected as a replay although the window was re-initialised: %r" % (e,))
            return "rejected", e
        except self.o.ProtectionInvalid as e:
            return "rejected", e
        except self.o.NotAProtectedMessage as e:
            return "not-protected", e
        except Exception as e:
            return "escape", e
        return "accepted", self.fields(inner)

    def describe(self, sc, label):
        p = sc["params"]
        return {
            "alg": p.alg, "hash": p.hashname, "master_secret": p.secret.hex(), "master_salt": None if p.salt is None else p.salt.hex(),
            "id_context": None if p.id_context is None else p.id_context.hex(), "client_sender_id": sc["cid"].hex(), "server_sender_id": sc["sid"].hex(),
            "message": label,
        }

    # -- protect + genuine path (monitors a, b, c and the reference decryption) -----------------
    def protect_and_check(self, sc, label, sender, spec, protect_rid, receiver, receiver_rid, case, kid_context=True, mtype=0):
        rep, rc, ref = self.rep, self.rc, self.ref
        is_request = protect_rid is None
        where = self.describe(sc, label)
        try:
            msg = self.build(spec)
        except Exception as e:
            rep.count("harness_build_failed/" + type(e).__name__)
            return None
        try:
            if is_request:
                outer, rid_out = sender.protect(msg, kid_context=kid_context)
            else:
                outer, rid_out = sender.protect(msg, protect_rid)
            wire = self.to_wire(outer, mtype, sc["mid"], sc["token"])
        except Exception as e:
            rep.violation("roundtrip/protect-raises/" + type(e).__name__, "protect()/encode() raised %s for an ordinary %s" % (type(e).__name__, label), dict(where, spec=repr(spec)[:600], tb=rep.exception_witness(e)), case)
            return None
        base = rc.parse(wire)
        expected = self.expected_inner(spec)
        optset = tuple(sorted({n for n, _v in expected[1]}))
        # ---- (c) hiding, judged on the wire bytes by the independent codec
        rep.monitor("hide")
        ok_codes = OUTER_REQ_CODES if is_request else OUTER_RESP_CODES
        if base.code not in ok_codes:
            rep.violation("hide/outer-code-not-fixed", "outer code %s is not one of the fixed outer codes" % rc.code_str(base.code), dict(where, wire=wire[:200].hex()), case)
        n9 = 0
        for n, v in base.options:
            if n == 9:
                n9 += 1
            if n not in ALLOWED_OUTER:
                rep.violation("hide/outer-option-%d" % n, "outer message carries option %d, which is none of OSCORE / host / proxy routing / Observe" % n, dict(where, wire=wire[:200].hex(), value=v[:40].hex()), case)
        if n9 != 1:
            rep.violation("hide/oscore-option-count", "outer message carries %d OSCORE options" % n9, dict(where, wire=wire[:200].hex()), case)
            return None
        for mk in spec["markers"]:
            if mk in wire:
                rep.violation("hide/marker-visible-in-outer-message", "a marker planted in an inner (Class E) field is readable in the outer wire bytes", dict(where, marker=mk.decode("latin1"), wire=wire[:300].hex()), case)
        for n, _v in spec["outer"]:
            if n not in [x for x, _ in base.options]:
                rep.count("class_u_option_not_carried_outer/%d" % n)
        optv = rc.opt1(base, 9)
        ct = base.payload
        # ---- reference: the RFC's construction must open what aiocoap sealed
        rep.monitor("ref_decrypt")
        try:
            o = ref.parse_option(optv)
        except ref.RefError as e:
            rep.violation("ref/option-undecodable", "protect() produced an OSCORE option RFC 8613 section 6.1 cannot decode: %s" % e, dict(where, option=optv.hex()), case)
            return None
        p = sc["params"]
        req_kid, req_piv = (sender.sender_id, o.piv) if is_request else (protect_rid.kid, protect_rid.partial_iv)
        if o.piv is not None:
            nonce_id, nonce_piv = sender.sender_id, o.piv
        else:
            nonce_id, nonce_piv = req_kid, req_piv
        pt = None
        try:
            if nonce_piv is not None:
                pt = ref.open_(p, sender.sender_id, nonce_id, nonce_piv, req_kid, req_piv, ct)
        except ref.RefError as e:
            rep.count("ref_inadmissible/" + str(e)[:40])
        if pt is None:
            rep.violation("ref/%s-not-openable-by-rfc8613-construction" % label, "the ciphertext does not verify under key/nonce/AAD built independently from RFC 8613 sections 3.2.1, 5.2, 5.4", dict(where, option=optv.hex(), ciphertext=ct[:80].hex(), request_kid=req_kid.hex(), request_piv=None if req_piv is None else req_piv.hex()), case)
        else:
            try:
                got_pt = ref.split_plaintext(pt)
                got_pt = (got_pt[0], list(got_pt[1]), got_pt[2])
            except Exception as e:
                got_pt = ("unparsable", repr(e))
            if got_pt != expected:
                rep.violation("ref/plaintext-differs", "the decrypted plaintext is not code + Class E options + payload of the original", dict(where, want=repr(expected)[:500], got=repr(got_pt)[:500]), case)
        if is_request:
            if o.kid != sender.sender_id:
                rep.violation("ref/request-kid-not-sender-id", "request carries kid %r" % (o.kid,), dict(where, option=optv.hex()), case)
            want_kc = p.id_context if kid_context is True else None
            if o.kid_context != want_kc:
                rep.violation("ref/request-kid-context-unexpected", "request carries kid context %r" % (o.kid_context,), dict(where, option=optv.hex()), case)
        # ---- (a)/(b) round trip through the wire
        mon = {"request": "rt_request", "response-reuse": "rt_response_reuse", "response-ownpiv": "rt_response_ownpiv"}[label]
        base_sig = (label, p.alg, len(sc["cid"]), len(sc["sid"]), sc["idctx_class"], piv_len_class(o), spec["code"], optset, size_class(len(spec["payload"])))
        try:
            incoming = self.Message.decode(wire)
        except Exception as e:
            rep.violation("roundtrip/outer-not-decodable/" + type(e).__name__, "Message.decode refuses the encoded outer message", dict(where, wire=wire[:300].hex()), case)
            return None
        receiver.recipient_replay_window.initialize_empty()
        rid_in = None
        try:
            inner, rid_in = receiver.unprotect(incoming, self.copy.copy(receiver_rid) if receiver_rid is not None else None)
            got = self.fields(inner)
        except Exception as e:
            got = None
            rep.violation("roundtrip/unprotect-raises/" + type(e).__name__, "unprotect() of a genuine %s under the matching context raised %s" % (label, type(e).__name__), dict(where, option=optv.hex(), ciphertext=ct[:80].hex(), tb=rep.exception_witness(e)), case)
        rep.monitor(mon)
        rep.case((base_sig, "genuine", "ok" if got == expected else "differs"), nontrivial=True)
        if got is not None and got != expected:
            diff = "code" if got[0] != expected[0] else ("payload" if got[2] != expected[2] else "options")
            key = "roundtrip/%s-%s-differ" % (label, diff)
            if diff == "options" and spec["observe"] == 1 and is_request and got[1] == [x for x in expected[1] if x[0] != 6]:
                key = "roundtrip/request-observe-1-dropped-by-unprotect"
            rep.violation(key, "unprotect(protect(m)) differs from m in %s" % diff, dict(where, want=repr(expected)[:600], got=repr(got)[:600]), case)
            got = None
        return {
            "label": label, "is_request": is_request, "wire": wire, "base": base, "opt": o, "optv": optv, "ct": ct, "receiver": receiver,
            "receiver_rid": receiver_rid, "genuine": got, "sig": base_sig, "rid_out": rid_out, "rid_in": rid_in, "where": where, "spec": spec,
            "request_piv": req_piv, "sender": sender,
        }

    # -- (e) tampering ---------------------------------------------------------------------------
    def settle(self, t, family, manip, field, optv, ct, case):
        """Run one manipulated message through unprotect and judge it."""
        rep, ref = self.rep, self.ref
        if optv == t["optv"] and ct == t["ct"]:
            return
        recv = t["receiver"]
        verdict, reason = judge(ref, recv.recipient_id, recv.id_context, t["is_request"], t["opt"], t["ct"], optv, ct)
        outcome, detail = self.attempt(recv, t["base"], optv, ct, t["receiver_rid"])
        if outcome == "skipped":
            return
        rep.monitor(family)
        rep.case((t["sig"], manip, field, verdict, outcome), nontrivial=True)
        rk = reason

        def wit(**kw):
            w = dict(t["where"], manipulation=manip, field=field, expectation=verdict + ": " + reason, genuine_option=t["optv"].hex(), genuine_ciphertext=t["ct"][:96].hex(), genuine_ciphertext_len=len(t["ct"]),
                     option=None if optv is None else optv.hex(), ciphertext=ct[:96].hex(), ciphertext_len=len(ct),
                     request_kid=None if t["receiver_rid"] is None else t["receiver_rid"].kid.hex(), request_piv=None if t["receiver_rid"] is None else t["receiver_rid"].partial_iv.hex())
            w.update(kw)
            return w

        if outcome == "escape":
            mech = escape_mechanism(ref, detail, optv)
            rep.violation("tamper/escape-%s/%s" % (type(detail).__name__, mech), "unprotect() let %s escape instead of a protection error for a manipulated %s" % (type(detail).__name__, t["label"]), wit(exc=repr(detail), tb=rep.exception_witness(detail)), case)
            return
        if outcome == "rejected":
            rep.count("rejected/" + type(detail).__name__)
            return
        if outcome == "not-protected":
            if optv is not None:
                rep.violation("tamper/not-a-protected-message-with-option-present", "NotAProtectedMessage although an OSCORE option is present", wit(), case)
            return
        same = detail == t["genuine"]
        if verdict == "must_fail":
            rep.violation("tamper/accepted-%s/%s" % ("original" if same else "DIFFERENT-MESSAGE", rk), "unprotect() yielded %s for a %s whose %s" % ("the original message" if same else "a different message", t["label"], reason), wit(got=repr(detail)[:400]), case)
        elif not same:
            rep.violation("tamper/neutral-manipulation-yields-different-message", "a semantically neutral re-encoding of the option made unprotect() return a different message", wit(got=repr(detail)[:400], want=repr(t["genuine"])[:400]), case)
        else:
            rep.count("neutral_accepted/" + manip)

    def tamper(self, t, r, case, other_ct):
        recv = t["receiver"]
        optv, ct = t["optv"], t["ct"]
        tag = recv.alg_aead.tag_bytes
        maxid = recv.alg_aead.iv_bytes - 6
        for bit in flips_for(r, optv, 40, 8, 9, 24):
            self.settle(t, "tamper_bitflip_option", "flip-option-bit", option_field_of_byte(t["opt"], optv, bit // 8) + (".bit%d" % (bit % 8) if bit < 8 else ""), flip(optv, bit), ct, case)
        for bit in flips_for(r, ct, 48, 8, 17, 64):
            self.settle(t, "tamper_bitflip_ciphertext", "flip-ciphertext-bit", "tag" if bit // 8 >= len(ct) - tag else "body", optv, flip(ct, bit), case)
        for name, ov in option_edits(r, self.ref, t["opt"], recv.recipient_id, recv.sender_id, recv.id_context, t["request_piv"] if not t["is_request"] else None, maxid):
            self.settle(t, "tamper_field", name, "option", ov, ct, case)
        for k in range(len(optv)):
            self.settle(t, "tamper_field", "option-truncated", option_field_of_byte(t["opt"], optv, k), optv[:k], ct, case)
        self.settle(t, "tamper_field", "option-removed", "option", None, ct, case)
        for name, c2 in ciphertext_edits(r, ct, tag, other_ct):
            self.settle(t, "tamper_field", name, "ciphertext", optv, c2, case)
        # both at once: another genuine option with this ciphertext is covered by the PIV edits; a flipped
        # bit in each must of course still fail
        if optv:
            self.settle(t, "tamper_field", "flip-both", "option+ciphertext", flip(optv, r.randrange(len(optv) * 8)), flip(ct, r.randrange(len(ct) * 8)), case)

    # -- verification under another context's keys -------------------------------------------------
    def foreign_variants(self, r, p, S, R, maxid):
        ref = self.ref
        yield "master-secret-bit", p._replace(secret=bytes([p.secret[0] ^ 1]) + p.secret[1:]), S, R
        yield "master-secret-extended", p._replace(secret=p.secret + b"\0"), S, R
        yield "master-salt-changed", p._replace(salt=(p.salt or b"") + b"x"), S, R
        if p.salt:
            yield "master-salt-absent", p._replace(salt=None), S, R
        if p.id_context is None:
            yield "id-context-empty-instead-of-none", p._replace(id_context=b""), S, R
            yield "id-context-added", p._replace(id_context=rbytes(r, 4)), S, R
        else:
            yield "id-context-none", p._replace(id_context=None), S, R
            if p.id_context:
                yield "id-context-bit", p._replace(id_context=flip(p.id_context, r.randrange(len(p.id_context) * 8))), S, R
                yield "id-context-truncated", p._replace(id_context=p.id_context[:-1]), S, R
            if len(p.id_context) < 255:
                yield "id-context-extended", p._replace(id_context=p.id_context + b"\0"), S, R
        if R:
            yield "recipient-id-bit", p, S, flip(R, r.randrange(len(R) * 8))
            yield "recipient-id-truncated", p, S, R[:-1]
        if len(R) < maxid:
            yield "recipient-id-extended", p, S, R + b"\0"
            yield "recipient-id-zero-prepended", p, S, b"\0" + R
        yield "roles-swapped", p, R, S
        nlen = ref.ALGS[p.alg][3]
        same = [a for a in self.algs if a != p.alg and ref.ALGS[a][3] == nlen]
        if same:
            yield "algorithm-other-same-nonce-length", p._replace(alg=r.choice(same)), S, R
        other = [a for a in self.algs if ref.ALGS[a][3] != nlen and max(len(S), len(R)) <= ref.ALGS[a][3] - 6]
        if other:
            yield "algorithm-other-nonce-length", p._replace(alg=r.choice(other)), S, R
        yield "hash-function-other", p._replace(hashname="sha384" if p.hashname == "sha256" else "sha256"), S, R

    def foreign(self, sc, t, r, case):
        rep = self.rep
        recv = t["receiver"]
        maxid = recv.alg_aead.iv_bytes - 6
        for name, p2, S, R in self.foreign_variants(r, sc["params"], recv.sender_id, recv.recipient_id, maxid):
            try:
                other = self.ctx(p2, S, R)
            except Exception as e:
                rep.count("harness_foreign_ctx_failed/%s/%s" % (name, type(e).__name__))
                continue
            outcome, detail = self.attempt(other, t["base"], t["optv"], t["ct"], t["receiver_rid"])
            if outcome == "skipped":
                continue
            rep.monitor("foreign_context")
            rep.case((t["sig"], "foreign", name, outcome), nontrivial=True)
            w = dict(t["where"], foreign_variant=name, option=t["optv"].hex(), ciphertext=t["ct"][:96].hex(),
                     foreign=dict(alg=p2.alg, hash=p2.hashname, master_secret=p2.secret.hex(), master_salt=None if p2.salt is None else p2.salt.hex(), id_context=None if p2.id_context is None else p2.id_context.hex(), sender_id=S.hex(), recipient_id=R.hex()))
            if outcome == "escape":
                rep.violation("foreign/escape-%s/%s" % (type(detail).__name__, escape_mechanism(self.ref, detail, t["optv"])), "unprotect() under another context's keys let %s escape" % type(detail).__name__, dict(w, tb=rep.exception_witness(detail)), case)
            elif outcome == "accepted":
                rep.violation("foreign/accepted/" + name, "a %s verified under a context with other keys (%s) and yielded a message" % (t["label"], name), dict(w, got=repr(detail)[:400]), case)
            elif outcome == "not-protected":
                rep.violation("foreign/not-a-protected-message", "NotAProtectedMessage although an OSCORE option is present", w, case)
            else:
                rep.count("rejected/" + type(detail).__name__)

    # -- (d) binding of responses to their request --------------------------------------------------
    def binding(self, sc, r, case):
        rep, rc = self.rep, self.rc
        p, sid, cid_a = sc["params"], sc["sid"], sc["cid"]
        maxid = self.ref.ALGS[p.alg][3] - 6
        for _ in range(50):
            k = r.random()
            if k < 0.25 and cid_a:  # IDs sharing a prefix / differing only in the last byte or in length
                cid_b = cid_a[:-1] + bytes([cid_a[-1] ^ (1 << r.randrange(8))])
            elif k < 0.4 and len(cid_a) < maxid:
                cid_b = cid_a + bytes([r.choice([0, 1, 255])])
            elif k < 0.5 and len(cid_a) < maxid:
                cid_b = b"\0" + cid_a
            elif k < 0.6 and cid_a:
                cid_b = cid_a[:-1]
            else:
                cid_b = rbytes(r, r.randrange(0, maxid + 1))
            if cid_b not in (cid_a, sid):
                break
        else:
            rep.count("harness_no_second_client_id")
            return
        s1 = sc["seq_c"]
        s2 = r.choice([s for s in SEQS if s != s1])
        pool = []
        for cid in (cid_a, cid_b):
            client = self.ctx(p, cid, sid)
            server = self.ctx(p, sid, cid, seq=r.choice(SEQS))
            for seq in (s1, s2):
                client.sender_sequence_number = seq
                spec = {"code": 1, "opts": [(11, marker(r, "B"), STRING)], "outer": [], "observe": None, "payload": b"", "markers": []}
                try:
                    outer, rid_c = client.protect(self.build(spec), kid_context=sc["send_kc"])
                    wire = self.to_wire(outer, 0, sc["mid"], sc["token"])
                    server.recipient_replay_window.initialize_empty()
                    _inner, rid_s = server.unprotect(self.Message.decode(wire))
                except Exception as e:
                    rep.count("binding_pool_setup_failed/" + type(e).__name__)
                    return
                pool.append({"client": client, "server": server, "rid_c": rid_c, "rid_s": rid_s, "kid": cid, "piv": rid_c.partial_iv})
        for e in pool:
            for mode in ("reuse", "ownpiv"):
                body = marker(r, "RESP").encode()
                spec = {"code": 69, "opts": [(12, 0, UINT)], "outer": [], "observe": None, "payload": body, "markers": []}
                try:
                    e["server"].sender_sequence_number = r.choice(SEQS)
                    outer, _ = e["server"].protect(self.build(spec), e["rid_s"])  # first call re-uses the request nonce, the second draws an own Partial IV
                    wire = self.to_wire(outer, 2, sc["mid"], sc["token"])
                    base = rc.parse(wire)
                    has_piv = self.ref.parse_option(rc.opt1(base, 9)).piv is not None
                except Exception as ex:
                    rep.count("binding_response_setup_failed/" + type(ex).__name__)
                    continue
                if has_piv != (mode == "ownpiv"):
                    rep.count("binding_nonce_mode_unexpected/" + mode)
                want = self.expected_inner(spec)
                for f in pool:
                    outcome, detail = self.attempt(f["client"], base, rc.opt1(base, 9), base.payload, f["rid_c"])
                    if outcome == "skipped":
                        continue
                    diff = "same-request" if f is e else "-and-".join(x for x, c in (("other-kid", f["kid"] != e["kid"]), ("other-piv", f["piv"] != e["piv"])) if c)
                    rep.case(("binding", p.alg, len(e["kid"]), len(f["kid"]), len(e["piv"]), len(f["piv"]), mode, diff, outcome), nontrivial=True)
                    w = dict(self.describe(sc, "response (%s nonce)" % mode), option=rc.opt1(base, 9).hex(), ciphertext=base.payload.hex(),
                             answered_request=dict(kid=e["kid"].hex(), piv=e["piv"].hex()), verified_with_request=dict(kid=f["kid"].hex(), piv=f["piv"].hex()))
                    if f is e:
                        rep.monitor("binding_control")
                        if outcome != "accepted" or detail != want:
                            rep.violation("binding/own-request-rejected/" + mode, "a response does not verify with the identifiers of the request it answers", dict(w, outcome=outcome, detail=repr(detail)[:300]), case)
                        continue
                    rep.monitor("binding")
                    if outcome == "accepted":
                        rep.violation("binding/accepted-with-foreign-request/%s-nonce/%s" % (mode, diff), "a response protected for one request verified with the identifiers of another request (%s)" % diff, dict(w, got=repr(detail)[:300]), case)
                    elif outcome != "rejected":
                        rep.violation("binding/escape-%s/%s" % (type(detail).__name__, escape_mechanism(self.ref, detail, rc.opt1(base, 9))), "cross-paired verification raised %s" % type(detail).__name__, dict(w, tb=rep.exception_witness(detail) if isinstance(detail, BaseException) else None), case)

    # -- one scenario ---------------------------------------------------------------------------------
    def scenario(self, seed, gi, case):
        rep, ref = self.rep, self.ref
        r = random.Random("c11/%d/%d" % (seed, gi))
        alg = self.algs[gi % len(self.algs)]
        maxid = ref.ALGS[alg][3] - 6
        cid, sid = gen_ids(r, maxid, gi)
        idctx = gen_idctx(r, gi)
        hashname = "sha256" if r.random() < 0.85 else r.choice(["sha384", "sha512"])
        secret = rbytes(r, r.choice([16, 16, 16, 1, 32, 64]))
        salt = r.choice([None, b"", rbytes(r, 8), rbytes(r, 8), rbytes(r, 32)])
        p = ref.Params(alg, hashname, secret, salt, idctx)
        seq_c = SEQS[(gi // 12) % len(SEQS)] if r.random() < 0.7 else r.choice(SEQS + [r.randrange(2**40 - 1)])
        seq_s = SEQS[(gi // 5) % len(SEQS)] if r.random() < 0.7 else r.choice(SEQS)
        sc = {
            "params": p, "cid": cid, "sid": sid, "seq_c": seq_c, "mid": r.randrange(65536), "token": rbytes(r, r.randrange(0, 9)),
            "idctx_class": "none" if idctx is None else len(idctx), "send_kc": True if (idctx is None or r.random() < 0.7) else False,
        }
        rep.seen("alg_x_idlens", "%s/%d/%d" % (alg, len(cid), len(sid)))
        rep.seen("alg_x_seq_x_idctx", "%s/%d/%s" % (alg, seq_c if seq_c in SEQS else -1, sc["idctx_class"]))
        client = self.ctx(p, cid, sid, seq_c)
        server = self.ctx(p, sid, cid, seq_s)
        req_spec = gen_message(r, True, gi)
        t1 = self.protect_and_check(sc, "request", client, req_spec, None, server, None, case, kid_context=sc["send_kc"], mtype=r.choice([0, 1]))
        if gi < 3 * 16:
            rep.sample({"alg": alg, "client_id": cid.hex(), "server_id": sid.hex(), "id_context": None if idctx is None else idctx[:16].hex(), "seq": seq_c,
                        "request": repr({k: req_spec[k] for k in ("code", "opts", "outer", "observe")})[:300], "payload_len": len(req_spec["payload"]), "wire": None if t1 is None else t1["wire"][:80].hex()})
        if t1 is None or t1["genuine"] is None or t1["rid_in"] is None:
            return
        targets = [t1]
        rid_s = t1["rid_in"]
        if rid_s.can_reuse_nonce is not True:
            rep.count("request_id_not_reusable")
        for label in ("response-reuse", "response-ownpiv"):
            spec = gen_message(r, False, gi + len(targets))
            t = self.protect_and_check(sc, label, server, spec, rid_s, client, t1["rid_out"], case, mtype=r.choice([2, 0, 1]))
            if t is None:
                continue
            if (t["opt"].piv is not None) != (label == "response-ownpiv"):
                rep.count("nonce_mode_unexpected/" + label)
            if t["genuine"] is not None:
                targets.append(t)
        # a second request of the same client, for splicing ciphertexts between messages
        try:
            o2, _ = client.protect(self.build(gen_message(r, True, gi + 7)), kid_context=sc["send_kc"])
            other_req_ct = bytes(o2.payload)
        except Exception:
            other_req_ct = None
        for t in targets:
            if t["is_request"]:
                other = other_req_ct
            else:
                other = next((x["ct"] for x in targets[1:] if x is not t), None)
            self.tamper(t, r, case, other)
            self.foreign(sc, t, r, case)
        self.binding(sc, r, case)

    # -- fixed, deterministic witnesses on the RFC 8613 Appendix C messages ------------------------------
    def fixed(self, case):
        rep, rc, ref = self.rep, self.rc, self.ref
        h = bytes.fromhex
        secret = h("0102030405060708090a0b0c0d0e0f10")
        sets = [
            # (name, params, client id, server id, genuine request datagram from the RFC, manipulations)
            ("rfc8613-C.4", ref.Params("AES-CCM-16-64-128", "sha256", secret, h("9e7ca92223786340"), None), b"", b"\x01",
             h("44025d1f00003974396c6f63616c686f7374620914ff612f1092f1776f1c1668b3825e"),
             [("h-flag-bit-set", h("1914")), ("group-flag-bit-set", h("2914")), ("piv-len-6", h("0e000000000014")), ("piv-len-7", h("0f00000000000014")),
              ("k-flag-cleared-on-empty-kid", h("0114")), ("h-flag-only-no-piv", h("10"))]),
            ("rfc8613-C.5", ref.Params("AES-CCM-16-64-128", "sha256", secret, None, None), b"\x00", b"\x01",
             h("440271c30000b932396c6f63616c686f737463091400ff4ed339a5a379b0b8bc731fffb0"),
             [("kid-removed", h("0114")), ("kid-flag-cleared-bytes-left", h("011400")), ("h-flag-bit-set", h("191400"))]),
        ]
        for name, p, cid, sid, wire, manips in sets:
            sc = {"params": p, "cid": cid, "sid": sid, "seq_c": 20, "mid": 1, "token": b"", "idctx_class": "none", "send_kc": True}
            server = self.ctx(p, sid, cid)
            base = rc.parse(wire)
            optv, ct = rc.opt1(base, 9), base.payload
            outcome, genuine = self.attempt(server, base, optv, ct, None)
            rep.monitor("fixed_witnesses")
            if outcome != "accepted" or genuine != (1, [(11, b"tv1")], b""):
                rep.inconc("the genuine %s request does not unprotect to GET /tv1 (%s %r): fixed witnesses not evaluated" % (name, outcome, genuine))
                continue
            t = {"label": "request", "is_request": True, "wire": wire, "base": base, "opt": ref.parse_option(optv), "optv": optv, "ct": ct, "receiver": server, "receiver_rid": None,
                 "genuine": genuine, "sig": ("fixed", name), "where": self.describe(sc, "request (%s, genuine datagram %s)" % (name, wire.hex())), "request_piv": None}
            for mname, ov in manips:
                self.settle(t, "fixed_witnesses", mname, "option", ov, ct, case)
        # Observe=1 (deregistration) request through protect/unprotect
        p = sets[0][1]
        sc = {"params": p, "cid": b"", "sid": b"\x01", "seq_c": 20, "mid": 1, "token": b"", "idctx_class": "none", "send_kc": True}
        for obs, code in ((0, 1), (1, 1), (0, 5), (1, 5)):
            client, server = self.ctx(p, b"", b"\x01", 20), self.ctx(p, b"\x01", b"")
            spec = {"code": code, "opts": [(11, "tv1", STRING)], "outer": [], "observe": obs, "payload": b"", "markers": []}
            self.protect_and_check(sc, "request", client, spec, None, server, None, case)
            rep.monitor("fixed_witnesses")


def run_shard(shard, rep, only=None):
    import logging
    from harness import oscore_env

    ok, info = oscore_env.vectors_ok()
    if not ok:
        rep.inconc("RFC 8613 Appendix C vectors of tests/test_oscore.py do not pass through the CBOR stand-in: " + info)
        return
    from harness import refcodec, oscore_c11ref

    assert refcodec.selftest()
    try:
        oscore_c11ref.selftest()
    except Exception as e:
        rep.inconc("reference self-test on RFC 8613 Appendix C vectors failed: %r" % (e,))
        return
    logging.getLogger("aiocoap").setLevel(logging.CRITICAL)
    eng = Engine(rep)
    eng.probe_algorithms()
    if not eng.algs:
        rep.inconc("no AEAD algorithm of oscore.algorithms is usable with this `cryptography`")
        return
    if shard["index"] == 0:
        case = ["fixed"]
        if only is None or only == case:
            eng.fixed(case)
    for i in range(shard["n"]):
        gi = shard["index"] + shard["of"] * i
        case = ["scn", gi]
        if only is not None and only != case:
            continue
        eng.scenario(shard["seed"] - shard["index"], gi, case)
