"""C11 — OSCORE: round trip, inner data hidden, responses bound to their request, tampering detected.

Runs under /usr/bin/python3 (has `cryptography`) with the cbor2/filelock (and, for Group OSCORE's
pairwise mode, ge25519/fe25519) stand-ins.
Oracles: harness.refcodec (independent RFC 7252 codec, decodes the outer wire bytes) and
harness.oscore_c11ref (independent reading of RFC 8613 sections 3.2.1, 5.2-5.4, 6.1 and of
draft-ietf-core-oscore-groupcomm: keys, Common IV, pairwise keys, external_aad, countersignature).

Two families of matching contexts: plain two-party contexts (scenario / ["scn", i]) and the members of an
OSCORE group (g_scenario / ["grp", i]: SimpleGroupContext, its group mode and pairwise mode aspects and the
deterministic-request aspects).

Every scenario additionally protects a forward-proxy request in URI form (Proxy-Uri; gen_proxy_uri) and runs a
sequence of deliveries against receivers that keep their replay state (redelivery / g_redelivery)."""

import random

ID = "C11"
LEVEL = "exploration"
INTERPRETER = "system"
SHIMS = True
TECHNIQUE = (
    "runtime monitoring of the real CanProtect.protect / CanUnprotect.unprotect on in-memory context pairs: generated "
    "requests and responses are protected, serialised with Message.encode, re-decoded and unprotected; the wire bytes are "
    "decoded by an independent RFC 7252 codec (hiding) and decrypted by an independent RFC 8613 re-implementation "
    "(AAD, nonce, key derivation); every single-bit flip and a catalogue of field-level edits of OSCORE option and "
    "ciphertext, foreign-key contexts and all response/request cross pairings are pushed through unprotect and judged "
    "by an independent parser of the compressed option. The same for the members of OSCORE groups (SimpleGroupContext of 3-4 "
    "members, countersignatures EdDSA/Ed25519 and ES256/P-256, AEAD and Group Encryption Algorithm chosen independently incl. "
    "A128CBC): group mode and pairwise mode requests and responses in all four combinations plus deterministic requests, "
    "received through the library's own context selection (verify_start + get_oscore_context_for, context_from_response, "
    "context_for_response) and additionally by the aspect that took the genuine message; an independent Group OSCORE "
    "re-implementation verifies countersignature, keystream, AAD, nonce and (pairwise) key derivation of every genuine message. "
    "Requests that name their target by a Proxy-Uri option (composed from scheme, host, port, path segments and query items, so that the "
    "decomposition RFC 8613 section 4.1.3.3 demands is known by construction) or by Proxy-Scheme with Uri-Host / Uri-Port go through the same "
    "round-trip, hiding and reference-decryption monitors, one extra such request per scenario and some as the scenario's main request. "
    "The option parser of the reference accepts nothing but the encoding RFC 8613 sections 5 and 6.1 prescribe (no zero flag byte in a non-empty value, "
    "no leading zero bytes in the Partial IV, no bytes after the last announced field); re-encodings of every genuine option that break one of these "
    "rules are part of the field-level edits. Deliveries to receivers that keep their state (no re-initialised replay window): every request and "
    "response a second time, a request older than the window, fresh requests whose Partial IV is overwritten with a used one, a receiver without "
    "replay window, on three kinds of two-party context (the bases only, like edhoc._EdhocContextBase and the test suite's; declaring echo_recovery = None, "
    "like the deterministic aspect; holding an Echo value, like FilesystemSecurityContext) and on group, pairwise and deterministic aspects through both ways of context selection"
)
LEVEL_TEXT = (
    "Held (apart from the mechanism-keyed findings) on every generated case: every AEAD algorithm of oscore.algorithms (12; A128CBC is "
    "not an AEAD and is refused by protect()), all admissible sender/recipient ID length pairs, ID contexts of 0/1/8/255 bytes or none, "
    "Partial IVs of 1..5 bytes; 1.6e3 (quick) / 4.8e4 (thorough) context-pair scenarios with 1.9e6 / 5.7e7 unprotect attempts on "
    "genuine, manipulated, cross-paired and foreign-key messages. Group OSCORE: 1.9e2 (quick) / 5.8e3 (thorough) groups of 3-4 members, "
    "one exchange each (group->group, group->pairwise, pairwise->pairwise, pairwise->group, deterministic->group; both countersignature "
    "algorithms; 12 AEAD algorithms x 13 group encryption algorithms incl. A128CBC at random; sender IDs of 0..7 bytes, group IDs of 0..8 bytes; "
    "boundary sequence numbers), 2.5e5 / 7.5e6 unprotect attempts on genuine, third-member, manipulated (every bit of the OSCORE option, "
    "selected bits of ciphertext, tag and countersignature, field edits incl. the group flag and other members' IDs), cross-paired and "
    "foreign (other master secret / group / credential / key pair / algorithms / non-group context with the same IDs) messages. "
    "Forward-proxy requests: 1.7e3 / 5.1e4 (two-party) and 2.0e2 / 6.1e3 (group members) requests with a Proxy-Uri of 6 CoAP schemes (and http/https, which "
    "protect() refuses by a ValueError of its own), registered names, IPv4 and IPv6 literals, with and without port, 0-4 path segments, 0-2 query items, "
    "percent-encoded delimiters and non-ASCII in them. Non-canonical re-encodings of the OSCORE option: 3.4e4 / 1.0e6 attempts. Stateful deliveries: 1.3e4 / 4.0e5 "
    "(two-party, three kinds of context) and 2.0e3 / 6.1e4 (group members) second / late / Partial-IV-overwritten deliveries, judged only for the class of the "
    "outcome (the original message or a protection error; a changed Partial IV: a protection error) - whether a replay is refused is C12's question. "
    "Says nothing about EDHOC key establishment (the context class it produces is modelled, lakers is not installed), Appendix B.2, whether scheme / host / port of a "
    "proxy request survive in the outer message (counted in proxy_uri_outer_routing/*, class_u_option_not_carried_outer/*: the statement only limits what the outer "
    "message may carry), group rekeying, replay window arithmetic (C12) or messages outside the generators' classes."
)
LEVEL_NOTE = (
    "Trusted: harness/refcodec.py, harness/oscore_c11ref.py (self-tested on RFC 8613 Appendix C vectors each run), the "
    "cbor2 stand-in (checked by the repository's own Appendix C tests each run), the `cryptography` AEAD, signature, ECDH and "
    "AES-CBC primitives. Group part: no published vectors exist for draft-ietf-core-oscore-groupcomm, so the reference's g_* "
    "functions are validated by their own seal/open sensitivity self-test and by agreeing with aiocoap on every genuine "
    "AEAD-/signature-verified message (an independent construction cannot agree by accident; a disagreement is reported under "
    "group/ref/...). The ge25519/fe25519 stand-ins (Ed25519 -> X25519 public key conversion of the pairwise mode) are checked "
    "each run against OpenSSL's X25519 public key of the converted private key; cryptography 38 lacks `==` on EC public keys, "
    "which SimpleGroupContext.__init__ needs for ES256 groups: harness/oscore_env.group_env() adds the upstream semantics "
    "(equal public numbers) to the backend class and records it in the evidence (group_environment). "
    "Proxy-Uri requests: the harness composes the URI (RFC 7252 section 6.5, everything but 'unreserved' percent-encoded) and so knows the "
    "decomposition without a URI parser of its own. Stateful deliveries: the in-memory contexts are the library's three base classes with the same "
    "attributes the library's own context classes set; the replay window is the library's ReplayWindow, whose verdicts are not judged here (C12)."
)
RULE = (
    "a case is one unprotect() attempt (genuine, manipulated, cross-paired or under a foreign context) or one hiding / "
    "reference-decryption evaluation of a protected message; all are non-trivial (each carries a ciphertext). distinct = "
    "distinct (algorithm, sender/recipient ID lengths, ID-context class, Partial-IV length, message kind, code, inner option "
    "number set, payload size class, manipulation kind / touched field, outcome class) signatures; for group members additionally "
    "(mode, countersignature algorithm, group encryption algorithm, group ID length, way of context selection); for stateful deliveries "
    "(algorithm(s), kind of context / mode, ID lengths, Partial-IV length, step of the delivery sequence, demanded and observed outcome class)"
)
ASSUMPTIONS = [
    "harness/oscore_c11ref.py is a correct reading of RFC 8613 sections 3.2.1, 5.2, 5.3, 5.4 and 6.1 (Appendix C vectors C.1.1, C.3.1, C.4, C.7, C.8 pass each run)",
    "the outer option numbers the statement permits are OSCORE(9), Uri-Host(3), Uri-Port(7), Proxy-Uri(35), Proxy-Scheme(39), Observe(6); anything else in an outer message produced by protect() is flagged (RFC 8613 would also allow outer Max-Age/Block/Size/No-Response/Hop-Limit, but only when an intermediary or outer block-wise adds them, which protect() never does)",
    "a manipulated OSCORE option that is a canonical RFC 8613 section 6.1 encoding and whose reading gives the same Partial IV, an (explicit or implied) kid equal to the receiver's Recipient ID and an (explicit or implied) kid context equal to the receiver's ID Context is semantically neutral: it may be rejected or yield the original message; a request without kid is NOT neutral (RFC 8613 section 8.2 step 3 needs the kid to find the context)",
    "an option value that is not the encoding RFC 8613 prescribes for its fields must make unprotection fail although plain OSCORE does not authenticate the option value: section 6.1 'If the OSCORE flag bits are all zero (0x00), the option value SHALL be empty', section 5 'All leading bytes of value zero SHALL be removed when encoding the Partial IV', and with k = 0 section 6.1 knows no field that bytes after the Partial IV / kid context could belong to; the statement's 'any change to the partial IV ... in the OSCORE option' covers a Partial IV field of other bytes with the same numeric value (until the 2026-09 extension such re-encodings of a response's option were counted as neutral)",
    "a request's Partial IV is compared byte-exact (it is the request_piv of the AAD)",
    "a Proxy-Uri request's end-to-end options are its other Class E options plus the Uri-Path and Uri-Query options of the RFC 7252 section 6.4 decomposition of the Proxy-Uri (RFC 8613 section 4.1.3.3); scheme, host and port are Class U and may appear outside as Proxy-Uri, Proxy-Scheme, Uri-Host, Uri-Port; a Proxy-Uri with a scheme that has no CoAP option form (http, https) may be refused by protect() with its ValueError('Can not split Proxy-URI into options')",
    "a genuine message delivered again to a receiver that kept its replay window is either refused with a protection error (oscore.ProtectionInvalid, which ReplayError and ReplayErrorWithEcho are) or yields the original message - C11 does not decide which (C12 does) -, a fresh request whose Partial IV field was overwritten with a used value must fail with a protection error, and a genuine request with a fresh sequence number inside or ahead of the 32 wide window must still be unprotected after refused deliveries",
    "the three kinds of two-party context differ only in the class attribute / instance attribute echo_recovery, mirroring edhoc._EdhocContextBase and tests/test_oscore.py's NonsavingSecurityContext (none), _DeterministicUnprotectProtoAspect (None) and FilesystemSecurityContext (8 bytes); a receiver without initialised replay window is only built for the latter two (an EDHOC-derived context always initialises its window)",
    "sender ID != recipient ID within a context pair (RFC 8613 section 3.3 requires unique sender IDs)",
    "ReplayWindow is re-initialised empty before every unprotect attempt of the manipulation / pairing / foreign-context parts so that replay rejection never masks a verdict; only the stateful deliveries leave it alone",
    "members of one OSCORE group hold matching contexts: in group mode every member (also a third one) must obtain the original message, in pairwise mode only the addressed member; a third member's pairwise context is a foreign context",
    "unprotection at a group member is judged on two paths: the library's own context selection as used by oscore_sitewrapper / transports.oscore (verify_start + get_oscore_context_for for requests, the requesting context's context_from_response for responses; 'no context' counts as rejection) and unprotect() of the aspect that unprotected the genuine message (what transports.oscore keeps using for the notifications of an observation)",
    "harness/oscore_c11ref.py g_* is a correct reading of draft-ietf-core-oscore-groupcomm (key derivation with the Group Encryption Algorithm, Common IV of the longer nonce length used from the left, Signature Encryption Key, pairwise keys of section 2.5.1, external_aad with request_kid_context / OSCORE_option / sender_cred / gm_cred, CounterSignature0 of RFC 9338, keystream of section 4.2) and of the Request-Hash construction of draft-amsuess-core-cachable-oscore; the Pairwise Key Agreement Algorithm value in the AAD may be -27 (ECDH-SS + HKDF-256) or, for P-256 groups, the -7 aiocoap's ECDSA class carries (FIXME in the source)",
    "a changed Group Flag must make unprotection fail (it selects group / pairwise mode); other manipulations of a group member's OSCORE option are judged like RFC 8613 ones although Group OSCORE authenticates the whole option (neutral re-encodings may be rejected or yield the original)",
    "deterministic requests (experimental in aiocoap): only GET/FETCH are generated (others are refused by design), the outer Request-Hash option (548) is permitted in addition to the statement's list, the request it answers is identified by the Request-Hash, any change to the Request-Hash must make unprotection fail; the aspect's replay window accepts sequence number 0 only, so a ReplayError counts as rejection there",
    "sender IDs of group members are admissible for both the AEAD and the Group Encryption Algorithm (at most nonce length - 6 bytes of the shorter nonce)",
]
REQUIRED_MONITORS = {
    "rt_request": 100, "rt_response_reuse": 100, "rt_response_ownpiv": 100, "hide": 300, "ref_decrypt": 300,
    "binding": 500, "tamper_bitflip_option": 5000, "tamper_bitflip_ciphertext": 20000, "tamper_field": 5000,
    "foreign_context": 1000, "fixed_witnesses": 4,
    # members of OSCORE groups (quick reaches about 5e2 / 5e2 / 5e2 / 5e2 / 6e4 / 7e4 / 7e4 / 6e3 / 7e3 / 2.5e3; thorough 30 times that)
    "group_roundtrip": 300, "group_hide": 300, "group_ref_decrypt": 300, "group_third_member": 300,
    "group_tamper_bitflip_option": 20000, "group_tamper_bitflip_payload": 20000, "group_tamper_field": 20000,
    "group_foreign_context": 2000, "group_binding": 3000, "group_binding_control": 1000,
    "group_mode_group": 100, "group_mode_pairwise": 100, "group_mode_deterministic": 20, "group_sigalg_EdDSA": 100, "group_sigalg_ES256": 100,
    # forward-proxy requests in URI form (quick reaches about 1.7e3 / 2.0e2), non-canonical re-encodings of the option (1.0e4 / 2.4e4 / 6e3),
    # stateful deliveries (1.3e4 / 8e3 / 2.0e3 / 9e2); thorough 30 times that
    "proxy_uri_request": 800, "group_proxy_uri_request": 100,
    "tamper_noncanonical_request": 4000, "tamper_noncanonical_response": 10000, "group_tamper_noncanonical": 2500,
    "redelivery": 6000, "redelivery_control": 4000, "group_redelivery": 900, "group_redelivery_control": 400,
}
EXHAUSTIVE = {
    "single_bit_flip_option": "every bit of every OSCORE option value up to 40 bytes (requests, responses with own Partial IV); for longer ones (255-byte ID context) every bit of the first 8 bytes (flag, Partial IV, s) and last 9 bytes (kid) plus 24 random bits",
    "single_bit_flip_ciphertext": "every bit of every ciphertext up to 48 bytes; for longer ones every bit of the first 8 and last 17 bytes plus 64 random bits",
    "truncation": "every proper prefix of every option value and of every ciphertext up to 48 bytes",
    "pairing": "all ordered pairs of distinct requests in a pool of 2 clients x 2 Partial IVs, both nonce modes",
    "alg_x_seq_x_idctx": "12 AEAD algorithms x 9 boundary sequence numbers x 4 ID-context classes enumerated over the global scenario index",
    "noncanonical_option": "for every genuine option: the Partial IV zero-extended to every longer length up to 5 (and 6, 7), the flag byte replaced by 00 with the rest kept, and 1 / 1 / len(kid) / 8 bytes appended with k clear; for every empty option: 00, 00 + 1 byte, 00 + 2..8 bytes, 2..6 zero bytes",
    "delivery_sequence_x_context_kind": "the 13-step delivery sequence (first / second / overwritten / fresh / beyond-window / older-than-window / responses twice / no window) on each of 3 kinds of two-party context x 12 AEAD algorithms, enumerated over the global scenario index",
    "group_single_bit_flip_option": "every bit of every OSCORE option value of every group member's message (at most 23 bytes), through both ways of context selection",
    "group_flow_x_sigalg": "5 exchanges (group/pairwise/deterministic request x group/pairwise response) x 2 countersignature algorithms enumerated over the global group scenario index",
    "group_pairing": "all ordered pairs of distinct requests in a pool of 2 members x 2 Partial IVs (3 requests for deterministic ones), responses in group and pairwise mode, both nonce modes",
}
WORKER_TIMEOUT = {"quick": 600, "thorough": 7200}

SEQS = [0, 1, 255, 256, 65535, 65536, 2**24, 2**32, 2**40 - 2]
REQ_CODES = [1, 2, 3, 4, 5, 6, 7]  # GET POST PUT DELETE FETCH PATCH iPATCH
RESP_CODES = [65, 66, 67, 68, 69, 128, 129, 130, 131, 132, 133, 134, 140, 141, 143, 160, 161, 162, 163, 164, 165]
PAYLOAD_SIZES = [0, 1, 15, 16, 17, 255, 1024]
ALLOWED_OUTER = {9, 3, 7, 35, 39, 6}
CLASS_U = {3, 7, 35, 39}
OUTER_REQ_CODES = {2, 5}
OUTER_RESP_CODES = {68, 69}
MARK_ALPHABET = "abcdefghijklmnopqrstuvwxyzABCDEFGHIJKLMNOPQRSTUVWXYZ0123456789"

# option number -> value kind, for Class E options a request / response may carry
STRING, UINT, OPAQUE, BLOCK, EMPTY = "s", "u", "o", "b", "e"
REQ_OPTS = {1: OPAQUE, 4: OPAQUE, 5: EMPTY, 11: STRING, 12: UINT, 15: STRING, 17: UINT, 23: BLOCK, 27: BLOCK, 28: UINT, 60: UINT, 252: OPAQUE, 258: UINT, 292: OPAQUE, 65000: OPAQUE, 2049: OPAQUE}
RESP_OPTS = {4: OPAQUE, 8: STRING, 12: UINT, 14: UINT, 20: STRING, 23: BLOCK, 27: BLOCK, 28: UINT, 60: UINT, 252: OPAQUE, 65000: OPAQUE}
REPEATABLE = {1, 4, 8, 11, 15, 20, 292}
# (request mode, response mode) of the exchanges between two members of an OSCORE group
# "deterministic": a request of the group's deterministic client (for_sending_deterministic_requests; experimental in aiocoap)
# kinds of plain two-party context (Engine.ctx_classes)
CTX_KINDS = ["declared-none", "edhoc-style", "echo-bytes"]
GROUP_FLOWS = [("group", "group"), ("group", "pairwise"), ("pairwise", "pairwise"), ("pairwise", "group"), ("deterministic", "group")]
REQUEST_HASH = 548


def plan(tier, seed):
    n = 16
    per = {"quick": 100, "thorough": 3000}[tier]
    gper = {"quick": 12, "thorough": 360}[tier]  # group scenarios (three members or more, one exchange each)
    return [{"name": "c11-%d" % i, "seed": seed * 1000 + i, "n": per, "gn": gper, "index": i, "of": n, "tier": tier} for i in range(n)]


# ------------------------------------------------------------------------------ generators


def marker(r, tag):
    return tag + "".join(r.choice(MARK_ALPHABET) for _ in range(10))


def rbytes(r, n):
    return bytes(r.getrandbits(8) for _ in range(n))


def uint_raw(v):
    return v.to_bytes((v.bit_length() + 7) // 8, "big")


def raw_of(kind, v):
    if kind == STRING:
        return v.encode("utf8")
    if kind == UINT:
        return uint_raw(v)
    if kind == BLOCK:
        return uint_raw((v[0] << 4) | (8 if v[1] else 0) | v[2])
    if kind == EMPTY:
        return b""
    return bytes(v)


def gen_value(r, number, kind, markers):
    if kind == STRING:
        m = marker(r, "S%d" % number)
        markers.append(m.encode())
        return m
    if kind == UINT:
        if number in (12, 17):
            return r.choice([0, 40, 50, 60, 110, 10000, 65535])
        if number == 258:
            return r.choice([0, 2, 8, 16, 26])
        return r.choice([0, 1, 60, 255, 256, 65536, 2**32 - 1])
    if kind == BLOCK:
        return (r.choice([0, 1, 15, 16, 4095, 2**20 - 1]), bool(r.getrandbits(1)), r.randrange(7))
    if kind == EMPTY:
        return b""
    m = marker(r, "O%d" % number).encode()[: r.choice([1, 4, 8, 8])]
    if len(m) >= 8:
        markers.append(m)
    return m


PROXY_SCHEMES = ["coap", "coap", "coaps", "coap+tcp", "coaps+tcp", "coap+ws", "coaps+ws"]
UNRESERVED = "abcdefghijklmnopqrstuvwxyzABCDEFGHIJKLMNOPQRSTUVWXYZ0123456789-._~"


def pct(text):
    """RFC 7252 section 6.5 steps 7 / 9 with the smallest admissible set of literal characters: everything but
    RFC 3986 'unreserved' is percent-encoded (UTF-8), so that no decomposer can take a data character for a delimiter."""
    return "".join(c if c in UNRESERVED else "".join("%%%02X" % b for b in c.encode("utf8")) for c in text)


def gen_proxy_uri(r, markers):
    """A forward-proxy request's absolute URI, composed from its parts as RFC 7252 section 6.5 prescribes (so the
    section 6.4 decomposition the sender has to perform - RFC 8613 section 4.1.3.3 - is known by construction).
    -> dict(uri, scheme, host (text as in the URI), host_kind, port (None = not in the URI), path [segments], query [items])"""
    k = r.random()
    scheme = r.choice(PROXY_SCHEMES) if k < 0.92 else r.choice(["http", "https"])
    hk = r.random()
    if hk < 0.7:
        host, host_kind = "p" + marker(r, "").lower() + ".example", "name"
    elif hk < 0.85:
        host, host_kind = "[2001:db8::%x]" % r.randrange(1, 65536), "ip6"
    else:
        host, host_kind = "192.0.2.%d" % r.randrange(1, 255), "ip4"
    port = r.choice([None, None, None, 5683, 5684, 1, 61616, 65535])
    specials = [" ", "/", "?", "&", "=", "%", "\u00e4", "#", "+", ":"]

    def text(tag):
        m = marker(r, tag)  # 11 characters or more: long enough to be looked for in the outer bytes
        markers.append(m.encode())
        if r.random() < 0.3:
            return m + r.choice(specials) + marker(r, "")[:3]
        return m

    style = r.random()
    if style < 0.12:
        path = []
    else:
        path = [text("X") for _ in range(r.choice([1, 1, 2, 3]))]
        if r.random() < 0.1:
            path.append("")  # a path that ends in a slash: a last, empty Uri-Path
    query = [text("Y") for _ in range(r.choice([0, 0, 1, 2]))]
    uri = scheme + "://" + host + ("" if port is None else ":%d" % port)
    if path:
        uri += "/" + "/".join(pct(x) for x in path)
    elif r.random() < 0.5:
        uri += "/"
    if query:
        uri += "?" + "&".join(pct(x) for x in query)
    return {"uri": uri, "scheme": scheme, "host": host, "host_kind": host_kind, "port": port, "path": path, "query": query}


def gen_message(r, is_request, gi, proxy=None):
    """-> dict(code, opts [(number, value, kind)], outer [(number, value)], payload, markers, proxy)
    proxy: True forces a request that names its target by a Proxy-Uri option (None: some requests do)."""
    markers = []
    table = REQ_OPTS if is_request else RESP_OPTS
    code = (REQ_CODES if is_request else RESP_CODES)[gi % len(REQ_CODES if is_request else RESP_CODES)] if r.random() < 0.5 else r.choice(REQ_CODES if is_request else RESP_CODES)
    opts = []
    style = r.random()
    if style < 0.15:
        numbers = []
    elif style < 0.3:
        numbers = sorted(table)  # every class at once
    else:
        numbers = sorted(r.sample(sorted(table), r.randrange(1, 6)))
    if is_request and 11 not in numbers and r.random() < 0.7:
        numbers = sorted(numbers + [11])
    for n in numbers:
        kind = table[n]
        reps = r.choice([1, 1, 2, 3]) if n in REPEATABLE else 1
        for _ in range(reps):
            opts.append((n, gen_value(r, n, kind, markers), kind))
    outer = []
    observe = None
    proxy_uri = None
    if is_request:
        k = r.random()
        if k < 0.3:
            outer.append((3, "h" + marker(r, "").lower() + ".example"))
        if k < 0.15:
            outer.append((7, r.choice([5683, 1, 65535])))
        if 0.3 <= k < 0.36:
            # the option form of a forward-proxy request: Proxy-Scheme with Uri-Host (and Uri-Port)
            outer.append((39, r.choice(["http", "coap", "coaps", "coap+tcp"])))
            outer.append((3, "proxied.example"))
            if r.random() < 0.4:
                outer.append((7, r.choice([5683, 8080, 65535])))
        do_proxy = proxy if proxy is not None else 0.36 <= k < 0.44
        if r.random() < 0.25 and code in (1, 5):
            observe = 0
        if do_proxy:
            # the URI form: a Proxy-Uri option instead of all Uri-* options (RFC 7252 section 5.10.2; RFC 8613 section
            # 4.1.3.3: "When Proxy-Uri is used in the original CoAP message, Uri-* are not present")
            opts = [x for x in opts if x[0] not in (11, 15)]
            outer = []
            proxy_uri = gen_proxy_uri(r, markers)
    else:
        if r.random() < 0.2 and code in (67, 69):
            observe = r.choice([0, 1, 5, 2**24 - 1])
    size = PAYLOAD_SIZES[gi % len(PAYLOAD_SIZES)] if r.random() < 0.6 else r.choice(PAYLOAD_SIZES[:5])
    if size >= 15:
        m = marker(r, "PAYL").encode()  # 14 bytes
        markers.append(m)
        payload = m + rbytes(r, size - len(m))
    else:
        payload = rbytes(r, size)
    return {"code": code, "opts": opts, "outer": outer, "observe": observe, "payload": payload, "markers": markers, "proxy": proxy_uri}


def gen_ids(r, maxlen, gi):
    """Two different IDs with lengths cycling through all pairs 0..maxlen."""
    pairs = [(a, b) for a in range(maxlen + 1) for b in range(maxlen + 1) if (a, b) != (0, 0)]
    la, lb = pairs[((gi // 12) * 11) % len(pairs)] if r.random() < 0.7 else r.choice(pairs)
    style = r.random()
    a = rbytes(r, la) if style < 0.6 else (b"\0" * la if style < 0.8 else b"\xff" * la)
    b = rbytes(r, lb) if style < 0.6 else (b"\0" * lb if style < 0.9 else b"\xff" * lb)
    if a == b:
        b = bytes([b[0] ^ 1]) + b[1:]
    return a, b


def gen_idctx(r, gi):
    k = (gi // 108) % 4
    if r.random() < 0.15:
        k = r.randrange(5)
    return [None, rbytes(r, 1), rbytes(r, 8), rbytes(r, 255), b""][k]


# ------------------------------------------------------------------------------ judging


def piv_len_class(o):
    return 0 if o is None or o.piv is None else len(o.piv)


def size_class(n):
    for i, b in enumerate((0, 1, 15, 16, 17, 255, 1024)):
        if n <= b:
            return i
    return 9


def judge(ref, recv_recipient_id, recv_id_context, is_request, orig, orig_ct, optv, ct, group=False):
    """Independent expectation for unprotect(optv, ct) at a receiver whose Recipient ID /
    ID Context are given, when (orig, orig_ct) is a genuine message for that receiver.
    group=True: the message travels between members of an OSCORE group; the Group Flag is a
    legitimate flag bit whose value selects group / pairwise mode, so changing it must fail.
    -> ("must_fail" | "neutral", reason)"""
    if ct != orig_ct:
        return "must_fail", "ciphertext-changed"
    if optv is None:
        return "must_fail", "option-removed"
    try:
        o = ref.parse_option(optv, group=group)
    except ref.NonCanonical as e:
        # every field may read the same, but this is not the value RFC 8613 sections 5 / 6.1 prescribe for them: the option
        # (and with it the Partial IV field in it) was changed, and a receiver has no rule by which to accept it
        return "must_fail", "noncanonical-option-encoding/" + e.kind
    except ref.RefError as e:
        return "must_fail", "malformed-" + "".join(c if c.isalnum() else "-" for c in str(e).lower()).replace("--", "-").strip("-")
    if group and (o.flag ^ orig.flag) & ref.GROUP_FLAG:
        return "must_fail", "group-flag-changed"
    if is_request:
        # the request's Partial IV bytes are the request_piv of the AAD (section 5.4): exact bytes matter
        if o.piv != orig.piv:
            return "must_fail", "piv-changed"
    else:
        # a response's own Partial IV only enters the nonce, left-padded to 5 bytes (section 5.2): compared by value
        # (an encoding with leading zero bytes never gets here: the parser above has refused it)
        if (o.piv is None) != (orig.piv is None) or (o.piv is not None and int.from_bytes(o.piv, "big") != int.from_bytes(orig.piv, "big")):
            return "must_fail", "piv-changed"
    if o.kid is None:
        if is_request and (orig.kid or (group and orig.kid is not None)):
            return "must_fail", "request-kid-removed"
    elif o.kid != recv_recipient_id:
        return "must_fail", "kid-changed"
    if o.kid_context is not None and o.kid_context != recv_id_context:
        return "must_fail", "kid-context-changed"
    return "neutral", "same-piv-kid-context"


def option_field_of_byte(orig, optv, i):
    """Which field of the genuine option byte i belongs to (for signatures / keys)."""
    if i == 0:
        return "flag"
    pos = 1
    n = len(orig.piv) if orig.piv else 0
    if i < pos + n:
        return "piv"
    pos += n
    if orig.kid_context is not None:
        if i == pos:
            return "s"
        pos += 1
        if i < pos + len(orig.kid_context):
            return "kidctx"
    return "kid"


def escape_mechanism(ref, exc, optv):
    f = optv[0] if optv else 0
    name = type(exc).__name__
    if name == "IndexError" and f & 0x10:
        n = f & 7
        if len(optv) <= 1 + n:
            return "uncompress-h-flag-without-kidctx-length"
    if name == "AttributeError" and f & 0x20 and "alg_signature" in str(exc):
        return "group-flag-on-non-group-context"
    if name == "AssertionError" and (f & 7) > 5 and "XOR" in str(exc):
        return "piv-length-6-or-7"
    tb = exc.__traceback__
    fn = "unknown"
    while tb is not None:
        co = tb.tb_frame.f_code
        if "aiocoap" in co.co_filename:
            fn = co.co_name
        tb = tb.tb_next
    return "in-" + fn


# ------------------------------------------------------------------------------ manipulations


def flips_for(r, data, exhaustive_limit, head, tail, extra):
    n = len(data)
    if n <= exhaustive_limit:
        return range(n * 8)
    bits = set(range(min(head, n) * 8)) | set(range(max(0, n - tail) * 8, n * 8))
    for _ in range(extra):
        bits.add(r.randrange(n * 8))
    return sorted(bits)


def flip(data, bit):
    i, b = divmod(bit, 8)
    return data[:i] + bytes([data[i] ^ (0x80 >> b)]) + data[i + 1 :]


def rc_piv(ref, optv, group=False):
    """The Partial IV bytes of a genuine option value."""
    return ref.parse_option(optv, group=group).piv


def option_edits(r, ref, o, recv_recipient_id, recv_sender_id, recv_id_context, request_piv, maxid):
    """Field-level edits of a genuine option `o` (ref.Opt). Yields (name, new option value)."""
    B = ref.build_option
    piv, kc, kid = o.piv, o.kid_context, o.kid
    if piv is not None:
        v = int.from_bytes(piv, "big")
        m = 1 << (8 * len(piv))
        yield "piv-inc", B(((v + 1) % m).to_bytes(len(piv), "big"), kc, kid)
        yield "piv-dec", B(((v - 1) % m).to_bytes(len(piv), "big"), kc, kid)
        yield "piv-msb", B(bytes([piv[0] ^ 0x80]) + piv[1:], kc, kid)
        rp = rbytes(r, len(piv))
        if rp != piv:
            yield "piv-random", B(rp, kc, kid)
        if len(piv) < 5:
            yield "piv-leading-zero", B(b"\0" + piv, kc, kid)
            yield "piv-trailing-zero", B(piv + b"\0", kc, kid)
        for n in range(len(piv) + 2, 6):  # the same number in every longer encoding
            yield "piv-zero-extended-to-%d" % n, B(piv.rjust(n, b"\0"), kc, kid)
        yield "piv-len-6", B(piv.rjust(6, b"\0"), kc, kid)
        yield "piv-len-7", B(piv.rjust(7, b"\0"), kc, kid)
        if len(piv) > 1:
            yield "piv-drop-first", B(piv[1:], kc, kid)
            yield "piv-drop-last", B(piv[:-1], kc, kid)
        yield "piv-removed", B(None, kc, kid)
        yield "piv-n-plus-1-no-bytes", B(piv, kc, kid, n=len(piv) + 1)
        yield "piv-n-minus-1-no-bytes", B(piv, kc, kid, n=len(piv) - 1)
    else:
        yield "piv-added-zero", B(b"\0", kc, kid)
        if request_piv is not None:
            yield "piv-added-request-piv", B(request_piv, kc, kid)
        yield "piv-added-random", B(rbytes(r, r.randrange(1, 6)), kc, kid)
        yield "piv-n-6-added", B(rbytes(r, 6), kc, kid)
    if kid is not None:
        if kid:
            yield "kid-bitflip", B(piv, kc, flip(kid, r.randrange(len(kid) * 8)))
            yield "kid-truncated", B(piv, kc, kid[:-1])
            yield "kid-empty", B(piv, kc, b"")
            yield "kid-flag-cleared-bytes-left", (B(piv, kc, None) or b"\0") + kid
        yield "kid-appended", B(piv, kc, kid + b"\0")
        yield "kid-zero-prepended", B(piv, kc, b"\0" + kid)
        if recv_sender_id != kid:
            yield "kid-replaced-by-receivers-sender-id", B(piv, kc, recv_sender_id)
        yield "kid-removed", B(piv, kc, None)
    else:
        yield "kid-added-expected", B(piv, kc, recv_recipient_id)
        yield "kid-added-receivers-sender-id", B(piv, kc, recv_sender_id)
        rk = rbytes(r, r.randrange(1, maxid + 2))
        if rk != recv_recipient_id:
            yield "kid-added-random", B(piv, kc, rk)
        if recv_recipient_id != b"":
            yield "kid-added-empty", B(piv, kc, b"")
        yield "trailing-garbage", B(piv, kc, None) + (b"\xaa" if (piv or kc is not None) else b"")
        if piv or kc is not None:  # bytes after the last announced field, k clear
            yield "trailing-zero-byte", B(piv, kc, None) + b"\0"
            yield "trailing-bytes-like-a-kid", B(piv, kc, None) + (recv_recipient_id or b"\x01")
            yield "trailing-eight-bytes", B(piv, kc, None) + rbytes(r, 8)
    if kc is not None:
        if kc:
            yield "kidctx-bitflip", B(piv, flip(kc, r.randrange(len(kc) * 8)), kid)
            yield "kidctx-truncated", B(piv, kc[:-1], kid)
            yield "kidctx-empty", B(piv, b"", kid)
        if len(kc) < 255:
            yield "kidctx-appended", B(piv, kc + b"\0", kid)
        yield "kidctx-removed", B(piv, None, kid)
        full = B(piv, kc, kid)
        spos = 1 + (len(piv) if piv else 0)
        if len(kc) < 255:
            yield "kidctx-s-plus-1", full[:spos] + bytes([full[spos] + 1]) + full[spos + 1 :]
        if kc:
            yield "kidctx-s-minus-1", full[:spos] + bytes([full[spos] - 1]) + full[spos + 1 :]
        yield "kidctx-s-255", full[:spos] + b"\xff" + full[spos + 1 :]
        yield "kidctx-cut-after-s", full[: spos + 1]
        yield "kidctx-cut-before-s", full[:spos]
    else:
        if recv_id_context is not None:
            yield "kidctx-added-own", B(piv, recv_id_context, kid)
        oc = rbytes(r, 4)
        if oc != recv_id_context:
            yield "kidctx-added-other", B(piv, oc, kid)
        if recv_id_context != b"":
            yield "kidctx-added-empty", B(piv, b"", kid)
        yield "h-flag-only", B(piv, None, kid, flag_or=0x10)
        yield "h-flag-only-kid-dropped", B(piv, None, None, flag_or=0x10 | (0x08 if kid is not None else 0))
    for bit in (5, 6, 7):
        yield "reserved-bit-%d" % bit, B(piv, kc, kid, flag_or=1 << bit)
    full = B(piv, kc, kid)
    if full:
        yield "flag-zeroed-content-kept", b"\0" + full[1:]
        yield "option-emptied", b""
    else:
        yield "option-single-zero-byte", b"\0"
        yield "option-zero-flag-byte-and-one-byte", b"\0" + rbytes(r, 1)
        yield "option-zero-flag-byte-and-more-bytes", b"\0" + rbytes(r, r.randrange(2, 9))
        yield "option-zero-bytes-only", b"\0" * r.randrange(2, 7)
        for f in (0x08, 0x10, 0x18, 0x20, 0x40, 0x80, 0x01, 0x05, 0x06, 0x07, 0x1F, 0xFF):
            yield "option-lone-flag-%02x" % f, bytes([f])


def ciphertext_edits(r, ct, tag, other_ct):
    yield "ct-empty", b""
    yield "ct-one-byte", ct[:1]
    yield "ct-first-tag-bytes", ct[:tag]
    yield "ct-tag-only", ct[-tag:]
    yield "ct-tag-plus-one", ct[-(tag + 1) :] if len(ct) > tag + 1 else ct + b"\0"
    yield "ct-zeroed", b"\0" * len(ct)
    yield "ct-appended", ct + b"\0"
    yield "ct-prepended", b"\0" + ct
    yield "ct-reversed", ct[::-1] if ct[::-1] != ct else ct + b"\1"
    yield "ct-body-dropped-first-byte", ct[1:]
    if other_ct is not None and other_ct != ct:
        yield "ct-spliced-from-other-message", other_ct
    n = len(ct)
    cuts = range(n) if n <= 48 else sorted({0, 1, 2, tag - 1, tag, tag + 1, n - tag - 1, n - tag, n - tag + 1, n - 2, n - 1} | {r.randrange(n) for _ in range(12)})
    for k in cuts:
        if 0 <= k < n:
            yield "ct-truncated", ct[:k]


# ------------------------------------------------------------------------------ engine


class Engine:
    def __init__(self, rep):
        import copy
        import aiocoap
        import aiocoap.oscore as o
        from aiocoap.message import Message, Direction
        from aiocoap.numbers.codes import Code
        from aiocoap.numbers.optionnumbers import OptionNumber
        from aiocoap.numbers.types import Type
        from harness import refcodec, oscore_c11ref

        self.rep, self.o, self.rc, self.ref, self.copy = rep, o, refcodec, oscore_c11ref, copy
        self.Message, self.Direction, self.Code, self.OptionNumber, self.Type = Message, Direction, Code, OptionNumber, Type

        class MemCtx(o.CanProtect, o.CanUnprotect, o.SecurityContextUtils):
            """Plain in-memory context made of the three bases and nothing else, exactly like tests/test_oscore.py's
            NonsavingSecurityContext and aiocoap.edhoc._EdhocContextBase ("edhoc-style")."""

            def post_seqnoincrease(self):
                pass

        class MemCtxDeclaredNone(MemCtx):
            """... that declares it takes no part in Appendix B.1.2 recovery, the way _DeterministicUnprotectProtoAspect does."""

            echo_recovery = None

        class MemCtxEcho(MemCtx):
            """... that holds an Echo value for Appendix B.1.2 recovery, the way FilesystemSecurityContext does (set per instance in ctx())."""

        self.MemCtx = MemCtx
        self.ctx_classes = {"edhoc-style": MemCtx, "declared-none": MemCtxDeclaredNone, "echo-bytes": MemCtxEcho}
        self.algs = []

    # -- contexts ---------------------------------------------------------------------------
    def probe_algorithms(self):
        o, rep = self.o, self.rep
        for name, alg in o.algorithms.items():
            if not isinstance(alg, o.AeadAlgorithm):
                rep.seen("algorithms_not_aead", name)
                continue
            if name not in self.ref.ALGS:
                rep.seen("algorithms_without_reference", name)
                continue
            try:
                ct = alg.encrypt(b"probe", b"aad", b"\x01" * alg.key_bytes, b"\x02" * alg.iv_bytes)
                assert alg.decrypt(ct, b"aad", b"\x01" * alg.key_bytes, b"\x02" * alg.iv_bytes) == b"probe"
            except Exception as e:
                rep.seen("algorithms_unsupported_by_cryptography", "%s: %s" % (name, type(e).__name__))
                continue
            v, k, t, n = self.ref.ALGS[name]
            if (alg.value, alg.key_bytes, alg.tag_bytes, alg.iv_bytes) != (v, k, t, n):
                rep.violation("ref/algorithm-parameters-differ", "algorithm table entry differs from the COSE registry", {"alg": name, "aiocoap": [alg.value, alg.key_bytes, alg.tag_bytes, alg.iv_bytes], "cose": [v, k, t, n]}, ["probe"])
                continue
            rep.seen("algorithms_exercised", name)
            self.algs.append(name)
        self.algs.sort()

    def ctx(self, p, sender_id, recipient_id, seq=0, kind="declared-none"):
        o = self.o
        c = self.ctx_classes[kind]()
        if kind == "echo-bytes":
            c.echo_recovery = bytes(8 * [0xEC])
        c.alg_aead = o.algorithms[p.alg]
        c.hashfun = o.hashfunctions[p.hashname]
        c.sender_id = sender_id
        c.recipient_id = recipient_id
        c.id_context = p.id_context
        c.derive_keys(p.salt, p.secret)
        c.sender_sequence_number = seq
        c.recipient_replay_window = o.ReplayWindow(32, lambda: None)
        c.recipient_replay_window.initialize_empty()
        return c

    # -- messages ---------------------------------------------------------------------------
    def build(self, spec):
        m = self.Message(code=self.Code(spec["code"]), payload=spec["payload"])
        for n, v, _k in spec["opts"]:
            m.opt.add_option(self.OptionNumber(n).create_option(value=v))
        for n, v in spec["outer"]:
            m.opt.add_option(self.OptionNumber(n).create_option(value=v))
        if spec.get("proxy") is not None:
            m.opt.add_option(self.OptionNumber(35).create_option(value=spec["proxy"]["uri"]))
        if spec["observe"] is not None:
            m.opt.observe = spec["observe"]
        m.direction = self.Direction.OUTGOING
        return m

    @staticmethod
    def expected_inner(spec):
        opts = [(n, raw_of(k, v)) for n, v, k in spec["opts"]]
        if spec.get("proxy") is not None:
            # RFC 8613 section 4.1.3.3: the Proxy-Uri is decomposed (RFC 7252 section 6.4); its Uri-Path and Uri-Query
            # are Class E and travel as Inner options, scheme / host / port stay outside
            opts += [(11, x.encode("utf8")) for x in spec["proxy"]["path"]] + [(15, x.encode("utf8")) for x in spec["proxy"]["query"]]
        if spec["observe"] is not None:
            opts.append((6, uint_raw(spec["observe"])))
        opts.sort(key=lambda x: x[0])
        return (spec["code"], opts, spec["payload"])

    @staticmethod
    def fields(m):
        return (int(m.code), [(int(x.number), bytes(x.encode())) for x in m.opt.option_list()], bytes(m.payload))

    def to_wire(self, outer, mtype, mid, token):
        outer.mtype = self.Type(mtype)
        outer.mid = mid
        outer.token = token
        return outer.encode()

    # -- one unprotect attempt ----------------------------------------------------------------
    def attempt(self, ctx, base, optv, ct, request_id):
        """base: refcodec.Msg of the genuine outer message. -> (outcome, detail)"""
        rc = self.rc
        options = tuple((n, v) for n, v in base.options if n != 9)
        if optv is not None:
            options += ((9, optv),)
        wire = rc.encode(rc.Msg(base.type, base.code, base.mid, base.token, options, ct))
        try:
            m = self.Message.decode(wire)
        except Exception as e:  # the harness built something the codec refuses: not an OSCORE verdict
            self.rep.count("harness_wire_not_decodable/" + type(e).__name__)
            return "skipped", None
        ctx.recipient_replay_window.initialize_empty()
        rid = self.copy.copy(request_id) if request_id is not None else None
        try:
            inner, _ = ctx.unprotect(m, rid)
        except self.o.ReplayError as e:
            self.rep.inconc("a manipulated message was rejected as a replay although the window was re-initialised: %r" % (e,))
            return "rejected", e
        except self.o.ProtectionInvalid as e:
            return "rejected", e
        except self.o.NotAProtectedMessage as e:
            return "not-protected", e
        except Exception as e:
            return "escape", e
        return "accepted", self.fields(inner)

    def describe(self, sc, label):
        p = sc["params"]
        return {
            "alg": p.alg, "hash": p.hashname, "master_secret": p.secret.hex(), "master_salt": None if p.salt is None else p.salt.hex(),
            "id_context": None if p.id_context is None else p.id_context.hex(), "client_sender_id": sc["cid"].hex(), "server_sender_id": sc["sid"].hex(),
            "message": label,
        }

    # -- (c) hiding: what the outer message may show ------------------------------------------------
    def hiding(self, monitor, prefix, where, spec, wire, base, is_request, case, extra_outer=()):
        """Judged on the wire bytes by the independent codec. -> False when there is not exactly one OSCORE option."""
        rep, rc = self.rep, self.rc
        rep.monitor(monitor)
        ok_codes = OUTER_REQ_CODES if is_request else OUTER_RESP_CODES
        if base.code not in ok_codes:
            rep.violation(prefix + "outer-code-not-fixed", "outer code %s is not one of the fixed outer codes" % rc.code_str(base.code), dict(where, wire=wire[:200].hex()), case)
        n9 = 0
        for n, v in base.options:
            if n == 9:
                n9 += 1
            if n not in ALLOWED_OUTER and n not in extra_outer:
                rep.violation(prefix + "outer-option-%d" % n, "outer message carries option %d, which is none of OSCORE / host / proxy routing / Observe" % n, dict(where, wire=wire[:200].hex(), value=v[:40].hex()), case)
        if n9 != 1:
            rep.violation(prefix + "oscore-option-count", "outer message carries %d OSCORE options" % n9, dict(where, wire=wire[:200].hex()), case)
            return False
        for mk in spec["markers"]:
            if mk in wire:
                rep.violation(prefix + "marker-visible-in-outer-message", "a marker planted in an inner (Class E) field is readable in the outer wire bytes", dict(where, marker=mk.decode("latin1"), wire=wire[:300].hex()), case)
        for n, _v in spec["outer"]:
            if n not in [x for x, _ in base.options]:
                rep.count("class_u_option_not_carried_outer/%d" % n)
        pu = spec.get("proxy")
        if pu is not None:
            # what is left of scheme / host / port for the proxy (statistics; the statement only limits what the outer message may carry)
            od = {}
            for n, v in base.options:
                od.setdefault(n, v)
            authority = pu["host"] + ("" if pu["port"] is None else ":%d" % pu["port"])
            if od.get(35, b"").decode("utf8", "replace").rstrip("/") == pu["scheme"] + "://" + authority:
                rep.count("proxy_uri_outer_routing/complete-as-proxy-uri")
            else:
                lost = [name for name, here in (("scheme", od.get(39) == pu["scheme"].encode()), ("host", od.get(3) == pu["host"].encode()),
                                                ("port", pu["port"] is None or od.get(7) == uint_raw(pu["port"]))) if not here]
                rep.count("proxy_uri_outer_routing/" + ("complete-as-options" if not lost else "-and-".join(lost) + "-lost"))
        return True

    def proxy_refusal(self, pu, exc):
        """A Proxy-Uri whose scheme is none of the CoAP ones has no decomposition into CoAP options; protect() says so with
        a ValueError of its own wording. That is a refusal (counted), not a verdict."""
        if pu is not None and pu["scheme"] in ("http", "https") and isinstance(exc, ValueError) and "Proxy-URI" in str(exc):
            self.rep.count("proxy_uri_refused/scheme-without-coap-option-form")
            return True
        return False

    # -- protect + genuine path (monitors a, b, c and the reference decryption) -----------------
    def protect_and_check(self, sc, label, sender, spec, protect_rid, receiver, receiver_rid, case, kid_context=True, mtype=0):
        rep, rc, ref = self.rep, self.rc, self.ref
        is_request = protect_rid is None
        where = self.describe(sc, label)
        try:
            msg = self.build(spec)
        except Exception as e:
            rep.count("harness_build_failed/" + type(e).__name__)
            return None
        pu = spec.get("proxy")
        if pu is not None:
            rep.monitor("proxy_uri_request")
        try:
            if is_request:
                outer, rid_out = sender.protect(msg, kid_context=kid_context)
            else:
                outer, rid_out = sender.protect(msg, protect_rid)
            wire = self.to_wire(outer, mtype, sc["mid"], sc["token"])
        except Exception as e:
            if self.proxy_refusal(pu, e):
                return None
            rep.violation("roundtrip/protect-raises/" + type(e).__name__ + ("/proxy-uri-request" if pu is not None else ""), "protect()/encode() raised %s for an ordinary %s%s" % (type(e).__name__, label, " that carries a Proxy-Uri option" if pu is not None else ""),
                          dict(where, spec=repr(spec)[:600], tb=rep.exception_witness(e)), case)
            return None
        if pu is not None:
            rep.monitor("proxy_uri_roundtrip")
            rep.seen("proxy_uri_shapes", "%s/%s/port-%s/%d-segments/%d-query-items" % (pu["scheme"], pu["host_kind"], "none" if pu["port"] is None else "given", len(pu["path"]), len(pu["query"])))
        base = rc.parse(wire)
        expected = self.expected_inner(spec)
        optset = tuple(sorted({n for n, _v in expected[1]}))
        # ---- (c) hiding, judged on the wire bytes by the independent codec
        if not self.hiding("hide", "hide/", where, spec, wire, base, is_request, case):
            return None
        optv = rc.opt1(base, 9)
        ct = base.payload
        # ---- reference: the RFC's construction must open what aiocoap sealed
        rep.monitor("ref_decrypt")
        try:
            o = ref.parse_option(optv)
        except ref.RefError as e:
            rep.violation("ref/option-undecodable", "protect() produced an OSCORE option RFC 8613 section 6.1 cannot decode: %s" % e, dict(where, option=optv.hex()), case)
            return None
        p = sc["params"]
        req_kid, req_piv = (sender.sender_id, o.piv) if is_request else (protect_rid.kid, protect_rid.partial_iv)
        if o.piv is not None:
            nonce_id, nonce_piv = sender.sender_id, o.piv
        else:
            nonce_id, nonce_piv = req_kid, req_piv
        pt = None
        try:
            if nonce_piv is not None:
                pt = ref.open_(p, sender.sender_id, nonce_id, nonce_piv, req_kid, req_piv, ct)
        except ref.RefError as e:
            rep.count("ref_inadmissible/" + str(e)[:40])
        if pt is None:
            rep.violation("ref/%s-not-openable-by-rfc8613-construction" % label, "the ciphertext does not verify under key/nonce/AAD built independently from RFC 8613 sections 3.2.1, 5.2, 5.4", dict(where, option=optv.hex(), ciphertext=ct[:80].hex(), request_kid=req_kid.hex(), request_piv=None if req_piv is None else req_piv.hex()), case)
        else:
            try:
                got_pt = ref.split_plaintext(pt)
                got_pt = (got_pt[0], list(got_pt[1]), got_pt[2])
            except Exception as e:
                got_pt = ("unparsable", repr(e))
            if got_pt != expected:
                rep.violation("ref/plaintext-differs", "the decrypted plaintext is not code + Class E options + payload of the original", dict(where, want=repr(expected)[:500], got=repr(got_pt)[:500]), case)
        if is_request:
            if o.kid != sender.sender_id:
                rep.violation("ref/request-kid-not-sender-id", "request carries kid %r" % (o.kid,), dict(where, option=optv.hex()), case)
            want_kc = p.id_context if kid_context is True else None
            if o.kid_context != want_kc:
                rep.violation("ref/request-kid-context-unexpected", "request carries kid context %r" % (o.kid_context,), dict(where, option=optv.hex()), case)
        # ---- (a)/(b) round trip through the wire
        mon = {"request": "rt_request", "response-reuse": "rt_response_reuse", "response-ownpiv": "rt_response_ownpiv"}[label]
        base_sig = (label, p.alg, len(sc["cid"]), len(sc["sid"]), sc["idctx_class"], piv_len_class(o), spec["code"], optset, size_class(len(spec["payload"])))
        try:
            incoming = self.Message.decode(wire)
        except Exception as e:
            rep.violation("roundtrip/outer-not-decodable/" + type(e).__name__, "Message.decode refuses the encoded outer message", dict(where, wire=wire[:300].hex()), case)
            return None
        receiver.recipient_replay_window.initialize_empty()
        rid_in = None
        try:
            inner, rid_in = receiver.unprotect(incoming, self.copy.copy(receiver_rid) if receiver_rid is not None else None)
            got = self.fields(inner)
        except Exception as e:
            got = None
            rep.violation("roundtrip/unprotect-raises/" + type(e).__name__, "unprotect() of a genuine %s under the matching context raised %s" % (label, type(e).__name__), dict(where, option=optv.hex(), ciphertext=ct[:80].hex(), tb=rep.exception_witness(e)), case)
        rep.monitor(mon)
        rep.case((base_sig, "genuine", "ok" if got == expected else "differs"), nontrivial=True)
        if got is not None and got != expected:
            diff = "code" if got[0] != expected[0] else ("payload" if got[2] != expected[2] else "options")
            key = "roundtrip/%s-%s-differ" % (label, diff)
            if diff == "options" and spec["observe"] == 1 and is_request and got[1] == [x for x in expected[1] if x[0] != 6]:
                key = "roundtrip/request-observe-1-dropped-by-unprotect"
            rep.violation(key, "unprotect(protect(m)) differs from m in %s" % diff, dict(where, want=repr(expected)[:600], got=repr(got)[:600]), case)
            got = None
        return {
            "label": label, "is_request": is_request, "wire": wire, "base": base, "opt": o, "optv": optv, "ct": ct, "receiver": receiver,
            "receiver_rid": receiver_rid, "genuine": got, "sig": base_sig, "rid_out": rid_out, "rid_in": rid_in, "where": where, "spec": spec,
            "request_piv": req_piv, "sender": sender,
        }

    # -- (e) tampering ---------------------------------------------------------------------------
    def settle(self, t, family, manip, field, optv, ct, case):
        """Run one manipulated message through unprotect and judge it."""
        rep, ref = self.rep, self.ref
        if optv == t["optv"] and ct == t["ct"]:
            return
        recv = t["receiver"]
        verdict, reason = judge(ref, recv.recipient_id, recv.id_context, t["is_request"], t["opt"], t["ct"], optv, ct)
        outcome, detail = self.attempt(recv, t["base"], optv, ct, t["receiver_rid"])
        if outcome == "skipped":
            return
        rep.monitor(family)
        if reason.startswith("noncanonical-option-encoding/"):
            rep.monitor("tamper_noncanonical_" + ("request" if t["is_request"] else "response"))
        rep.case((t["sig"], manip, field, verdict, outcome), nontrivial=True)
        rk = reason

        def wit(**kw):
            w = dict(t["where"], manipulation=manip, field=field, expectation=verdict + ": " + reason, genuine_option=t["optv"].hex(), genuine_ciphertext=t["ct"][:96].hex(), genuine_ciphertext_len=len(t["ct"]),
                     option=None if optv is None else optv.hex(), ciphertext=ct[:96].hex(), ciphertext_len=len(ct),
                     request_kid=None if t["receiver_rid"] is None else t["receiver_rid"].kid.hex(), request_piv=None if t["receiver_rid"] is None else t["receiver_rid"].partial_iv.hex())
            w.update(kw)
            return w

        if outcome == "escape":
            mech = escape_mechanism(ref, detail, optv)
            rep.violation("tamper/escape-%s/%s" % (type(detail).__name__, mech), "unprotect() let %s escape instead of a protection error for a manipulated %s" % (type(detail).__name__, t["label"]), wit(exc=repr(detail), tb=rep.exception_witness(detail)), case)
            return
        if outcome == "rejected":
            rep.count("rejected/" + type(detail).__name__)
            return
        if outcome == "not-protected":
            if optv is not None:
                rep.violation("tamper/not-a-protected-message-with-option-present", "NotAProtectedMessage although an OSCORE option is present", wit(), case)
            return
        same = detail == t["genuine"]
        if verdict == "must_fail":
            rep.violation("tamper/accepted-%s/%s" % ("original" if same else "DIFFERENT-MESSAGE", rk), "unprotect() yielded %s for a %s whose %s" % ("the original message" if same else "a different message", t["label"], reason), wit(got=repr(detail)[:400]), case)
        elif not same:
            rep.violation("tamper/neutral-manipulation-yields-different-message", "a semantically neutral re-encoding of the option made unprotect() return a different message", wit(got=repr(detail)[:400], want=repr(t["genuine"])[:400]), case)
        else:
            rep.count("neutral_accepted/" + manip)

    def tamper(self, t, r, case, other_ct):
        recv = t["receiver"]
        optv, ct = t["optv"], t["ct"]
        tag = recv.alg_aead.tag_bytes
        maxid = recv.alg_aead.iv_bytes - 6
        for bit in flips_for(r, optv, 40, 8, 9, 24):
            self.settle(t, "tamper_bitflip_option", "flip-option-bit", option_field_of_byte(t["opt"], optv, bit // 8) + (".bit%d" % (bit % 8) if bit < 8 else ""), flip(optv, bit), ct, case)
        for bit in flips_for(r, ct, 48, 8, 17, 64):
            self.settle(t, "tamper_bitflip_ciphertext", "flip-ciphertext-bit", "tag" if bit // 8 >= len(ct) - tag else "body", optv, flip(ct, bit), case)
        for name, ov in option_edits(r, self.ref, t["opt"], recv.recipient_id, recv.sender_id, recv.id_context, t["request_piv"] if not t["is_request"] else None, maxid):
            self.settle(t, "tamper_field", name, "option", ov, ct, case)
        for k in range(len(optv)):
            self.settle(t, "tamper_field", "option-truncated", option_field_of_byte(t["opt"], optv, k), optv[:k], ct, case)
        self.settle(t, "tamper_field", "option-removed", "option", None, ct, case)
        for name, c2 in ciphertext_edits(r, ct, tag, other_ct):
            self.settle(t, "tamper_field", name, "ciphertext", optv, c2, case)
        # both at once: another genuine option with this ciphertext is covered by the PIV edits; a flipped
        # bit in each must of course still fail
        if optv:
            self.settle(t, "tamper_field", "flip-both", "option+ciphertext", flip(optv, r.randrange(len(optv) * 8)), flip(ct, r.randrange(len(ct) * 8)), case)

    # -- verification under another context's keys -------------------------------------------------
    def foreign_variants(self, r, p, S, R, maxid):
        ref = self.ref
        yield "master-secret-bit", p._replace(secret=bytes([p.secret[0] ^ 1]) + p.secret[1:]), S, R
        yield "master-secret-extended", p._replace(secret=p.secret + b"\0"), S, R
        yield "master-salt-changed", p._replace(salt=(p.salt or b"") + b"x"), S, R
        if p.salt:
            yield "master-salt-absent", p._replace(salt=None), S, R
        if p.id_context is None:
            yield "id-context-empty-instead-of-none", p._replace(id_context=b""), S, R
            yield "id-context-added", p._replace(id_context=rbytes(r, 4)), S, R
        else:
            yield "id-context-none", p._replace(id_context=None), S, R
            if p.id_context:
                yield "id-context-bit", p._replace(id_context=flip(p.id_context, r.randrange(len(p.id_context) * 8))), S, R
                yield "id-context-truncated", p._replace(id_context=p.id_context[:-1]), S, R
            if len(p.id_context) < 255:
                yield "id-context-extended", p._replace(id_context=p.id_context + b"\0"), S, R
        if R:
            yield "recipient-id-bit", p, S, flip(R, r.randrange(len(R) * 8))
            yield "recipient-id-truncated", p, S, R[:-1]
        if len(R) < maxid:
            yield "recipient-id-extended", p, S, R + b"\0"
            yield "recipient-id-zero-prepended", p, S, b"\0" + R
        yield "roles-swapped", p, R, S
        nlen = ref.ALGS[p.alg][3]
        same = [a for a in self.algs if a != p.alg and ref.ALGS[a][3] == nlen]
        if same:
            yield "algorithm-other-same-nonce-length", p._replace(alg=r.choice(same)), S, R
        other = [a for a in self.algs if ref.ALGS[a][3] != nlen and max(len(S), len(R)) <= ref.ALGS[a][3] - 6]
        if other:
            yield "algorithm-other-nonce-length", p._replace(alg=r.choice(other)), S, R
        yield "hash-function-other", p._replace(hashname="sha384" if p.hashname == "sha256" else "sha256"), S, R

    def foreign(self, sc, t, r, case):
        rep = self.rep
        recv = t["receiver"]
        maxid = recv.alg_aead.iv_bytes - 6
        for name, p2, S, R in self.foreign_variants(r, sc["params"], recv.sender_id, recv.recipient_id, maxid):
            try:
                other = self.ctx(p2, S, R)
            except Exception as e:
                rep.count("harness_foreign_ctx_failed/%s/%s" % (name, type(e).__name__))
                continue
            outcome, detail = self.attempt(other, t["base"], t["optv"], t["ct"], t["receiver_rid"])
            if outcome == "skipped":
                continue
            rep.monitor("foreign_context")
            rep.case((t["sig"], "foreign", name, outcome), nontrivial=True)
            w = dict(t["where"], foreign_variant=name, option=t["optv"].hex(), ciphertext=t["ct"][:96].hex(),
                     foreign=dict(alg=p2.alg, hash=p2.hashname, master_secret=p2.secret.hex(), master_salt=None if p2.salt is None else p2.salt.hex(), id_context=None if p2.id_context is None else p2.id_context.hex(), sender_id=S.hex(), recipient_id=R.hex()))
            if outcome == "escape":
                rep.violation("foreign/escape-%s/%s" % (type(detail).__name__, escape_mechanism(self.ref, detail, t["optv"])), "unprotect() under another context's keys let %s escape" % type(detail).__name__, dict(w, tb=rep.exception_witness(detail)), case)
            elif outcome == "accepted":
                rep.violation("foreign/accepted/" + name, "a %s verified under a context with other keys (%s) and yielded a message" % (t["label"], name), dict(w, got=repr(detail)[:400]), case)
            elif outcome == "not-protected":
                rep.violation("foreign/not-a-protected-message", "NotAProtectedMessage although an OSCORE option is present", w, case)
            else:
                rep.count("rejected/" + type(detail).__name__)

    # -- (d) binding of responses to their request --------------------------------------------------
    def binding(self, sc, r, case):
        rep, rc = self.rep, self.rc
        p, sid, cid_a = sc["params"], sc["sid"], sc["cid"]
        maxid = self.ref.ALGS[p.alg][3] - 6
        for _ in range(50):
            k = r.random()
            if k < 0.25 and cid_a:  # IDs sharing a prefix / differing only in the last byte or in length
                cid_b = cid_a[:-1] + bytes([cid_a[-1] ^ (1 << r.randrange(8))])
            elif k < 0.4 and len(cid_a) < maxid:
                cid_b = cid_a + bytes([r.choice([0, 1, 255])])
            elif k < 0.5 and len(cid_a) < maxid:
                cid_b = b"\0" + cid_a
            elif k < 0.6 and cid_a:
                cid_b = cid_a[:-1]
            else:
                cid_b = rbytes(r, r.randrange(0, maxid + 1))
            if cid_b not in (cid_a, sid):
                break
        else:
            rep.count("harness_no_second_client_id")
            return
        s1 = sc["seq_c"]
        s2 = r.choice([s for s in SEQS if s != s1])
        pool = []
        for cid in (cid_a, cid_b):
            client = self.ctx(p, cid, sid)
            server = self.ctx(p, sid, cid, seq=r.choice(SEQS))
            for seq in (s1, s2):
                client.sender_sequence_number = seq
                spec = {"code": 1, "opts": [(11, marker(r, "B"), STRING)], "outer": [], "observe": None, "payload": b"", "markers": []}
                try:
                    outer, rid_c = client.protect(self.build(spec), kid_context=sc["send_kc"])
                    wire = self.to_wire(outer, 0, sc["mid"], sc["token"])
                    server.recipient_replay_window.initialize_empty()
                    _inner, rid_s = server.unprotect(self.Message.decode(wire))
                except Exception as e:
                    rep.count("binding_pool_setup_failed/" + type(e).__name__)
                    return
                pool.append({"client": client, "server": server, "rid_c": rid_c, "rid_s": rid_s, "kid": cid, "piv": rid_c.partial_iv})
        for e in pool:
            for mode in ("reuse", "ownpiv"):
                body = marker(r, "RESP").encode()
                spec = {"code": 69, "opts": [(12, 0, UINT)], "outer": [], "observe": None, "payload": body, "markers": []}
                try:
                    e["server"].sender_sequence_number = r.choice(SEQS)
                    outer, _ = e["server"].protect(self.build(spec), e["rid_s"])  # first call re-uses the request nonce, the second draws an own Partial IV
                    wire = self.to_wire(outer, 2, sc["mid"], sc["token"])
                    base = rc.parse(wire)
                    has_piv = self.ref.parse_option(rc.opt1(base, 9)).piv is not None
                except Exception as ex:
                    rep.count("binding_response_setup_failed/" + type(ex).__name__)
                    continue
                if has_piv != (mode == "ownpiv"):
                    rep.count("binding_nonce_mode_unexpected/" + mode)
                want = self.expected_inner(spec)
                for f in pool:
                    outcome, detail = self.attempt(f["client"], base, rc.opt1(base, 9), base.payload, f["rid_c"])
                    if outcome == "skipped":
                        continue
                    diff = "same-request" if f is e else "-and-".join(x for x, c in (("other-kid", f["kid"] != e["kid"]), ("other-piv", f["piv"] != e["piv"])) if c)
                    rep.case(("binding", p.alg, len(e["kid"]), len(f["kid"]), len(e["piv"]), len(f["piv"]), mode, diff, outcome), nontrivial=True)
                    w = dict(self.describe(sc, "response (%s nonce)" % mode), option=rc.opt1(base, 9).hex(), ciphertext=base.payload.hex(),
                             answered_request=dict(kid=e["kid"].hex(), piv=e["piv"].hex()), verified_with_request=dict(kid=f["kid"].hex(), piv=f["piv"].hex()))
                    if f is e:
                        rep.monitor("binding_control")
                        if outcome != "accepted" or detail != want:
                            rep.violation("binding/own-request-rejected/" + mode, "a response does not verify with the identifiers of the request it answers", dict(w, outcome=outcome, detail=repr(detail)[:300]), case)
                        continue
                    rep.monitor("binding")
                    if outcome == "accepted":
                        rep.violation("binding/accepted-with-foreign-request/%s-nonce/%s" % (mode, diff), "a response protected for one request verified with the identifiers of another request (%s)" % diff, dict(w, got=repr(detail)[:300]), case)
                    elif outcome != "rejected":
                        rep.violation("binding/escape-%s/%s" % (type(detail).__name__, escape_mechanism(self.ref, detail, rc.opt1(base, 9))), "cross-paired verification raised %s" % type(detail).__name__, dict(w, tb=rep.exception_witness(detail) if isinstance(detail, BaseException) else None), case)

    # -- deliveries to a receiver that remembers (no re-initialised replay window in between) -------------------
    def deliver(self, ctx, m, rid):
        """One unprotect() of the decoded message m, receiver state left as the deliveries before left it."""
        o = self.o
        if m is None:
            return "skipped", None, None
        try:
            inner, rid_out = ctx.unprotect(m, self.copy.copy(rid) if rid is not None else None)
        except o.ProtectionInvalid as e:  # ReplayError, ReplayErrorWithEcho and DecodeError are protection errors
            return "rejected", e, None
        except o.NotAProtectedMessage as e:
            return "not-protected", e, None
        except Exception as e:
            return "escape", e, None
        return "accepted", self.fields(inner), rid_out

    def replay_escape_mechanism(self, exc, ctx, ctxname):
        if isinstance(exc, AttributeError) and "echo_recovery" in str(exc):
            return "echo_recovery-undefined-on-" + ctxname
        tb = exc.__traceback__
        fn = "unknown"
        while tb is not None:
            co = tb.tb_frame.f_code
            if "aiocoap" in co.co_filename:
                fn = co.co_name
            tb = tb.tb_next
        return "in-%s/%s" % (fn, ctxname)

    def judge_delivery(self, prefix, monitor, step, demand, outcome, detail, want, ctx, ctxname, sig, where, case, **wit):
        """demand: "original" (a genuine message the receiver has no reason to refuse: clause 1), "fail" (its Partial IV
        was changed: clause 4), "either" (a genuine message delivered once more: the statement of C11 leaves open whether it
        is refused - that is C12 - but what comes out is the original or a protection error, nothing else)."""
        rep = self.rep
        if outcome == "skipped":
            return
        rep.monitor(monitor)
        rep.case((sig, "delivery", step, demand, outcome), nontrivial=True)
        w = dict(where, delivery=step, demanded={"original": "the original message", "fail": "a protection error", "either": "the original message or a protection error"}[demand], receiving_context=type(ctx).__name__, **wit)
        if outcome == "escape":
            rep.violation("%sreplay/escape-%s/%s" % (prefix, type(detail).__name__, self.replay_escape_mechanism(detail, ctx, ctxname)), "%s: unprotect() let %s escape instead of a protection error" % (step, type(detail).__name__), dict(w, exc=repr(detail), tb=rep.exception_witness(detail)), case)
        elif outcome == "not-protected":
            rep.violation("%sreplay/not-a-protected-message-with-option-present/%s" % (prefix, step), "NotAProtectedMessage although an OSCORE option is present", w, case)
        elif outcome == "rejected":
            rep.count("%sdelivery/%s/rejected-%s" % (prefix, step, type(detail).__name__ if isinstance(detail, BaseException) else detail))
            if demand == "original":
                rep.violation("%sreplay/fresh-genuine-message-rejected/%s" % (prefix, step), "%s: a genuine message with a Partial IV the receiver has not seen is refused: %r" % (step, detail), w, case)
        else:
            rep.count("%sdelivery/%s/accepted" % (prefix, step))
            same = detail == want
            if demand == "fail":
                rep.violation("%sreplay/accepted-%s/%s" % (prefix, "original" if same else "DIFFERENT-MESSAGE", step), "%s: unprotect() yielded a message" % step, dict(w, got=repr(detail)[:400]), case)
            elif not same:
                rep.violation("%sreplay/different-message/%s" % (prefix, step), "%s: unprotect() yielded something else than the original" % step, dict(w, got=repr(detail)[:400], want=repr(want)[:400]), case)

    def small_request(self, r, tag):
        return {"code": r.choice([1, 2, 5]), "opts": [(11, marker(r, tag), STRING)], "outer": [], "observe": None, "payload": rbytes(r, r.choice([0, 3])), "markers": [], "proxy": None}

    def rewrite_piv(self, optv, piv, group=False):
        po = self.ref.parse_option(optv, group=group)
        return self.ref.build_option(piv, po.kid_context, po.kid, flag_or=po.flag & self.ref.GROUP_FLAG)

    def redelivery(self, sc, r, case):
        """Requests A (sequence number s), B (s + 1), C (s + 40, beyond the 32 wide window) of one client and responses to A,
        delivered to a server / client pair that keeps its state: every message once more, B with A's Partial IV written over
        its own, and - where the kind of context can be in that state - A at a receiver whose window is not initialised."""
        rep, rc = self.rep, self.rc
        p, kind = sc["params"], sc["ctxkind"]
        s0 = min(sc["seq_c"], 2**40 - 50)
        client = self.ctx(p, sc["cid"], sc["sid"], s0, kind)
        server = self.ctx(p, sc["sid"], sc["cid"], r.choice(SEQS[:-1]), kind)
        where = dict(self.describe(sc, "requests with sequence numbers s, s+1, s+40 delivered in turn, replay window kept"), context_kind=kind, s=s0)
        sig = ("redelivery", p.alg, kind, len(sc["cid"]), len(sc["sid"]), sc["idctx_class"], len(uint_raw(s0)))
        ctxname = {"edhoc-style": "EdhocStyleContext", "declared-none": "ContextDeclaringNone", "echo-bytes": "ContextWithEchoValue"}[kind]
        msgs = {}
        try:
            for name, seq in (("A", s0), ("B", s0 + 1), ("C", s0 + 40)):
                client.sender_sequence_number = seq
                spec = self.small_request(r, name)
                outer, rid_c = client.protect(self.build(spec), kid_context=sc["send_kc"])
                base = rc.parse(self.to_wire(outer, 0, sc["mid"], sc["token"]))
                msgs[name] = {"base": base, "optv": rc.opt1(base, 9), "ct": base.payload, "rid_c": rid_c, "want": self.expected_inner(spec)}
        except Exception as e:
            rep.count("redelivery_setup_failed/" + type(e).__name__)
            return
        A, B, C = msgs["A"], msgs["B"], msgs["C"]
        J = lambda step, demand, res, want, ctx=server, **wit: self.judge_delivery("", "redelivery" if demand != "original" else "redelivery_control", step, demand, res[0], res[1], want, ctx, ctxname, sig, where, case, **wit)
        W = lambda x, optv=None: self.g_wire(x["base"], x["optv"] if optv is None else optv, x["ct"])
        first = self.deliver(server, W(A), None)
        J("first-delivery", "original", first, A["want"], option=A["optv"].hex())
        if first[0] != "accepted":
            return
        J("second-delivery-of-a-request", "either", self.deliver(server, W(A), None), A["want"], option=A["optv"].hex())
        J("partial-iv-rewritten-to-a-used-value", "fail", self.deliver(server, W(B, self.rewrite_piv(B["optv"], rc_piv(self.ref, A["optv"]))), None), B["want"], option=self.rewrite_piv(B["optv"], rc_piv(self.ref, A["optv"])).hex(), genuine_option=B["optv"].hex(), used_option=A["optv"].hex())
        J("fresh-request-after-refused-ones", "original", self.deliver(server, W(B), None), B["want"], option=B["optv"].hex())
        J("second-delivery-of-a-request", "either", self.deliver(server, W(B), None), B["want"], option=B["optv"].hex())
        J("fresh-request-beyond-the-window", "original", self.deliver(server, W(C), None), C["want"], option=C["optv"].hex())
        J("delivery-of-a-request-older-than-the-window", "either", self.deliver(server, W(A), None), A["want"], option=A["optv"].hex())
        J("partial-iv-rewritten-to-a-value-older-than-the-window", "fail", self.deliver(server, W(C, self.rewrite_piv(C["optv"], rc_piv(self.ref, A["optv"]))), None), C["want"], option=self.rewrite_piv(C["optv"], rc_piv(self.ref, A["optv"])).hex(), genuine_option=C["optv"].hex())
        # responses to A, each delivered twice to the client (a notification may legitimately arrive again; there is no window for responses)
        for label in ("response-reuse", "response-ownpiv"):
            spec = {"code": 69, "opts": [(12, 0, UINT)], "outer": [], "observe": None, "payload": marker(r, "R").encode(), "markers": [], "proxy": None}
            try:
                outer, _ = server.protect(self.build(spec), first[2])
                base = rc.parse(self.to_wire(outer, 2, sc["mid"], sc["token"]))
            except Exception as e:
                rep.count("redelivery_response_setup_failed/" + type(e).__name__)
                continue
            x = {"base": base, "optv": rc.opt1(base, 9), "ct": base.payload}
            J("first-delivery-of-a-" + label, "original", self.deliver(client, W(x), A["rid_c"]), self.expected_inner(spec), ctx=client, option=x["optv"].hex())
            J("second-delivery-of-a-" + label, "either", self.deliver(client, W(x), A["rid_c"]), self.expected_inner(spec), ctx=client, option=x["optv"].hex())
        # a receiver that has lost its replay window (Appendix B.1): contexts made for that state only
        if kind != "edhoc-style":
            lost = self.ctx(p, sc["sid"], sc["cid"], 0, kind)
            lost.recipient_replay_window = self.o.ReplayWindow(32, lambda: None)
            J("request-at-a-receiver-without-replay-window", "either", self.deliver(lost, W(A), None), A["want"], ctx=lost, option=A["optv"].hex())
            J("request-at-a-receiver-without-replay-window", "either", self.deliver(lost, W(B), None), B["want"], ctx=lost, option=B["optv"].hex())

    # -- one scenario ---------------------------------------------------------------------------------
    def scenario(self, seed, gi, case):
        rep, ref = self.rep, self.ref
        r = random.Random("c11/%d/%d" % (seed, gi))
        alg = self.algs[gi % len(self.algs)]
        maxid = ref.ALGS[alg][3] - 6
        cid, sid = gen_ids(r, maxid, gi)
        idctx = gen_idctx(r, gi)
        hashname = "sha256" if r.random() < 0.85 else r.choice(["sha384", "sha512"])
        secret = rbytes(r, r.choice([16, 16, 16, 1, 32, 64]))
        salt = r.choice([None, b"", rbytes(r, 8), rbytes(r, 8), rbytes(r, 32)])
        p = ref.Params(alg, hashname, secret, salt, idctx)
        seq_c = SEQS[(gi // 12) % len(SEQS)] if r.random() < 0.7 else r.choice(SEQS + [r.randrange(2**40 - 1)])
        seq_s = SEQS[(gi // 5) % len(SEQS)] if r.random() < 0.7 else r.choice(SEQS)
        sc = {
            "params": p, "cid": cid, "sid": sid, "seq_c": seq_c, "mid": r.randrange(65536), "token": rbytes(r, r.randrange(0, 9)),
            "idctx_class": "none" if idctx is None else len(idctx), "send_kc": True if (idctx is None or r.random() < 0.7) else False,
            # which of the library's kinds of two-party context the pair is modelled on (they differ in what they say about Appendix B.1.2)
            "ctxkind": CTX_KINDS[(gi + gi // 16) % len(CTX_KINDS)],
        }
        rx = random.Random("c11x/%d/%d" % (seed, gi))  # the dimensions added later draw from their own stream
        rep.seen("alg_x_idlens", "%s/%d/%d" % (alg, len(cid), len(sid)))
        rep.seen("alg_x_seq_x_idctx", "%s/%d/%s" % (alg, seq_c if seq_c in SEQS else -1, sc["idctx_class"]))
        rep.seen("alg_x_ctxkind", "%s/%s" % (alg, sc["ctxkind"]))
        client = self.ctx(p, cid, sid, seq_c, sc["ctxkind"])
        server = self.ctx(p, sid, cid, seq_s, sc["ctxkind"])
        # a forward-proxy request in URI form and the stateful deliveries first: they stand on their own (own contexts)
        self.protect_and_check(sc, "request", self.ctx(p, cid, sid, rx.choice(SEQS), sc["ctxkind"]), gen_message(rx, True, gi, proxy=True), None, self.ctx(p, sid, cid, 0, sc["ctxkind"]), None, case, kid_context=sc["send_kc"], mtype=rx.choice([0, 1]))
        self.redelivery(sc, rx, case)
        req_spec = gen_message(r, True, gi)
        t1 = self.protect_and_check(sc, "request", client, req_spec, None, server, None, case, kid_context=sc["send_kc"], mtype=r.choice([0, 1]))
        if gi < 3 * 16:
            rep.sample({"alg": alg, "client_id": cid.hex(), "server_id": sid.hex(), "id_context": None if idctx is None else idctx[:16].hex(), "seq": seq_c,
                        "request": repr({k: req_spec[k] for k in ("code", "opts", "outer", "observe")})[:300], "payload_len": len(req_spec["payload"]), "wire": None if t1 is None else t1["wire"][:80].hex()})
        if t1 is None or t1["genuine"] is None or t1["rid_in"] is None:
            return
        targets = [t1]
        rid_s = t1["rid_in"]
        if rid_s.can_reuse_nonce is not True:
            rep.count("request_id_not_reusable")
        for label in ("response-reuse", "response-ownpiv"):
            spec = gen_message(r, False, gi + len(targets))
            t = self.protect_and_check(sc, label, server, spec, rid_s, client, t1["rid_out"], case, mtype=r.choice([2, 0, 1]))
            if t is None:
                continue
            if (t["opt"].piv is not None) != (label == "response-ownpiv"):
                rep.count("nonce_mode_unexpected/" + label)
            if t["genuine"] is not None:
                targets.append(t)
        # a second request of the same client, for splicing ciphertexts between messages
        try:
            o2, _ = client.protect(self.build(gen_message(r, True, gi + 7)), kid_context=sc["send_kc"])
            other_req_ct = bytes(o2.payload)
        except Exception:
            other_req_ct = None
        for t in targets:
            if t["is_request"]:
                other = other_req_ct
            else:
                other = next((x["ct"] for x in targets[1:] if x is not t), None)
            self.tamper(t, r, case, other)
            self.foreign(sc, t, r, case)
        self.binding(sc, r, case)

    # ================================================================================ Group OSCORE
    # Members of an OSCORE group hold matching contexts too (SimpleGroupContext and its aspects): the
    # same four clauses are judged for group mode (countersigned) and pairwise mode messages.

    def g_probe(self, genv):
        """Which countersignature algorithms this environment can run (one library-generated key pair each)."""
        o, rep, ref = self.o, self.rep, self.ref
        self.gkinds, self.gsig, self.gss, self.genc_extra = [], {}, {}, []
        want = {
            "EdDSA": ("EdDSA on Ed25519", "ECDH-SS + HKDF-256", genv["ed25519"] and genv["x25519_conversion"]),
            "ES256": ("ECDSA w/ SHA-256 on P-256", None, genv["p256"]),
        }
        for kind, (signame, ssname, usable) in want.items():
            if not usable:
                rep.seen("group_sigalgs_unusable", "%s: environment" % kind)
                continue
            alg = o.algorithms_countersign.get(signame)
            ss = o.algorithms_staticstatic.get(ssname) if ssname else alg
            if alg is None or not isinstance(ss, o.AlgorithmStaticStatic):
                rep.seen("group_sigalgs_unusable", "%s: not in oscore.algorithms_countersign / algorithms_staticstatic" % kind)
                continue
            if (alg.value, alg.signature_length) != ref.SIGN_ALGS[kind][:2]:
                rep.violation("group/ref/algorithm-parameters-differ", "countersignature algorithm entry differs from the COSE registry", {"alg": signame, "aiocoap": [alg.value, alg.signature_length], "cose": list(ref.SIGN_ALGS[kind][:2])}, ["probe"])
                continue
            try:
                priv, ccs = alg.generate_with_ccs()
                if alg.from_kccs(ccs) != alg.public_from_private(priv):
                    rep.count("group_generate_with_ccs_public_key_differs/" + kind)
                sig = alg.sign(b"body", b"aad", priv)
                alg.verify(sig, b"body", b"aad", alg.public_from_private(priv))
            except Exception as e:
                rep.seen("group_sigalgs_unusable", "%s: %s" % (kind, type(e).__name__))
                continue
            rep.seen("group_sigalgs_exercised", signame)
            self.gkinds.append(kind)
            self.gsig[kind], self.gss[kind] = alg, ss
        cbc = o.algorithms.get("A128CBC")
        if cbc is not None and "A128CBC" in ref.ENC_ALGS:
            try:
                assert cbc.decrypt(cbc.encrypt(b"probe", b"", b"\x01" * 16, b"\x02" * 16), b"", b"\x01" * 16, b"\x02" * 16) == b"probe"
                assert (cbc.value, cbc.key_bytes, cbc.tag_bytes, cbc.iv_bytes) == ref.ENC_ALGS["A128CBC"]
                self.genc_extra.append("A128CBC")
            except Exception as e:
                rep.seen("algorithms_unsupported_by_cryptography", "A128CBC: %s" % type(e).__name__)

    def g_keypair(self, r, kind, lib_generated=False):
        ref = self.ref
        if lib_generated:
            priv, cred = self.gsig[kind].generate_with_ccs()
            refpriv = priv if kind == "EdDSA" else priv.private_numbers().private_value
            return {"priv": priv, "refpriv": refpriv, "pub": ref.g_public(kind, refpriv), "cred": cred, "origin": "generate_with_ccs"}
        if kind == "EdDSA":
            refpriv = priv = rbytes(r, 32)
        else:
            refpriv = r.getrandbits(256) % (ref.P256_ORDER - 1) + 1
            priv = ref._p256_private(refpriv)
        pub = ref.g_public(kind, refpriv)
        return {"priv": priv, "refpriv": refpriv, "pub": pub, "cred": ref.g_ccs(kind, pub, r.choice([None, None, "", marker(r, "m")])), "origin": "seeded"}

    def g_group(self, sc, i, gp=None, creds=None, me=None):
        """The SimpleGroupContext of member i. gp / creds ({member index: credential}) / me (key pair) override for foreign contexts."""
        o = self.o
        gp = gp or sc["gp"]
        kind, members = sc["kind"], sc["members"]
        own = me or members[i]
        peers = {m["id"]: (creds or {}).get(j, m["cred"]) for j, m in enumerate(members) if j != i}
        if sc.get("det") is not None:
            peers[sc["det"]["id"]] = o.DETERMINISTIC_KEY
        return o.SimpleGroupContext(
            o.algorithms[gp.alg_aead], o.hashfunctions[gp.hashname], self.gsig[kind], o.algorithms[gp.alg_group_enc], self.gss[kind],
            gp.group_id, gp.secret, gp.salt, members[i]["id"], own["priv"], own["cred"], peers, gp.gm_cred,
        )

    def g_aspect(self, G, peer_id, mode):
        """The receiving aspect of group context G for messages of `peer_id` in the given mode, through the public API."""
        o = self.o
        if mode == "pairwise":
            return G.pairwise_for(peer_id)
        if mode == "deterministic":
            return G.get_oscore_context_for({o.COSE_KID: peer_id, o.COSE_KID_CONTEXT: G.id_context})
        return G.context_from_response({o.COSE_KID: peer_id, o.COSE_COUNTERSIGNATURE0: o.PRESENT_BUT_NO_VALUE_YET})

    def g_describe(self, sc, label):
        gp = sc["gp"]
        hx = lambda b: None if b is None else b.hex()
        return {
            "group": {"alg_aead": gp.alg_aead, "alg_group_enc": gp.alg_group_enc, "alg_signature": gp.alg_sign, "hash": gp.hashname, "master_secret": gp.secret.hex(),
                      "master_salt": hx(gp.salt), "group_id": gp.group_id.hex(), "gm_cred": gp.gm_cred.hex()},
            "members": [{"sender_id": m["id"].hex(), "credential": m["cred"].hex(), "private_key": m["refpriv"].hex() if isinstance(m["refpriv"], bytes) else "%x" % m["refpriv"], "key_origin": m["origin"]} for m in sc["members"]],
            "flow": "%s request -> %s response" % sc["flow"], "client": sc["ci"], "server": sc["si"], "third": sc["ti"], "message": label,
            "deterministic_client_id": None if sc.get("det") is None else sc["det"]["id"].hex(),
        }

    def g_wire(self, base, optv, ct):
        rc = self.rc
        options = tuple((n, v) for n, v in base.options if n != 9)
        if optv is not None:
            options += ((9, optv),)
        wire = rc.encode(rc.Msg(base.type, base.code, base.mid, base.token, options, ct))
        try:
            return self.Message.decode(wire)
        except Exception as e:  # the harness built something the codec refuses: not an OSCORE verdict
            self.rep.count("harness_wire_not_decodable/" + type(e).__name__)
            return None

    def g_run(self, t, m, how, ctx=None):
        """One unprotection of the decoded message m at the receiver of target t.
        how: "dispatch" = the library's own context selection (verify_start + get_oscore_context_for for
        requests, the requesting context's context_from_response for responses), "direct" = the aspect that
        unprotected the genuine message (what transports/oscore.py keeps using for later notifications),
        "given" = ctx (third member / foreign context).  -> (outcome, detail, ctx, request id)"""
        o = self.o
        for G in t["reset"]:
            for w in G.recipient_replay_windows.values():
                w.initialize_empty()
        rid = self.copy.copy(t["receiver_rid"]) if t["receiver_rid"] is not None else None
        try:
            if how == "direct":
                ctx = t["receiver"]
            elif how == "dispatch":
                bag = o.verify_start(m)
                if t["is_request"]:
                    ctx = t["recv_group"].get_oscore_context_for(bag)
                    if ctx is None:
                        return "rejected", "no-context", None, None
                else:
                    ctx = t["reqctx"].context_from_response(bag)
            if isinstance(ctx, self.MemCtx):
                ctx.recipient_replay_window.initialize_empty()
            inner, rid_out = ctx.unprotect(m, rid)
        except o.ReplayError as e:
            # the replay window of a deterministic request's aspect accepts sequence number 0 only and cannot be re-initialised
            if not (t.get("mode") == "deterministic" and t["is_request"]):
                self.rep.inconc("a group message was rejected as a replay although the windows were re-initialised: %r" % (e,))
            return "rejected", e, ctx, None
        except o.ProtectionInvalid as e:
            return "rejected", e, ctx, None
        except o.NotAProtectedMessage as e:
            return "not-protected", e, ctx, None
        except Exception as e:
            return "escape", e, ctx, None
        return "accepted", self.fields(inner), ctx, rid_out

    def g_escape_mechanism(self, exc, t, optv, how, ctx, m_options=()):
        ref = self.ref
        name = type(exc).__name__
        f = optv[0] if optv else 0
        cls = type(ctx).__name__.strip("_") if ctx is not None else "no-context"
        try:
            o = ref.parse_option(optv, group=True) if optv is not None else None
        except ref.RefError:
            o = None
        peers = ({m["id"] for m in t["members"]} | {t.get("det_id")}) - {t["recv_sender_id"]}
        if name == "KeyError" and o is not None and o.kid is not None and o.kid not in peers:
            return "kid-not-a-peer-of-the-receiver/%s" % how
        if t.get("det_id") is not None and o is not None and o.kid == t["det_id"] and f & 0x20 and cls == "GroupContextAspect":
            return "group-flag-with-kid-of-the-deterministic-client/%s" % how
        if name == "AttributeError" and f & 0x20 and not t["group_mode"]:
            return "group-flag-on-%s" % cls
        if how == "direct" and t["group_mode"] and optv is not None and not f & 0x20:
            return "group-flag-cleared-on-%s" % cls
        if t["mode"] == "deterministic" and t["is_request"] and REQUEST_HASH not in [n for n, _v in m_options]:
            return "request-hash-missing"
        tb = exc.__traceback__
        fn = "unknown"
        while tb is not None:
            co = tb.tb_frame.f_code
            if "aiocoap" in co.co_filename:
                fn = co.co_name
            tb = tb.tb_next
        return "in-%s/%s" % (fn, cls)

    # -- protect + genuine path for group members ------------------------------------------------------
    def g_protect_and_check(self, sc, label, mode, sender_ctx, si, ri, spec, protect_rid, receiver_rid, reqctx, recv_group, case, mtype=0):
        """si / ri: member indexes of sender and receiver; reqctx: for a response, the context the receiver had
        protected its request with; recv_group: the receiver's SimpleGroupContext."""
        rep, rc, ref = self.rep, self.rc, self.ref
        is_request = protect_rid is None
        gp, kind, members = sc["gp"], sc["kind"], sc["members"]
        S, R = (members[si] if isinstance(si, int) else si), members[ri]  # si: a member index or the deterministic client
        where = self.g_describe(sc, "%s (%s mode)" % (label, mode))
        try:
            msg = self.build(spec)
        except Exception as e:
            rep.count("harness_build_failed/" + type(e).__name__)
            return None
        pu = spec.get("proxy")
        if pu is not None:
            rep.monitor("group_proxy_uri_request")
        try:
            if is_request:
                outer, rid_out = sender_ctx.protect(msg)
            else:
                outer, rid_out = sender_ctx.protect(msg, protect_rid)
            wire = self.to_wire(outer, mtype, sc["mid"], sc["token"])
        except Exception as e:
            if self.proxy_refusal(pu, e):
                return None
            rep.violation("group/roundtrip/protect-raises/" + type(e).__name__ + ("/proxy-uri-request" if pu is not None else ""), "protect()/encode() raised %s for an ordinary %s in %s mode%s" % (type(e).__name__, label, mode, " that carries a Proxy-Uri option" if pu is not None else ""),
                          dict(where, spec=repr(spec)[:600], tb=rep.exception_witness(e)), case)
            return None
        if pu is not None:
            rep.monitor("group_proxy_uri_roundtrip")
        base = rc.parse(wire)
        expected = self.expected_inner(spec)
        optset = tuple(sorted({n for n, _v in expected[1]}))
        # ---- hiding
        # (the Request-Hash of a deterministic request is an outer option by construction: a hash over key, AAD and plaintext)
        if not self.hiding("group_hide", "group/hide/", where, spec, wire, base, is_request, case, extra_outer=(REQUEST_HASH,) if mode == "deterministic" else ()):
            return None
        optv, ct = rc.opt1(base, 9), base.payload
        # ---- independent reading of the option and of the protection
        rep.monitor("group_ref_decrypt")
        try:
            po = ref.parse_option(optv, group=True)
        except ref.RefError as e:
            rep.violation("group/ref/option-undecodable", "protect() produced an OSCORE option that cannot be decoded: %s" % e, dict(where, option=optv.hex()), case)
            return None
        if bool(po.flag & ref.GROUP_FLAG) != (mode == "group"):
            rep.violation("group/ref/group-flag-unexpected", "a %s mode %s has the group flag %s" % (mode, label, "set" if po.flag & ref.GROUP_FLAG else "clear"), dict(where, option=optv.hex()), case)
        if is_request:
            if po.kid != S["id"]:
                rep.violation("group/ref/request-kid-not-sender-id", "request carries kid %r" % (po.kid,), dict(where, option=optv.hex()), case)
            if po.kid_context != gp.group_id:
                rep.violation("group/ref/request-kid-context-not-group-id", "request carries kid context %r" % (po.kid_context,), dict(where, option=optv.hex()), case)
        req_kid, req_piv = (S["id"], po.piv) if is_request else (protect_rid.kid, protect_rid.partial_iv)
        nonce_id, nonce_piv = (S["id"], po.piv) if po.piv is not None else (req_kid, req_piv)
        pt, why, used = None, "no Partial IV", None
        rh = getattr(protect_rid, "request_hash", None)  # a response to a deterministic request carries its hash as Class I option in the AAD
        class_i = ref.class_i_request_hash(rh) if rh is not None else b""
        if nonce_piv is not None:
            for pv in sc["pairwise_values"]:
                try:
                    if mode == "group":
                        pt, why = ref.g_open_group(gp, pv, is_request, S["id"], S["cred"], S["pub"], nonce_id, nonce_piv, req_kid, req_piv, optv, ct, class_i)
                    elif mode == "deterministic":
                        hashes = [v for n, v in base.options if n == REQUEST_HASH]
                        if len(hashes) != 1:
                            why = "%d Request-Hash options" % len(hashes)
                            break
                        pt, why = ref.g_open_deterministic(gp, pv, S["id"], nonce_piv, optv, hashes[0], ct)
                    else:
                        shared = ref.g_shared_secret(kind, R["refpriv"], S["pub"])
                        pt, why = ref.g_open_pairwise(gp, pv, S["id"], S["cred"], R["cred"], shared, nonce_id, nonce_piv, req_kid, req_piv, optv, ct)
                except ref.RefError as e:
                    why = str(e)
                    rep.count("ref_inadmissible/" + why[:40])
                if pt is not None:
                    used = pv
                    break
        if pt is None:
            rep.violation("group/ref/%s-mode-%s-not-openable-by-draft-construction" % (mode, "request" if is_request else "response"), "the message does not verify under keys / nonce / AAD / countersignature built independently from draft-ietf-core-oscore-groupcomm: %s" % why,
                          dict(where, option=optv.hex(), payload=ct[:120].hex(), payload_len=len(ct), request_kid=req_kid.hex(), request_piv=None if req_piv is None else req_piv.hex()), case)
        else:
            rep.count("group_ref_pairwise_alg_value/%s/%d" % (kind, used))
            try:
                got_pt = ref.split_plaintext(pt)
                got_pt = (got_pt[0], list(got_pt[1]), got_pt[2])
            except Exception as e:
                got_pt = ("unparsable", repr(e))
            if got_pt != expected:
                rep.violation("group/ref/plaintext-differs", "the decrypted plaintext is not code + Class E options + payload of the original", dict(where, want=repr(expected)[:500], got=repr(got_pt)[:500]), case)
        # ---- round trip through the wire and through the library's own context selection
        base_sig = ("group", label, mode, kind, gp.alg_aead, gp.alg_group_enc, len(S["id"]), len(R["id"]), len(gp.group_id), piv_len_class(po), spec["code"], optset, size_class(len(spec["payload"])))
        t = {
            "label": label, "is_request": is_request, "group_mode": mode == "group", "mode": mode, "wire": wire, "base": base, "opt": po, "optv": optv, "ct": ct,
            "receiver": None, "receiver_rid": receiver_rid, "reqctx": reqctx, "recv_group": recv_group, "reset": [recv_group], "genuine": None, "sig": base_sig,
            "rid_out": rid_out, "rid_in": None, "where": where, "spec": spec, "request_piv": req_piv, "sender": sender_ctx, "members": members,
            "recv_recipient_id": S["id"], "recv_sender_id": R["id"], "recv_id_context": gp.group_id, "si": si, "ri": ri,
            "siglen": ref.SIGN_ALGS[kind][1] if mode == "group" else 0, "tag": ref.ENC_ALGS[gp.alg_group_enc if mode == "group" else gp.alg_aead][2],
            "group_enc_tag": ref.ENC_ALGS[gp.alg_group_enc][2], "aead_tag": ref.ENC_ALGS[gp.alg_aead][2], "det_id": None if sc.get("det") is None else sc["det"]["id"],
        }
        m = self.g_wire(base, optv, ct)
        if m is None:
            rep.violation("group/roundtrip/outer-not-decodable", "Message.decode refuses the encoded outer message", dict(where, wire=wire[:300].hex()), case)
            return None
        outcome, detail, ctx, rid_in = self.g_run(t, m, "dispatch")
        rep.monitor("group_roundtrip")
        rep.monitor("group_mode_" + mode)
        rep.monitor("group_sigalg_" + kind)
        rep.case((base_sig, "genuine", outcome if outcome != "accepted" else ("ok" if detail == expected else "differs")), nontrivial=True)
        if outcome != "accepted":
            what = "no context found by get_oscore_context_for" if detail == "no-context" else repr(detail)
            key = "group/roundtrip/%s-mode-%s-not-unprotected/%s" % (mode, label, type(detail).__name__ if isinstance(detail, BaseException) else "no-context")
            if mode == "group" and "too short" in str(detail) and t["group_enc_tag"] < t["aead_tag"] and t["group_enc_tag"] + 1 <= len(ct) - t["siglen"] < t["aead_tag"] + 1:
                key = "group/roundtrip/group-mode-message-rejected-as-too-short-for-the-tag-of-alg_aead"
            rep.violation(key,
                          "a genuine %s in %s mode is not unprotected by the addressed member: %s" % (label, mode, what),
                          dict(where, option=optv.hex(), payload=ct[:120].hex(), tb=rep.exception_witness(detail) if isinstance(detail, BaseException) else None), case)
            return t
        want_cls = {"group": "_GroupContextAspect", "pairwise": "_PairwiseContextAspect", "deterministic": "_DeterministicUnprotectProtoAspect"}[mode]
        if type(ctx).__name__ != want_cls:
            rep.count("group_receiving_context_class/%s/%s" % (mode, type(ctx).__name__))
        t["receiver"], t["rid_in"] = ctx, rid_in
        if detail != expected:
            diff = "code" if detail[0] != expected[0] else ("payload" if detail[2] != expected[2] else "options")
            rep.violation("group/roundtrip/%s-mode-%s-%s-differ" % (mode, label, diff), "unprotect(protect(m)) differs from m in %s" % diff, dict(where, want=repr(expected)[:600], got=repr(detail)[:600]), case)
            return t
        t["genuine"] = detail
        return t

    # -- tampering with group messages ---------------------------------------------------------------------
    def g_settle(self, t, family, manip, field, optv, ct, case, hows=("direct", "dispatch"), base=None):
        """base: the outer message with a manipulated Request-Hash option (deterministic requests only)"""
        rep, ref = self.rep, self.ref
        if optv == t["optv"] and ct == t["ct"] and base is None:
            return
        verdict, reason = judge(ref, t["recv_recipient_id"], t["recv_id_context"], t["is_request"], t["opt"], t["ct"], optv, ct, group=True)
        if base is not None:
            verdict, reason = "must_fail", "request-hash-changed"
        m = self.g_wire(base or t["base"], optv, ct)
        if m is None:
            return
        for how in hows:
            outcome, detail, ctx, _rid = self.g_run(t, m, how)
            rep.monitor(family)
            if reason.startswith("noncanonical-option-encoding/"):
                rep.monitor("group_tamper_noncanonical")
            rep.case((t["sig"], manip, field, verdict, outcome, how), nontrivial=True)

            def wit(**kw):
                w = dict(t["where"], manipulation=manip, field=field, unprotected_through=how, receiving_context=type(ctx).__name__, expectation=verdict + ": " + reason, genuine_option=t["optv"].hex(),
                         genuine_payload=t["ct"][:160].hex(), genuine_payload_len=len(t["ct"]), option=None if optv is None else optv.hex(), payload=ct[:160].hex(), payload_len=len(ct),
                         request_kid=None if t["receiver_rid"] is None else t["receiver_rid"].kid.hex(), request_piv=None if t["receiver_rid"] is None else t["receiver_rid"].partial_iv.hex())
                w.update(kw)
                return w

            if outcome == "escape":
                mech = self.g_escape_mechanism(detail, t, optv, how, ctx, (base or t["base"]).options)
                rep.violation("group/tamper/escape-%s/%s" % (type(detail).__name__, mech), "unprotecting a manipulated %s mode %s let %s escape instead of a protection error" % (t["mode"], t["label"], type(detail).__name__), wit(exc=repr(detail), tb=rep.exception_witness(detail)), case)
                continue
            if outcome == "rejected":
                rep.count("rejected/" + (type(detail).__name__ if isinstance(detail, BaseException) else str(detail)))
                continue
            if outcome == "not-protected":
                if optv is not None:
                    rep.violation("group/tamper/not-a-protected-message-with-option-present", "NotAProtectedMessage although an OSCORE option is present", wit(), case)
                continue
            same = detail == t["genuine"]
            if verdict == "must_fail":
                rep.violation("group/tamper/accepted-%s/%s/%s-mode" % ("original" if same else "DIFFERENT-MESSAGE", reason, t["mode"]), "unprotection yielded %s for a %s mode %s whose %s" % ("the original message" if same else "a different message", t["mode"], t["label"], reason), wit(got=repr(detail)[:400]), case)
            elif not same:
                rep.violation("group/tamper/neutral-manipulation-yields-different-message", "a semantically neutral re-encoding of the option made unprotection return a different message", wit(got=repr(detail)[:400], want=repr(t["genuine"])[:400]), case)
            else:
                rep.count("group_neutral_accepted/" + manip)

    def g_payload_bits(self, r, t):
        """Selected single-bit positions of ciphertext | tag | encrypted countersignature -> [(bit, region)]"""
        n, siglen, tag = len(t["ct"]), t["siglen"], t["tag"]
        body_end = n - siglen
        regions = {}
        for i in range(min(3, body_end)):
            regions[i] = "body"
        for i in range(max(0, body_end - tag), body_end):
            if i < body_end - tag + 2 or i >= body_end - 2:
                regions[i] = "tag"
        if tag == 0 and body_end:
            regions[body_end - 1] = "body-last-block"
        if siglen:
            for i in (0, 1, 2, siglen // 2 - 1, siglen // 2, siglen - 3, siglen - 2, siglen - 1):
                regions[body_end + i] = "signature"
        out = [(i * 8 + b, reg) for i, reg in sorted(regions.items()) for b in range(8)]
        seen = {x for x, _ in out}
        for _ in range(32):
            bit = r.randrange(n * 8)
            if bit not in seen:
                seen.add(bit)
                out.append((bit, "signature" if bit // 8 >= body_end else ("tag" if bit // 8 >= body_end - tag else "body")))
        return out

    def g_option_edits(self, r, t, sc):
        """Group-specific field edits on top of option_edits()."""
        ref = self.ref
        po = t["opt"]
        gf = po.flag & ref.GROUP_FLAG

        class B:  # option_edits() composes through .build_option; keep this message's group flag
            @staticmethod
            def build_option(piv=None, kid_context=None, kid=None, flag_or=0, n=None):
                return ref.build_option(piv, kid_context, kid, flag_or=flag_or | gf, n=n)

        maxid = sc["maxid"]
        for name, ov in option_edits(r, B, po, t["recv_recipient_id"], t["recv_sender_id"], t["recv_id_context"], t["request_piv"] if not t["is_request"] else None, maxid):
            yield name, ov, t["ct"]
        optv, ct = t["optv"], t["ct"]
        toggled = bytes([optv[0] ^ ref.GROUP_FLAG]) + optv[1:]
        if gf:
            yield "group-flag-cleared", toggled, ct
            yield "group-flag-cleared-signature-stripped", toggled, ct[: -t["siglen"]]
        else:
            yield "group-flag-set", toggled, ct
            yield "group-flag-set-zero-signature-appended", toggled, ct + b"\0" * ref.SIGN_ALGS[sc["kind"]][1]
            yield "group-flag-set-random-signature-appended", toggled, ct + rbytes(r, ref.SIGN_ALGS[sc["kind"]][1])
        others = [m["id"] for m in sc["members"] if m["id"] not in (t["recv_recipient_id"], t["recv_sender_id"])]
        for oid in others[:2]:
            yield "kid-replaced-by-other-member", B.build_option(po.piv, po.kid_context, oid), ct
        yield "kid-replaced-by-receivers-own-id", B.build_option(po.piv, po.kid_context, t["recv_sender_id"]), ct
        known = {m["id"] for m in sc["members"]}
        for _ in range(20):
            nid = rbytes(r, r.randrange(0, maxid + 1))
            if nid not in known:
                yield "kid-replaced-by-non-member", B.build_option(po.piv, po.kid_context, nid), ct
                break
        if po.kid_context is not None:
            yield "kidctx-replaced-by-other-group", B.build_option(po.piv, sc["other_group_id"], po.kid), ct

    def g_payload_edits(self, r, t, other_ct):
        ct, siglen, tag = t["ct"], t["siglen"], t["tag"]
        for name, c2 in ciphertext_edits(r, ct, siglen or max(tag, 1), other_ct):
            yield name, c2
        if siglen:
            body, sig = ct[:-siglen], ct[-siglen:]
            yield "signature-zeroed", body + b"\0" * siglen
            yield "signature-random", body + rbytes(r, siglen)
            yield "signature-removed", body
            yield "signature-only", sig
            yield "signature-doubled", ct + sig
            yield "signature-halves-swapped", body + sig[siglen // 2 :] + sig[: siglen // 2]
            yield "signature-shortened-by-one", ct[:-1]
            yield "body-byte-inserted-before-signature", body + b"\0" + sig
            yield "body-last-byte-dropped", body[:-1] + sig
            if other_ct is not None and len(other_ct) > siglen and other_ct != ct:
                yield "signature-spliced-from-other-message", body + other_ct[-siglen:]
                yield "body-spliced-from-other-message", other_ct[:-siglen] + sig

    def g_tamper(self, sc, t, r, case, other_ct):
        optv, ct = t["optv"], t["ct"]
        for bit in range(len(optv) * 8):
            self.g_settle(t, "group_tamper_bitflip_option", "flip-option-bit", option_field_of_byte(t["opt"], optv, bit // 8) + (".bit%d" % (bit % 8) if bit < 8 else ""), flip(optv, bit), ct, case)
        for k, (bit, region) in enumerate(self.g_payload_bits(r, t)):
            self.g_settle(t, "group_tamper_bitflip_payload", "flip-payload-bit", region, optv, flip(ct, bit), case, hows=("direct", "dispatch") if k % 16 == 0 else ("direct",))
        for name, ov, c2 in self.g_option_edits(r, t, sc):
            self.g_settle(t, "group_tamper_field", name, "option", ov, c2, case)
        for k in range(len(optv)):
            self.g_settle(t, "group_tamper_field", "option-truncated", option_field_of_byte(t["opt"], optv, k), optv[:k], ct, case)
        self.g_settle(t, "group_tamper_field", "option-removed", "option", None, ct, case)
        for name, c2 in self.g_payload_edits(r, t, other_ct):
            self.g_settle(t, "group_tamper_field", name, "payload", optv, c2, case, hows=("direct",))
        self.g_settle(t, "group_tamper_field", "flip-both", "option+payload", flip(optv, r.randrange(len(optv) * 8)), flip(ct, r.randrange(len(ct) * 8)), case)
        if t["mode"] == "deterministic" and t["is_request"]:
            base = t["base"]
            rh = self.rc.opt1(base, REQUEST_HASH)
            rest = tuple((n, v) for n, v in base.options if n != REQUEST_HASH)
            edits = [("request-hash-removed", rest), ("request-hash-emptied", rest + ((REQUEST_HASH, b""),)), ("request-hash-truncated", rest + ((REQUEST_HASH, rh[:-1]),)),
                     ("request-hash-extended", rest + ((REQUEST_HASH, rh + b"\0"),)), ("request-hash-zeroed", rest + ((REQUEST_HASH, b"\0" * len(rh)),))]
            if sc.get("other_request_hash") not in (None, rh):
                edits.append(("request-hash-of-another-request", rest + ((REQUEST_HASH, sc["other_request_hash"]),)))
            for bit in sorted({0, 7, 8, len(rh) * 8 - 1} | {r.randrange(len(rh) * 8) for _ in range(12)}):
                edits.append(("flip-request-hash-bit", rest + ((REQUEST_HASH, flip(rh, bit)),)))
            for name, options in edits:
                self.g_settle(t, "group_tamper_field", name, "request-hash", optv, ct, case, base=base._replace(options=options))

    # -- other members, other groups, other keys ---------------------------------------------------------------
    def g_third_member(self, sc, t, groups, rid_third, case):
        """Group mode is readable by every member: the third member must obtain the same message (clause 1);
        pairwise mode is for one member only: the third member is a foreign context (clause 4)."""
        rep = self.rep
        G3 = groups[sc["ti"]]
        m = self.g_wire(t["base"], t["optv"], t["ct"])
        if m is None or (not t["is_request"] and rid_third is None):
            return
        t3 = dict(t, recv_group=G3, reset=[G3], receiver_rid=rid_third if not t["is_request"] else None)
        try:
            ctx = self.g_aspect(G3, t["recv_recipient_id"], t["mode"])
        except Exception as e:
            rep.violation("group/third-member/aspect-raises/" + type(e).__name__, "a member cannot create its %s mode aspect for another member" % t["mode"], dict(t["where"], tb=rep.exception_witness(e)), case)
            return None
        outcome, detail, _c, rid_out = self.g_run(t3, m, "given", ctx)
        rep.monitor("group_third_member")
        rep.case((t["sig"], "third-member", outcome), nontrivial=True)
        w = dict(t["where"], third_member=sc["members"][sc["ti"]]["id"].hex(), option=t["optv"].hex(), payload=t["ct"][:120].hex())
        if outcome == "escape":
            rep.violation("group/third-member/escape-%s/%s-mode" % (type(detail).__name__, t["mode"]), "unprotection at a third member let %s escape" % type(detail).__name__, dict(w, tb=rep.exception_witness(detail)), case)
        elif t["mode"] in ("group", "deterministic"):  # protected with keys every member can derive
            if outcome != "accepted" or detail != t["genuine"]:
                rep.violation("group/roundtrip/third-member-cannot-read-%s-mode-%s" % (t["mode"], t["label"]), "a group mode message is not unprotected to the original by another member of the group", dict(w, outcome=outcome, detail=repr(detail)[:300]), case)
        elif outcome == "accepted":
            rep.violation("group/foreign/accepted/pairwise-mode-read-by-third-member", "a pairwise mode %s verified under the pairwise keys of a member it was not protected for" % t["label"], dict(w, got=repr(detail)[:300]), case)
        return rid_out if outcome == "accepted" else None

    def g_foreign_variants(self, r, sc, t):
        """-> (name, receiving context) for contexts that do not match the sender's."""
        ref = self.ref
        gp, kind, ri, si = sc["gp"], sc["kind"], t["ri"], t["si"]
        sender_id, mode = t["recv_recipient_id"], t["mode"]
        A = lambda G: self.g_aspect(G, sender_id, mode)
        yield "master-secret-bit", lambda: A(self.g_group(sc, ri, gp._replace(secret=bytes([gp.secret[0] ^ 1]) + gp.secret[1:])))
        yield "master-salt-changed", lambda: A(self.g_group(sc, ri, gp._replace(salt=(gp.salt or b"") + b"x")))
        yield "group-id-other-same-keys", lambda: A(self.g_group(sc, ri, gp._replace(group_id=sc["other_group_id"])))
        yield "another-group-same-member-ids", lambda: A(self.g_group(sc, ri, gp._replace(group_id=sc["other_group_id"], secret=rbytes(r, 16), salt=rbytes(r, 8))))
        yield "group-manager-credential-other", lambda: A(self.g_group(sc, ri, gp._replace(gm_cred=gp.gm_cred + b"x")))
        if isinstance(si, int):
            other = self.g_keypair(r, kind)
            yield "sender-credential-substituted", lambda: A(self.g_group(sc, ri, creds={si: other["cred"]}))
        yield "hash-function-other", lambda: A(self.g_group(sc, ri, gp._replace(hashname="sha384" if gp.hashname == "sha256" else "sha256")))
        if mode == "group":
            nlen = ref.ENC_ALGS[gp.alg_group_enc][3]
            same = [a for a in self.algs + self.genc_extra if a != gp.alg_group_enc and ref.ENC_ALGS[a][3] == nlen]
            if same:
                alt = r.choice(same)
                yield "group-encryption-algorithm-other", lambda: A(self.g_group(sc, ri, gp._replace(alg_group_enc=alt)))
        else:
            nlen = ref.ENC_ALGS[gp.alg_aead][3]
            same = [a for a in self.algs if a != gp.alg_aead and ref.ENC_ALGS[a][3] == nlen]
            if same:
                alt = r.choice(same)
                yield "aead-algorithm-other", lambda: A(self.g_group(sc, ri, gp._replace(alg_aead=alt)))
            if mode == "pairwise":
                mine = self.g_keypair(r, kind)
                yield "receiver-key-pair-other", lambda: A(self.g_group(sc, ri, me=mine))

        def plain():
            p = ref.Params(gp.alg_aead, gp.hashname, gp.secret, gp.salt, gp.group_id)
            return self.ctx(p, t["recv_sender_id"], sender_id)

        yield "non-group-context-same-ids-and-secret", plain
        if gp.alg_group_enc != gp.alg_aead and gp.alg_group_enc in self.algs:

            def plain2():
                p = ref.Params(gp.alg_group_enc, gp.hashname, gp.secret, gp.salt, gp.group_id)
                return self.ctx(p, t["recv_sender_id"], sender_id)

            yield "non-group-context-same-ids-group-encryption-algorithm", plain2

    def g_foreign(self, sc, t, r, case):
        rep = self.rep
        m = self.g_wire(t["base"], t["optv"], t["ct"])
        if m is None:
            return
        for name, make in self.g_foreign_variants(r, sc, t):
            try:
                ctx = make()
            except Exception as e:
                rep.count("harness_foreign_ctx_failed/%s/%s" % (name, type(e).__name__))
                continue
            G = getattr(ctx, "groupcontext", None)
            t2 = dict(t, reset=[G] if G is not None else [])
            outcome, detail, _c, _rid = self.g_run(t2, m, "given", ctx)
            rep.monitor("group_foreign_context")
            rep.case((t["sig"], "foreign", name, outcome), nontrivial=True)
            w = dict(t["where"], foreign_variant=name, option=t["optv"].hex(), payload=t["ct"][:120].hex(), foreign_context=repr(ctx)[:200])
            if outcome == "escape":
                rep.violation("group/foreign/escape-%s/%s" % (type(detail).__name__, name), "unprotection under another context's keys let %s escape" % type(detail).__name__, dict(w, tb=rep.exception_witness(detail)), case)
            elif outcome == "accepted":
                rep.violation("group/foreign/accepted/%s/%s-mode" % (name, t["mode"]), "a %s mode %s verified under a context that does not match the sender's (%s) and yielded a message" % (t["mode"], t["label"], name), dict(w, got=repr(detail)[:400]), case)
            elif outcome == "not-protected":
                rep.violation("group/foreign/not-a-protected-message", "NotAProtectedMessage although an OSCORE option is present", w, case)
            else:
                rep.count("rejected/" + type(detail).__name__)

    # -- binding of group responses to their request -------------------------------------------------------------
    def g_binding(self, sc, r, case):
        """Requests of two members x two Partial IVs to the same server; every response (group / pairwise mode,
        request nonce re-used / own Partial IV) is verified with the identifiers of every request of the pool."""
        rep, rc, ref = self.rep, self.rc, self.ref
        members, si = sc["members"], sc["si"]
        req_mode = sc["flow"][0]
        sid = members[si]["id"]
        s1 = sc["seq_c"]
        s2 = r.choice([s for s in SEQS if s != s1])
        Gs = self.g_group(sc, si)
        pool = []
        for ci in (sc["ci"], sc["ti"]):
            Gc = self.g_group(sc, ci)
            reqctx = Gc if req_mode == "group" else Gc.pairwise_for(sid)
            for seq in (s1, s2):
                Gc.sender_sequence_number = seq
                spec = {"code": 1, "opts": [(11, marker(r, "B"), STRING)], "outer": [], "observe": None, "payload": b"", "markers": []}
                try:
                    outer, rid_c = reqctx.protect(self.build(spec))
                    wire = self.to_wire(outer, 0, sc["mid"], sc["token"])
                    m = self.Message.decode(wire)
                    for w in Gs.recipient_replay_windows.values():
                        w.initialize_empty()
                    asp = Gs.get_oscore_context_for(self.o.verify_start(m))
                    _inner, rid_s = asp.unprotect(m)
                except Exception as e:
                    rep.count("group_binding_pool_setup_failed/" + type(e).__name__)
                    return
                pool.append({"ci": ci, "Gc": Gc, "reqctx": reqctx, "asp": asp, "rid_c": rid_c, "rid_s": rid_s, "kid": members[ci]["id"], "piv": rid_c.partial_iv})
        for e in pool:
            for resp_mode in ("group", "pairwise"):
                rid = self.copy.copy(e["rid_s"])
                sender = Gs if resp_mode == "group" else (e["asp"].context_for_response() if req_mode == "group" else Gs.pairwise_for(e["kid"]))
                for nonce_mode in ("reuse", "ownpiv"):
                    body = marker(r, "RESP").encode()
                    spec = {"code": 69, "opts": [(12, 0, UINT)], "outer": [], "observe": None, "payload": body, "markers": []}
                    try:
                        Gs.sender_sequence_number = r.choice(SEQS)
                        outer, _ = sender.protect(self.build(spec), rid)  # the first call re-uses the request nonce, the second draws an own Partial IV
                        wire = self.to_wire(outer, 2, sc["mid"], sc["token"])
                        base = rc.parse(wire)
                        optv = rc.opt1(base, 9)
                        has_piv = ref.parse_option(optv, group=True).piv is not None
                    except Exception as ex:
                        rep.count("group_binding_response_setup_failed/" + type(ex).__name__)
                        continue
                    if has_piv != (nonce_mode == "ownpiv"):
                        rep.count("group_binding_nonce_mode_unexpected/" + nonce_mode)
                    want = self.expected_inner(spec)
                    m = self.g_wire(base, optv, base.payload)
                    if m is None:
                        continue
                    for f in pool:
                        t = {"is_request": False, "receiver_rid": f["rid_c"], "reqctx": f["reqctx"], "recv_group": f["Gc"], "reset": [f["Gc"]]}
                        outcome, detail, _ctx, _rid = self.g_run(t, m, "dispatch")
                        diff = "same-request" if f is e else "-and-".join(x for x, c in (("other-kid", f["kid"] != e["kid"]), ("other-piv", f["piv"] != e["piv"])) if c)
                        rep.case(("group-binding", sc["kind"], req_mode, resp_mode, len(e["kid"]), len(f["kid"]), len(e["piv"]), len(f["piv"]), nonce_mode, diff, outcome), nontrivial=True)
                        w = dict(self.g_describe(sc, "%s mode response (%s nonce) to a %s mode request" % (resp_mode, nonce_mode, req_mode)), option=optv.hex(), payload=base.payload[:160].hex(),
                                 answered_request=dict(kid=e["kid"].hex(), piv=e["piv"].hex()), verified_with_request=dict(kid=f["kid"].hex(), piv=f["piv"].hex()), verifying_member=f["kid"].hex())
                        if f is e:
                            rep.monitor("group_binding_control")
                            if outcome != "accepted" or detail != want:
                                rep.violation("group/binding/own-request-rejected/%s-to-%s/%s" % (req_mode, resp_mode, nonce_mode), "a response does not verify with the identifiers of the request it answers", dict(w, outcome=outcome, detail=repr(detail)[:300]), case)
                            continue
                        rep.monitor("group_binding")
                        if outcome == "accepted":
                            rep.violation("group/binding/accepted-with-foreign-request/%s-mode-response/%s-nonce/%s" % (resp_mode, nonce_mode, diff), "a response protected for one request verified with the identifiers of another request (%s)" % diff, dict(w, got=repr(detail)[:300]), case)
                        elif outcome != "rejected":
                            rep.violation("group/binding/escape-%s/%s-mode-response" % (type(detail).__name__, resp_mode), "cross-paired verification raised %s" % type(detail).__name__, dict(w, tb=rep.exception_witness(detail) if isinstance(detail, BaseException) else None), case)

    def g_binding_deterministic(self, sc, reqctx, r, case):
        """All deterministic requests carry the same kid and Partial IV; what identifies the request a response
        answers is its Request-Hash (part of the request identifiers handed from request to response processing).
        Different requests of two members; every (group mode) response is verified with the identifiers of every request."""
        rep, rc = self.rep, self.rc
        members, si = sc["members"], sc["si"]
        Gs = self.g_group(sc, si)
        pool = []
        for k, ci in enumerate((sc["ci"], sc["ci"], sc["ti"])):
            Gc = self.g_group(sc, ci)
            D = Gc.for_sending_deterministic_requests(sc["det"]["id"], None if k else reqctx.target_server)
            spec = {"code": r.choice([1, 5]), "opts": [(11, marker(r, "D%d" % k), STRING)], "outer": [], "observe": None, "payload": b"", "markers": []}
            try:
                outer, rid_c = D.protect(self.build(spec))
                m = self.Message.decode(self.to_wire(outer, 0, sc["mid"], sc["token"]))
                asp = Gs.get_oscore_context_for(self.o.verify_start(m))
                _inner, rid_s = asp.unprotect(m)
            except Exception as e:
                rep.count("group_binding_pool_setup_failed/" + type(e).__name__)
                return
            pool.append({"Gc": Gc, "reqctx": D, "asp": asp, "rid_c": rid_c, "rid_s": rid_s, "hash": bytes(rid_c.request_hash), "member": members[ci]["id"]})
        # deterministic requests are defined for safe methods; what happens to an unsafe one is counted, not judged
        try:
            outer, _ = pool[0]["reqctx"].protect(self.build({"code": r.choice([2, 3, 4]), "opts": [(11, "unsafe", STRING)], "outer": [], "observe": None, "payload": b"x", "markers": []}))
            m = self.Message.decode(self.to_wire(outer, 0, sc["mid"], sc["token"]))
            Gs.get_oscore_context_for(self.o.verify_start(m)).unprotect(m)
            rep.count("group_deterministic_unsafe_method/accepted")
        except Exception as e:
            rep.count("group_deterministic_unsafe_method/" + type(e).__name__)
        for e in pool:
            body = marker(r, "RESP").encode()
            spec = {"code": 69, "opts": [(12, 0, UINT)], "outer": [], "observe": None, "payload": body, "markers": []}
            try:
                Gs.sender_sequence_number = r.choice(SEQS)
                outer, _ = e["asp"].context_for_response().protect(self.build(spec), self.copy.copy(e["rid_s"]))
                base = rc.parse(self.to_wire(outer, 2, sc["mid"], sc["token"]))
                optv = rc.opt1(base, 9)
            except Exception as ex:
                rep.count("group_binding_response_setup_failed/" + type(ex).__name__)
                continue
            want = self.expected_inner(spec)
            m = self.g_wire(base, optv, base.payload)
            if m is None:
                continue
            for f in pool:
                t = {"is_request": False, "receiver_rid": f["rid_c"], "reqctx": f["reqctx"], "recv_group": f["Gc"], "reset": [f["Gc"]]}
                outcome, detail, _ctx, _rid = self.g_run(t, m, "dispatch")
                diff = "same-request" if f is e else "other-request-hash"
                rep.case(("group-binding-deterministic", sc["kind"], diff, outcome), nontrivial=True)
                w = dict(self.g_describe(sc, "group mode response to a deterministic request"), option=optv.hex(), payload=base.payload[:160].hex(),
                         answered_request=dict(request_hash=e["hash"].hex()), verified_with_request=dict(request_hash=f["hash"].hex()), verifying_member=f["member"].hex())
                if f is e:
                    rep.monitor("group_binding_control")
                    if outcome != "accepted" or detail != want:
                        rep.violation("group/binding/own-request-rejected/deterministic-to-group", "a response does not verify with the identifiers of the request it answers", dict(w, outcome=outcome, detail=repr(detail)[:300]), case)
                    continue
                rep.monitor("group_binding")
                if outcome == "accepted":
                    rep.violation("group/binding/accepted-with-foreign-request/deterministic/other-request-hash", "a response protected for one deterministic request verified with the identifiers of another one", dict(w, got=repr(detail)[:300]), case)
                elif outcome != "rejected":
                    rep.violation("group/binding/escape-%s/deterministic" % type(detail).__name__, "cross-paired verification raised %s" % type(detail).__name__, dict(w, tb=rep.exception_witness(detail) if isinstance(detail, BaseException) else None), case)

    # -- deliveries to a group member that remembers ----------------------------------------------------------------------
    def g_deliver(self, m, how, is_request, recv_group, reqctx, direct_ctx, rid):
        """Like g_run, but the receiver's replay windows stay as the deliveries before left them. -> (outcome, detail, ctx, request id)"""
        o = self.o
        if m is None:
            return "skipped", None, None, None
        ctx = direct_ctx
        try:
            if how == "dispatch":
                bag = o.verify_start(m)
                if is_request:
                    ctx = recv_group.get_oscore_context_for(bag)
                    if ctx is None:
                        return "rejected", "no-context", None, None
                else:
                    ctx = reqctx.context_from_response(bag)
            inner, rid_out = ctx.unprotect(m, self.copy.copy(rid) if rid is not None else None)
        except o.ProtectionInvalid as e:
            return "rejected", e, ctx, None
        except o.NotAProtectedMessage as e:
            return "not-protected", e, ctx, None
        except Exception as e:
            return "escape", e, ctx, None
        return "accepted", self.fields(inner), ctx, rid_out

    def g_redelivery(self, sc, Gc, Gs, reqctx, r, case):
        """The group counterpart of redelivery(): requests A, B, C of one member (for the deterministic client: two different
        requests, which all carry Partial IV 0) to a member whose replay windows are left alone, through both ways of context
        selection; responses in the exchange's response mode delivered twice to the requester."""
        rep, rc, ref = self.rep, self.rc, self.ref
        mode, resp_mode = sc["flow"]
        det = sc.get("det")
        s0 = min(sc["seq_c"], 2**40 - 50)
        where = dict(self.g_describe(sc, "%s mode requests with sequence numbers s, s+1, s+40 delivered in turn, replay windows kept" % mode), s=s0)
        sig = ("group-redelivery", sc["kind"], mode, resp_mode, sc["gp"].alg_aead, sc["gp"].alg_group_enc, len(uint_raw(s0)))
        for w in Gs.recipient_replay_windows.values():
            w.initialize_empty()
        msgs = {}
        try:
            for name, seq in (("A", s0), ("B", s0 + 1), ("C", s0 + 40)):
                Gc.sender_sequence_number = seq
                spec = self.small_request(r, name)
                if det is not None:
                    spec["code"] = r.choice([1, 5])
                outer, rid_c = reqctx.protect(self.build(spec))
                base = rc.parse(self.to_wire(outer, 0, sc["mid"], sc["token"]))
                msgs[name] = {"base": base, "optv": rc.opt1(base, 9), "ct": base.payload, "rid_c": rid_c, "want": self.expected_inner(spec)}
        except Exception as e:
            rep.count("group_redelivery_setup_failed/" + type(e).__name__)
            return
        A, B, C = msgs["A"], msgs["B"], msgs["C"]
        W = lambda x, optv=None: self.g_wire(x["base"], x["optv"] if optv is None else optv, x["ct"])

        def J(step, demand, res, want, **wit):
            ctx = res[2]
            self.judge_delivery("group/", "group_redelivery" if demand != "original" else "group_redelivery_control", step, demand, res[0], res[1], want, ctx,
                                type(ctx).__name__.strip("_") if ctx is not None else "no-context", sig, where, case, **wit)

        first = self.g_deliver(W(A), "dispatch", True, Gs, None, None, None)
        J("first-delivery", "original", first, A["want"], option=A["optv"].hex())
        if first[0] != "accepted":
            return
        asp = first[2]
        D = lambda m, how: self.g_deliver(m, how, True, Gs, None, asp, None)
        for how in ("dispatch", "direct"):
            J("second-delivery-of-a-request", "either", D(W(A), how), A["want"], option=A["optv"].hex(), unprotected_through=how)
        if det is None:
            rew = self.rewrite_piv(B["optv"], rc_piv(ref, A["optv"], True), group=True)
            for how in ("dispatch", "direct"):
                J("partial-iv-rewritten-to-a-used-value", "fail", D(W(B, rew), how), B["want"], option=rew.hex(), genuine_option=B["optv"].hex(), used_option=A["optv"].hex(), unprotected_through=how)
        J("fresh-request-after-refused-ones", "original", D(W(B), "dispatch"), B["want"], option=B["optv"].hex())
        J("second-delivery-of-a-request", "either", D(W(B), "direct"), B["want"], option=B["optv"].hex(), unprotected_through="direct")
        if det is None:
            J("fresh-request-beyond-the-window", "original", D(W(C), "direct"), C["want"], option=C["optv"].hex())
            for how in ("dispatch", "direct"):
                J("delivery-of-a-request-older-than-the-window", "either", D(W(A), how), A["want"], option=A["optv"].hex(), unprotected_through=how)
            rew = self.rewrite_piv(C["optv"], rc_piv(ref, A["optv"], True), group=True)
            J("partial-iv-rewritten-to-a-value-older-than-the-window", "fail", D(W(C, rew), "dispatch"), C["want"], option=rew.hex(), genuine_option=C["optv"].hex())
        # responses to A in the exchange's response mode, each delivered twice to the requester
        try:
            if det is not None or resp_mode == "group":
                resp_ctx = Gs
            else:
                resp_ctx = asp.context_for_response()
                if type(resp_ctx).__name__ != "_PairwiseContextAspect":
                    resp_ctx = Gs.pairwise_for(sc["members"][sc["ci"]]["id"])
        except Exception as e:
            rep.count("group_redelivery_response_setup_failed/" + type(e).__name__)
            return
        rid_s = self.copy.copy(first[3])
        for label in ("response-reuse", "response-ownpiv") if det is None else ("response-ownpiv",):
            spec = {"code": 69, "opts": [(12, 0, UINT)], "outer": [], "observe": None, "payload": marker(r, "R").encode(), "markers": [], "proxy": None}
            try:
                Gs.sender_sequence_number = min(Gs.sender_sequence_number, 2**40 - 50)
                outer, _ = resp_ctx.protect(self.build(spec), rid_s)
                base = rc.parse(self.to_wire(outer, 2, sc["mid"], sc["token"]))
            except Exception as e:
                rep.count("group_redelivery_response_setup_failed/" + type(e).__name__)
                continue
            x = {"base": base, "optv": rc.opt1(base, 9), "ct": base.payload}
            res = self.g_deliver(W(x), "dispatch", False, Gc, reqctx, None, A["rid_c"])
            J("first-delivery-of-a-" + label, "original", res, self.expected_inner(spec), option=x["optv"].hex())
            if res[0] != "accepted":
                continue
            for how in ("dispatch", "direct"):
                J("second-delivery-of-a-" + label, "either", self.g_deliver(W(x), how, False, Gc, reqctx, res[2], A["rid_c"]), self.expected_inner(spec), option=x["optv"].hex(), unprotected_through=how)

    # -- one group scenario ------------------------------------------------------------------------------------------
    def g_ids(self, r, maxid, n):
        ids = set()
        if r.random() < 0.5:
            ids.add(b"")
        while len(ids) < n:
            cand = rbytes(r, r.randrange(0, maxid + 1))
            if ids and maxid >= 2 and r.random() < 0.35:  # IDs sharing a prefix / differing in the last bit or in length
                base = r.choice(sorted(ids))
                k = r.random()
                if k < 0.4 and len(base) < maxid:
                    cand = base + bytes([r.choice([0, 1, 255])])
                elif k < 0.7 and base:
                    cand = base[:-1] + bytes([base[-1] ^ (1 << r.randrange(8))])
                elif len(base) < maxid:
                    cand = b"\0" + base
            ids.add(cand)
        out = sorted(ids)
        r.shuffle(out)
        return out

    def g_scenario(self, seed, gi, case):
        rep, ref = self.rep, self.ref
        r = random.Random("c11g/%d/%d" % (seed, gi))
        j = gi + gi // 16  # shard k runs gi = k, k + 16, ...: let every shard walk through all combinations
        kind = self.gkinds[j % len(self.gkinds)]
        flow = GROUP_FLOWS[(j // 2) % len(GROUP_FLOWS)]
        alg_aead = self.algs[(j // (2 * len(GROUP_FLOWS))) % len(self.algs)] if r.random() < 0.7 else r.choice(self.algs)
        k = r.random()
        alg_group_enc = alg_aead if k < 0.4 else (r.choice(self.algs) if k < 0.8 or not self.genc_extra else r.choice(self.genc_extra))
        maxid = min(ref.ENC_ALGS[alg_aead][3], ref.ENC_ALGS[alg_group_enc][3]) - 6
        group_id = rbytes(r, r.choice([1, 1, 2, 4, 8, 8, 0]))
        other_gid = rbytes(r, len(group_id) or 1)
        if other_gid == group_id:
            other_gid = bytes([other_gid[0] ^ 1]) + other_gid[1:]
        hashname = "sha256" if r.random() < 0.85 else r.choice(["sha384", "sha512"])
        gp = ref.GroupParams(alg_aead, alg_group_enc, kind, hashname, rbytes(r, r.choice([16, 16, 32, 64, 1])), r.choice([None, b"", rbytes(r, 8), rbytes(r, 8), rbytes(r, 32)]), group_id, rbytes(r, r.choice([0, 16, 40])))
        n = r.choice([3, 3, 4])
        ids = self.g_ids(r, maxid, n)
        lib_member = r.randrange(n) if r.random() < 0.25 else None
        members = []
        for i, ident in enumerate(ids):
            kp = self.g_keypair(r, kind, lib_generated=(i == lib_member))
            kp["id"] = ident
            members.append(kp)
        order = list(range(n))
        r.shuffle(order)
        ci, si, ti = order[:3]
        det = None
        if flow[0] == "deterministic":
            for _ in range(50):
                det_id = rbytes(r, r.randrange(0, maxid + 1))
                if det_id not in ids:
                    # the deterministic client is no member: it has no key pair, its credential in the AAD is empty
                    det = {"id": det_id, "cred": b"", "pub": None, "refpriv": b"", "priv": None, "origin": "deterministic client"}
                    break
            else:
                rep.count("harness_no_deterministic_client_id")
                return
        seq_c = SEQS[(gi // 3) % len(SEQS)] if r.random() < 0.7 else r.choice(SEQS + [r.randrange(2**40 - 1)])
        seq_s = SEQS[(gi // 5) % len(SEQS)] if r.random() < 0.7 else r.choice(SEQS)
        if flow[0] == "deterministic":
            seq_s = min(seq_s, 2**40 - 3)  # both responses to a deterministic request draw an own Partial IV
        ss = self.gss[kind]
        sc = {
            "gp": gp, "kind": kind, "members": members, "flow": flow, "ci": ci, "si": si, "ti": ti, "seq_c": seq_c, "mid": r.randrange(65536), "token": rbytes(r, r.randrange(0, 9)),
            "maxid": maxid, "other_group_id": other_gid, "det": det,
            # the value of the Pairwise Key Agreement Algorithm in the AAD's algorithms array: ECDH-SS + HKDF-256 (-27); aiocoap uses its
            # ECDSA class for P-256 groups, whose COSE value is ES256's (-7, marked FIXME in the source) - either is accepted here
            "pairwise_values": [ref.ECDH_SS_HKDF_256] + ([ss.value] if ss.value != ref.ECDH_SS_HKDF_256 else []),
        }
        rep.seen("group_flows", "%s/%s->%s" % (kind, flow[0], flow[1]))
        rep.seen("group_alg_pairs", "%s+%s" % (alg_aead, alg_group_enc))
        rep.seen("group_id_lengths", "gid%d/" % len(group_id) + ",".join(str(len(m["id"])) for m in members))
        try:
            groups = [self.g_group(sc, i) for i in range(n)]
        except Exception as e:
            rep.violation("group/setup/SimpleGroupContext-raises/" + type(e).__name__, "SimpleGroupContext could not be set up for ordinary members", dict(self.g_describe(sc, "setup"), tb=rep.exception_witness(e)), case)
            return
        Gc, Gs = groups[ci], groups[si]
        Gc.sender_sequence_number, Gs.sender_sequence_number = seq_c, seq_s
        sid, cid = members[si]["id"], members[ci]["id"]
        try:
            if flow[0] == "deterministic":
                reqctx = Gc.for_sending_deterministic_requests(det["id"], r.choice([None, sid]))
            else:
                reqctx = Gc if flow[0] == "group" else Gc.pairwise_for(sid)
        except Exception as e:
            rep.violation("group/setup/pairwise_for-raises/" + type(e).__name__, "pairwise_for() / for_sending_deterministic_requests() raised for a member of the group", dict(self.g_describe(sc, "setup"), tb=rep.exception_witness(e)), case)
            return
        # a forward-proxy request in URI form and the stateful deliveries first (sequence numbers are set again afterwards)
        rx = random.Random("c11gx/%d/%d" % (seed, gi))
        px_spec = gen_message(rx, True, gi, proxy=True)
        if flow[0] == "deterministic":
            px_spec["code"] = rx.choice([1, 5])
        self.g_protect_and_check(sc, "request", flow[0], reqctx, det if det is not None else ci, si, px_spec, None, None, None, Gs, case, mtype=rx.choice([0, 1]))
        self.g_redelivery(sc, Gc, Gs, reqctx, rx, case)
        Gc.sender_sequence_number, Gs.sender_sequence_number = seq_c, seq_s
        req_spec = gen_message(r, True, gi)
        if flow[0] == "deterministic":
            req_spec["code"] = r.choice([1, 5])  # deterministic requests are defined for safe methods only (unprotect refuses others by design)
        t1 = self.g_protect_and_check(sc, "request", flow[0], reqctx, det if det is not None else ci, si, req_spec, None, None, None, Gs, case, mtype=r.choice([0, 1]))
        if gi < 2 * 16:
            rep.sample({"group": "%s, %s + %s, group id %s" % (kind, alg_aead, alg_group_enc, group_id.hex()), "member_ids": [m["id"].hex() for m in members], "flow": "%s request -> %s response" % flow, "seq": seq_c,
                        "request": repr({k: req_spec[k] for k in ("code", "opts", "outer", "observe")})[:300], "payload_len": len(req_spec["payload"]), "wire": None if t1 is None else t1["wire"][:100].hex()})
        if t1 is None or t1["genuine"] is None or t1["rid_in"] is None:
            return
        targets = [t1]
        rid_third = self.g_third_member(sc, t1, groups, None, case)
        rid_s = t1["rid_in"]
        if rid_s.can_reuse_nonce is not True and det is None:
            rep.count("group_request_id_not_reusable")
        try:
            if det is not None:
                resp_ctx = t1["receiver"].context_for_response()
                if resp_ctx is not Gs:
                    rep.count("group_context_for_response_class/" + type(resp_ctx).__name__)
                    resp_ctx = Gs
            elif flow[1] == "group":
                resp_ctx = Gs
            else:
                resp_ctx = t1["receiver"].context_for_response()
                if type(resp_ctx).__name__ != "_PairwiseContextAspect":
                    rep.count("group_context_for_response_class/" + type(resp_ctx).__name__)
                    resp_ctx = Gs.pairwise_for(cid)
        except Exception as e:
            rep.violation("group/setup/context_for_response-raises/" + type(e).__name__, "context_for_response() raised after a genuine request", dict(self.g_describe(sc, "setup"), tb=rep.exception_witness(e)), case)
            return
        # the first response re-uses the request's nonce, the second draws an own Partial IV; a deterministic request's nonce is never re-used
        for label in ("response-reuse", "response-ownpiv") if det is None else ("response-ownpiv", "response-ownpiv"):
            spec = gen_message(r, False, gi + len(targets))
            t = self.g_protect_and_check(sc, label, flow[1], resp_ctx, si, ci, spec, rid_s, t1["rid_out"], reqctx, Gc, case, mtype=r.choice([2, 0, 1]))
            if t is None:
                continue
            if (t["opt"].piv is not None) != (label == "response-ownpiv"):
                rep.count("group_nonce_mode_unexpected/" + label)
            if t["genuine"] is not None:
                targets.append(t)
                # the third member knows the request identifiers from having read the (group mode) request, or - for a
                # pairwise request - from the kid and Partial IV visible in its OSCORE option (the client's identifiers here)
                self.g_third_member(sc, t, groups, rid_third if rid_third is not None else t1["rid_out"], case)
        try:
            spec2 = gen_message(r, True, gi + 7)
            if det is not None:
                spec2["code"] = 1
            o2, _ = reqctx.protect(self.build(spec2))
            other_req_ct = bytes(o2.payload)
            if det is not None:
                sc["other_request_hash"] = bytes(o2.opt.request_hash)
        except Exception:
            other_req_ct = None
        for t in targets:
            other = other_req_ct if t["is_request"] else next((x["ct"] for x in targets[1:] if x is not t), None)
            self.g_tamper(sc, t, r, case, other)
            self.g_foreign(sc, t, r, case)
        if det is None:
            self.g_binding(sc, r, case)
        else:
            self.g_binding_deterministic(sc, reqctx, r, case)

    # -- fixed, deterministic witnesses on the RFC 8613 Appendix C messages ------------------------------
    def fixed(self, case):
        rep, rc, ref = self.rep, self.rc, self.ref
        h = bytes.fromhex
        secret = h("0102030405060708090a0b0c0d0e0f10")
        sets = [
            # (name, params, client id, server id, genuine request datagram from the RFC, manipulations)
            ("rfc8613-C.4", ref.Params("AES-CCM-16-64-128", "sha256", secret, h("9e7ca92223786340"), None), b"", b"\x01",
             h("44025d1f00003974396c6f63616c686f7374620914ff612f1092f1776f1c1668b3825e"),
             [("h-flag-bit-set", h("1914")), ("group-flag-bit-set", h("2914")), ("piv-len-6", h("0e000000000014")), ("piv-len-7", h("0f00000000000014")),
              ("k-flag-cleared-on-empty-kid", h("0114")), ("h-flag-only-no-piv", h("10"))]),
            ("rfc8613-C.5", ref.Params("AES-CCM-16-64-128", "sha256", secret, None, None), b"\x00", b"\x01",
             h("440271c30000b932396c6f63616c686f737463091400ff4ed339a5a379b0b8bc731fffb0"),
             [("kid-removed", h("0114")), ("kid-flag-cleared-bytes-left", h("011400")), ("h-flag-bit-set", h("191400"))]),
        ]
        for name, p, cid, sid, wire, manips in sets:
            sc = {"params": p, "cid": cid, "sid": sid, "seq_c": 20, "mid": 1, "token": b"", "idctx_class": "none", "send_kc": True}
            server = self.ctx(p, sid, cid)
            base = rc.parse(wire)
            optv, ct = rc.opt1(base, 9), base.payload
            outcome, genuine = self.attempt(server, base, optv, ct, None)
            rep.monitor("fixed_witnesses")
            if outcome != "accepted" or genuine != (1, [(11, b"tv1")], b""):
                rep.inconc("the genuine %s request does not unprotect to GET /tv1 (%s %r): fixed witnesses not evaluated" % (name, outcome, genuine))
                continue
            t = {"label": "request", "is_request": True, "wire": wire, "base": base, "opt": ref.parse_option(optv), "optv": optv, "ct": ct, "receiver": server, "receiver_rid": None,
                 "genuine": genuine, "sig": ("fixed", name), "where": self.describe(sc, "request (%s, genuine datagram %s)" % (name, wire.hex())), "request_piv": None}
            for mname, ov in manips:
                self.settle(t, "fixed_witnesses", mname, "option", ov, ct, case)
        # the RFC's responses to the C.4 request (C.7 without, C.8 with an own Partial IV) at the client, and re-encodings of their option
        p = sets[0][1]
        sc = {"params": p, "cid": b"", "sid": b"\x01", "seq_c": 20, "mid": 0x5D1F, "token": h("00003974"), "idctx_class": "none", "send_kc": True}
        client = self.ctx(p, b"", b"\x01", 20)
        try:
            _outer, rid_c = client.protect(self.build({"code": 1, "opts": [(11, "tv1", STRING)], "outer": [(3, "localhost")], "observe": None, "payload": b"", "markers": []}))
        except Exception as e:
            rep.inconc("the C.4 request cannot be protected (%r): fixed response witnesses not evaluated" % (e,))
            rid_c = None
        for name, wire, manips in [
            ("rfc8613-C.7", h("64445d1f0000397490ffdbaad1e9a7e7b2a813d3c31524378303cdafae119106"),
             [("option-single-zero-byte", h("00")), ("option-zero-flag-byte-and-more-bytes", h("00aabb"))]),
            ("rfc8613-C.8", h("64445d1f00003974920100ff4d4c13669384b67354b2b6175ff4b8658c666a6cf88e"),
             [("piv-leading-zero", h("020000")), ("piv-zero-extended-to-5", h("050000000000")), ("trailing-garbage", h("0100aa")), ("kid-added-expected", h("090001"))]),
        ]:
            if rid_c is None:
                break
            base = rc.parse(wire)
            optv, ct = rc.opt1(base, 9), base.payload
            outcome, genuine = self.attempt(client, base, optv, ct, rid_c)
            rep.monitor("fixed_witnesses")
            if outcome != "accepted" or genuine != (0x45, [], b"Hello World!"):
                rep.inconc("the genuine %s response does not unprotect to 2.05 'Hello World!' (%s %r): fixed witnesses not evaluated" % (name, outcome, genuine))
                continue
            t = {"label": "response", "is_request": False, "wire": wire, "base": base, "opt": ref.parse_option(optv), "optv": optv, "ct": ct, "receiver": client, "receiver_rid": rid_c,
                 "genuine": genuine, "sig": ("fixed", name), "where": self.describe(sc, "response (%s, genuine datagram %s)" % (name, wire.hex())), "request_piv": b"\x14"}
            for mname, ov in manips:
                self.settle(t, "fixed_witnesses", mname, "option", ov, ct, case)
        # Observe=1 (deregistration) request through protect/unprotect
        p = sets[0][1]
        sc = {"params": p, "cid": b"", "sid": b"\x01", "seq_c": 20, "mid": 1, "token": b"", "idctx_class": "none", "send_kc": True}
        for obs, code in ((0, 1), (1, 1), (0, 5), (1, 5)):
            client, server = self.ctx(p, b"", b"\x01", 20), self.ctx(p, b"\x01", b"")
            spec = {"code": code, "opts": [(11, "tv1", STRING)], "outer": [], "observe": obs, "payload": b"", "markers": []}
            self.protect_and_check(sc, "request", client, spec, None, server, None, case)
            rep.monitor("fixed_witnesses")


def run_shard(shard, rep, only=None):
    import logging
    from harness import oscore_env

    ok, info = oscore_env.vectors_ok()
    if not ok:
        rep.inconc("RFC 8613 Appendix C vectors of tests/test_oscore.py do not pass through the CBOR stand-in: " + info)
        return
    from harness import refcodec, oscore_c11ref

    assert refcodec.selftest()
    try:
        oscore_c11ref.selftest()
    except Exception as e:
        rep.inconc("reference self-test on RFC 8613 Appendix C vectors failed: %r" % (e,))
        return
    logging.getLogger("aiocoap").setLevel(logging.CRITICAL)
    eng = Engine(rep)
    eng.probe_algorithms()
    if not eng.algs:
        rep.inconc("no AEAD algorithm of oscore.algorithms is usable with this `cryptography`")
        return
    if shard["index"] == 0:
        case = ["fixed"]
        if only is None or only == case:
            eng.fixed(case)
    for i in range(shard["n"]):
        gi = shard["index"] + shard["of"] * i
        case = ["scn", gi]
        if only is not None and only != case:
            continue
        eng.scenario(shard["seed"] - shard["index"], gi, case)
    # ---- members of an OSCORE group
    genv = oscore_env.group_env()
    for note in genv["notes"]:
        rep.seen("group_environment", note)
    try:
        oscore_c11ref.g_selftest()
    except Exception as e:
        rep.inconc("self-test of the Group OSCORE part of the reference failed: %r" % (e,))
        return
    logging.getLogger().setLevel(logging.CRITICAL + 1)  # _DeterministicUnprotectProtoAspect logs through the root logger
    eng.g_probe(genv)
    if not eng.gkinds:
        rep.inconc("no countersignature algorithm of oscore.algorithms_countersign is usable here: group part not evaluated")
        return
    for i in range(shard.get("gn", 0)):
        gi = shard["index"] + shard["of"] * i
        case = ["grp", gi]
        if only is not None and only != case:
            continue
        eng.g_scenario(shard["seed"] - shard["index"], gi, case)
