"""C06 — block-wise server: handlers see only complete in-order bodies; 2.31 / 4.08 / 4.00 as stated;
Block2 responses are exact slices of the rendering of the latest block-0 request; state lifetime."""

import os
import random

ID = "C06"
LEVEL = "exploration"
TECHNIQUE = "runtime monitoring on a virtual-time simulated network: interleaved scripted Block1/Block2 request sequences (in order, restart, repeat, skip, last-first, wrong sizes, beyond range, SZX changes, idle gaps around the state lifetime, further blocks after / during the handling of a completed upload, two or three overlapping block-0 requests for one key whose renderings take different times) from 1-3 raw endpoints against a resource whose handler takes 0 / 33 / 66 ms per invocation and which, in every third history, keeps one response object that every rendering updates in place and returns again (so that requests of other endpoints / methods / queries change it between the blocks of a transfer); oracle = reference model per (endpoint, method, cache-key) stepped over the request history in arrival order, compared with the handler log (request as seen on entry and again after the handler's await) and the wire; TimeoutDict lifetime invariant checked at a hook"
LEVEL_TEXT = "Each generated history is stepped through a reference model of assemblies and renderings; every response (code, echoed Block1, Block2 option, payload slice) and every handler invocation (body bytes, on entry and after its await) must agree, accepting a set of outcomes only where the statement leaves a choice. An assembly ends with its final block (a further block finds no transfer: 4.08); later blocks are slices of the rendering made for the block-0 request that arrived last, whichever rendering finished last, and whatever the resource does to the object it returned afterwards (the rendering is what was returned when it was made)."
LEVEL_NOTE = "Trusted: the reference model in checks/c06.py, simnet, refcodec. Inside the (T, 2T) expiry band either outcome is accepted and the model resynchronises from the observed answer. A mis-sized block 0 and NUM>0 on a rendering that fitted one block accept {4.00, 4.08} / {2.31, 4.00} as noted in DESIGN.md. Requests overlap a running handler only in two shapes (continuations of the upload whose handler is running; block-0 requests of one key 10 ms apart, later blocks when all handlers have returned, or one 10 ms after the latest block-0 request); a later block that arrives while the latest block-0 request is still being rendered may be answered 4.08 or with the right slice. Handler invocations are attributed to the request being delivered in the virtual instant they begin."
RULE = (
    "one case = one history of 1-4 interleaved flows; flow = (endpoint, method, query, body length, SZX, upload script, download script, idle gaps, handler durations, overlap group). "
    "Non-trivial = at least one multi-block transfer with a deviation (restart/repeat/skip/size error/expiry/beyond range/block after completion/overlapping block-0 requests) or two interleaved flows; distinct = distinct tuples of flow scripts, size classes, handler durations and resource variant (fresh / kept response object)"
)
ASSUMPTIONS = ["the resource variant that keeps its response object changes it only inside a handler invocation, right before returning it (never while the library is sending it)", "handlers return at once or after 33 / 66 ms (below EMPTY_ACK_DELAY: every response is piggy-backed); requests are 10 ms apart, so a request arrives while a handler is at work only where the generator places it", "MAX_TRANSMIT_WAIT of the default TransportTuning is the state lifetime (read at run time)"]
_REQ = {"response_matches_model": 2000, "handler_body": 300, "continue_echo": 500, "incomplete_408": 100, "block2_slice": 300, "expiry": 40, "timeoutdict_tick": 20, "continuation_after_completion": 120, "continuation_during_handler": 40, "slow_handler_body": 300, "overlapping_block0": 150, "later_block_after_overlap": 400, "later_block_older_finished_later": 200, "later_block_while_rendering": 40, "later_block_after_kept_object_changed": 100}
REQUIRED_MONITORS = {"quick": _REQ, "thorough": {k: v * 20 for k, v in _REQ.items()}}

UP = ["inorder", "inorder", "restart", "restart-single", "repeat", "skip", "lastfirst", "wrongsize", "oversize-final", "unknown", "szx-change", "szx-grow", "szx-grow", "after-final", "during-handler", "during-handler"]
DOWN = ["none", "inorder", "inorder", "beyond", "szx-change", "repeat", "skip", "overlap", "overlap"]
DELAYS = [0.033, 0.066]  # how long a slow handler awaits: below EMPTY_ACK_DELAY, never a multiple of the 10 ms request spacing
SETTLE = 0.1  # pause after an overlap episode: every handler has returned before the next request is sent
GAPS = [0.0, 0.0, 0.0, 0.0, 10.0, 92.0, 94.0, 140.0, 185.0, 187.5, 400.0]


def plan(tier, seed):
    n = 16
    per = {"quick": 60, "thorough": 5000}[tier]
    return [{"name": "c06-%d" % i, "seed": seed * 1000 + i, "index": i, "of": n, "n": per, "tier": tier} for i in range(n)]


def pattern(tag, n):
    out = bytearray()
    i = 0
    while len(out) < n:
        out += b"%s%05d," % (tag, i)
        i += 1
    return bytes(out[:n])


def cont_steps(r, fid, last, szx, n):
    """n requests that claim to continue an upload whose final block was number `last`: the next block number (in the
    same or in the half block size: the same byte offset), one further on, or the final block's own number again"""
    kind = r.choice(["next", "next", "next", "half", "gap", "final-again"])
    num, sz = last + 1, szx
    if kind == "half" and szx >= 1:
        num, sz = 2 * (last + 1), szx - 1
    elif kind == "gap":
        num = last + 2
    elif kind == "final-again":
        num = last
    csize = 1 << (sz + 4)
    out = []
    for j in range(n):
        more = r.random() < 0.5
        plen = csize if more else r.choice([0, 0, 1, csize - 1, csize, csize])
        out.append({"b1": (num + j, more, sz), "payload": pattern(b"C%d-" % fid, plen)})
    return out


def later_blocks(down, nb, eff_szx):
    dl = []
    order = list(range(1, nb))
    if down == "beyond":
        order = order[:1] + [nb, nb + 3]
    elif down == "repeat" and order:
        order = order + order[-1:]
    elif down == "skip" and len(order) > 1:
        order = order[1:]
    for i in order:
        dl.append({"b1": None, "payload": b"", "b2": (i, False, eff_szx)})
    if down == "szx-change" and eff_szx >= 1 and nb >= 2:
        dl = [{"b1": None, "payload": b"", "b2": (2, False, eff_szx - 1)}, {"b1": None, "payload": b"", "b2": (3, False, eff_szx - 1)}, {"b1": None, "payload": b"", "b2": (1, False, eff_szx)}]
    return dl


def gen_flow(r, fid):
    method = r.choice([3, 2, 5, 1])
    szx = r.randrange(0, 7)
    size = 1 << (szx + 4)
    nblocks = r.choice([1, 2, 3, 4, 6])
    up = r.choice(UP) if method != 1 else "none"
    blen = 0 if method == 1 else r.choice([size * nblocks, size * nblocks - 1, size * (nblocks - 1) + 1, size * nblocks - size // 2])
    if up in ("after-final", "during-handler") and r.random() < 0.7:
        # the final block is a full one: the next block number continues exactly where the delivered body ends
        blen = size * nblocks
    rlen = r.choice([0, 1, size - 1, size, size + 1, 3 * size, 3 * size + 5, 1124, 1125, 2500])
    ep = r.randrange(3)
    q = "n=%d&k=%d" % (rlen, r.randrange(2))
    steps = []
    body = pattern(b"B%d-" % fid, blen)
    main = 0  # the step that carries the flow's Block2 option: the one meant to complete the request
    if method != 1:
        blocks = [(i, body[i * size : (i + 1) * size]) for i in range(max(1, -(-blen // size)))]
        last = len(blocks) - 1

        def blk(i, payload=None, more=None, szx_=szx, num=None):
            return {"b1": (i if num is None else num, (i < last) if more is None else more, szx_), "payload": blocks[i][1] if payload is None else payload}

        seq = [blk(i) for i in range(len(blocks))]
        tail = []
        if up == "restart" and last >= 1:
            k = r.randrange(1, last + 1)
            seq = [blk(i) for i in range(k)] + seq
        elif up == "restart-single" and last >= 1:
            # an interrupted upload, then a complete single-block request for the same key (which replaces the
            # assembly), then the rest of the interrupted upload (which no longer extends anything)
            k = r.randrange(1, last + 1)
            single = {"b1": (0, False, szx), "payload": pattern(b"S%d-" % fid, r.choice([1, size // 2, size - 1, size]))}
            seq = [blk(i) for i in range(k)] + [single] + [blk(i) for i in range(k, last + 1)]
        elif up == "repeat" and last >= 0:
            k = r.randrange(0, last + 1)
            seq = seq[: k + 1] + [blk(k)] + seq[k + 1 :]
        elif up == "skip" and last >= 1:
            k = r.randrange(1, last + 1)
            seq = seq[:k] + seq[k + 1 :]
        elif up == "lastfirst" and last >= 1:
            seq = [blk(last)] + seq
        elif up == "wrongsize" and last >= 1:
            k = r.randrange(1, last + 1) if last >= 2 else 1
            if k < last:
                bad = blocks[k][1][:-1] if r.random() < 0.5 else blocks[k][1] + b"x"
                seq[k] = blk(k, payload=bad)
            else:
                seq[k] = blk(k, payload=blocks[k][1][: max(0, size - 3)], more=True)
        elif up == "oversize-final" and last >= 1:
            seq[last] = blk(last, payload=blocks[last][1] + b"y" * (size - len(blocks[last][1]) + 2))
        elif up == "unknown" and last >= 1:
            seq = seq[1:]
        elif up == "szx-change" and last >= 2 and szx >= 1:
            # after block 0 continue with half-size blocks
            half = size // 2
            rest = body[size:]
            sub = [rest[i : i + half] for i in range(0, len(rest), half)]
            seq = [blk(0)] + [{"b1": (2 + i, i < len(sub) - 1, szx - 1), "payload": p} for i, p in enumerate(sub)]
        elif up == "szx-grow" and last >= 2 and szx <= 5:
            # after k blocks continue with blocks of twice the size: where k is even the first of them extends the
            # assembly exactly; where it is odd, the block whose number is floor(offset / new size) overlaps what has
            # been assembled (not a continuation: 4.08), and the upload then goes on in the old size
            k = r.choice([1, 2, 3]) if last >= 3 else r.choice([1, 2])
            big = 2 * size
            if k % 2 == 0:
                rest = body[k * size :]
                sub = [rest[i : i + big] for i in range(0, len(rest), big)] or [b""]
                seq = [blk(i) for i in range(k)] + [{"b1": (k // 2 + i, i < len(sub) - 1, szx + 1), "payload": p_} for i, p_ in enumerate(sub)]
            else:
                lo = (k // 2) * big
                seq = [blk(i) for i in range(k)] + [{"b1": (k // 2, True, szx + 1), "payload": pattern(b"O%d-" % fid, big) if r.random() < 0.5 else body[lo : lo + big].ljust(big, b"o")}] + [blk(i) for i in range(k, last + 1)]
        elif up == "after-final":
            # the upload is complete and its body delivered (the handler has returned: at once, or after a while);
            # then one or two more blocks arrive that claim to continue it
            if r.random() < 0.3:
                seq[last]["delay"] = r.choice(DELAYS)
                seq[last]["settle"] = True
            tail = cont_steps(r, fid, last, szx, r.choice([1, 1, 2]))
        elif up == "during-handler":
            # the same while the handler of the completed upload is still at work (it awaits for 33 / 66 ms; blocks
            # arrive every 10 ms), optionally another one after it has returned
            seq[last]["delay"] = r.choice(DELAYS)
            seq[last]["hold"] = True
            nd = r.choice([1, 1, 2])
            tail = cont_steps(r, fid, last, szx, nd + (r.random() < 0.4))
            for t in tail[: nd - 1]:
                t["hold"] = True
            tail[nd - 1]["settle"] = True
        main = len(seq) - 1
        for t in tail:
            if r.random() < 0.2:
                t["b2"] = (r.choice([0, 1]), False, r.randrange(0, 7))
        steps += seq + tail
    else:
        steps.append({"b1": None, "payload": b""})
    # download
    down = r.choice(DOWN)
    dsz = r.randrange(0, 7)
    first_b2 = r.choice([None, (0, False, dsz)])
    if first_b2 is not None:
        steps[main]["b2"] = first_b2
    eff_szx = dsz if first_b2 is not None else 6
    eff_rlen = rlen
    overlap = 0
    if down == "overlap":
        # two or three block-0 requests (plain requests, single-block Block1 requests, the final block of an upload)
        # for this key from this endpoint, 10 ms apart, each rendering taking 0 / 33 / 66 ms, so that the renderings
        # overlap and finish in any order (mostly: the earlier one later); later blocks are asked for when all are done
        group = []
        if main == len(steps) - 1 and up in ("none", "inorder"):
            group.append(steps[main])
        for j in range(r.choice([1, 1, 2]) + (not group)):
            kind = r.choice(["plain", "single", "two"]) if method != 1 else "plain"
            if kind == "plain":
                new = [{"b1": None, "payload": pattern(b"P%d-" % fid, r.choice([0, 5, 100])) if method != 1 else b""}]
            elif kind == "single":
                new = [{"b1": (0, False, szx), "payload": pattern(b"S%d-" % fid, r.choice([1, size // 2, size]))}]
            else:
                new = [{"b1": (0, True, szx), "payload": pattern(b"T%d-" % fid, size)}, {"b1": (1, False, szx), "payload": pattern(b"U%d-" % fid, r.choice([1, size - 1, size]))}]
            b2j = r.choice([first_b2, first_b2, None, (0, False, r.randrange(0, 7))])
            new[-1]["b2"] = b2j
            steps += new
            group.append(new[-1])
        for j, g in enumerate(group):
            g["delay"] = r.choice([0.066, 0.066, 0.033, 0.0] if j == 0 else [0.0, 0.0, 0.033, 0.066])
            s2 = 1 << ((g.get("b2") or (0, False, 6))[2] + 4)
            g["rlen"] = r.choice([None, None, None, s2 + 1, 3 * s2, 3 * s2 + 5, 1, 1125, 2500])
        if r.random() < 0.5:
            # a later block asked for 10 ms after the latest block-0 request, while that one is (mostly) still being
            # rendered: there is no rendering of the latest block-0 request yet
            group[-1]["delay"] = r.choice([0.033, 0.066, 0.066, 0.0])
            s2x = (group[-1].get("b2") or (0, False, 6))[2]
            steps.append({"b1": None, "payload": b"", "b2": (r.choice([1, 1, 2]), False, r.choice([s2x, s2x, dsz])), "probe": True})
        i0 = [i for i, s in enumerate(steps) if s is group[0]][0]
        for s in steps[i0:-1]:
            s["hold"] = True
        steps[-1]["settle"] = True
        overlap = len(group)
        eff_szx = (group[-1].get("b2") or (0, False, 6))[2]
        eff_rlen = group[-1]["rlen"] if group[-1]["rlen"] is not None else rlen
        down_later = r.choice(["inorder", "inorder", "inorder", "beyond", "repeat"])
    else:
        down_later = down
    esize = 1 << (eff_szx + 4)
    nb = max(1, -(-eff_rlen // esize))
    if down_later != "none":
        steps += later_blocks(down_later, nb, eff_szx)
    prev_hold = False
    for s in steps:
        s.setdefault("b2", None)
        s["gap"] = r.choice(GAPS) if r.random() < 0.25 and not prev_hold else 0.0
        prev_hold = bool(s.get("hold"))
    return {"fid": fid, "ep": ep, "method": method, "query": q, "szx": szx, "blen": blen, "rlen": rlen, "up": up, "down": down, "overlap": overlap, "steps": steps}


def gen(r):
    nf = r.choice([1, 2, 2, 3, 4])
    flows = [gen_flow(r, i) for i in range(nf)]
    for f in flows[1:]:
        # sibling transfers that differ only in the method / only in the endpoint / only in the query
        if r.random() < 0.5:
            twin = flows[0]
            which = r.choice(["method", "endpoint", "endpoint", "query"])
            if which == "method" and f["method"] != twin["method"] and f["method"] != 1 and twin["method"] != 1:
                f["ep"], f["query"], f["rlen"] = twin["ep"], twin["query"], twin["rlen"]
            elif which == "endpoint":
                f["query"], f["rlen"] = twin["query"], twin["rlen"]
                # endpoints 0 and 1 share their IP address and differ only in the port
                f["ep"] = {0: 1, 1: 0, 2: r.choice([0, 1])}[twin["ep"]]
                f["method"] = twin["method"]
            elif which == "query" and f["method"] == twin["method"]:
                f["ep"] = twin["ep"]
    # interleave; a step marked "hold" is followed by the next step of its own flow (the overlap episodes are not
    # interrupted by other flows)
    order = []
    idx = [0] * nf
    while any(idx[i] < len(flows[i]["steps"]) for i in range(nf)):
        c = [i for i in range(nf) if idx[i] < len(flows[i]["steps"])]
        i = r.choice(c)
        while True:
            st = flows[i]["steps"][idx[i]]
            order.append((i, idx[i]))
            idx[i] += 1
            if not st.get("hold") or idx[i] >= len(flows[i]["steps"]):
                break
    return {"flows": flows, "order": order}


class Model:
    def __init__(self, T):
        self.T = T
        self.asm = {}  # K -> [bytearray, last_use]
        self.ren = {}  # K -> [bytes, last_use]
        self.asm_unknown = set()
        self.asm_b2 = {}  # K -> Block2 option of block 0 of the transfer under way
        self.small = {}  # K -> time of the latest block-0 rendering that fitted one block
        self.done = {}  # K -> (until when the handler of the completed upload runs): the latest transfer of K was completed
        self.hist = {}  # K -> renderings made for K, by arrival of their request: dicts arrive, finish, bytes

    def presence(self, table, K, now):
        """-> 'yes' | 'no' | 'maybe'"""
        ent = table.get(K)
        if ent is None:
            return "no"
        age = now - ent[1]
        if age < self.T - 1e-6:
            return "yes"
        if age > 2 * self.T + 1e-6:
            return "no"
        return "maybe"


def run_history(h, seed, rep, case, T):
    from harness import scenario, simnet, refcodec as rc
    import asyncio
    import aiocoap
    import aiocoap.resource as R

    box = {}
    EPS = [("10.0.0.2", 40000), ("10.0.0.2", 40001), ("10.0.0.3", 40000)]

    async def main(loop):
        net = simnet.SimNet(loop)
        hlog = []
        serial = [0]
        # what the runner is sending right now: the request that enters the handler next is this one (a request arrives
        # 1 ms after it was sent and is dispatched in the same virtual instant; the next one is sent 10 ms later)
        cur = {"step": None, "delay": 0.0, "rlen": None}

        def seen(request):
            b1 = request.opt.block1
            return {"body": bytes(request.payload), "b1": None if b1 is None else (int(b1[0]), bool(b1[1]), int(b1[2])), "token": bytes(request.token or b"").hex()}

        class Big(R.Resource):
            kept = None  # in "kept" histories: the one response Message this resource keeps and returns every time

            async def _h(self, request):
                serial[0] += 1
                mine = serial[0]
                n = 0
                for q in request.opt.uri_query:
                    if q.startswith("n="):
                        n = int(q[2:])
                delay, rlen = cur["delay"], cur["rlen"]
                ent = {"t": loop.time(), "step": cur["step"], "remote": (request.remote.sockaddr[0], request.remote.sockaddr[1]), "code": int(request.code), "query": tuple(request.opt.uri_query), "serial": mine, "delay": delay, "after": None, "t_done": None}
                ent.update(seen(request))
                hlog.append(ent)
                if delay:
                    await asyncio.sleep(delay)
                    # the request as the handler finds it when it goes on working
                ent["after"] = seen(request)
                ent["t_done"] = loop.time()
                ent["rlen"] = n if rlen is None else rlen
                if h.get("kept"):
                    # a resource that keeps its response object: every rendering is an update of that object (new
                    # content, the code that goes with the method) which is then returned again
                    if self.kept is None:
                        self.kept = aiocoap.Message()
                    self.kept.payload = pattern(b"R%d-" % mine, ent["rlen"])
                    self.kept.code = aiocoap.CONTENT if int(request.code) in (1, 5) else aiocoap.CHANGED
                    return self.kept
                return aiocoap.Message(payload=pattern(b"R%d-" % mine, ent["rlen"]))

            render_get = render_put = render_post = render_fetch = _h

        site = R.Site()
        site.add_resource(["big"], Big())
        td = install_timeoutdict_monitor(loop)
        srv = await simnet.make_context(net, "10.0.0.1", 5683, site)
        S = simnet.addr("10.0.0.1", 5683)
        peers = [simnet.RawPeer(net, ip, port) for ip, port in EPS]
        trace = []
        tokn = 0
        for fi, si in h["order"]:
            fl = h["flows"][fi]
            st = fl["steps"][si]
            if st["gap"]:
                await asyncio.sleep(st["gap"])
            tokn += 1
            tok = tokn.to_bytes(2, "big")
            opts = [(11, b"big")] + [(15, q.encode()) for q in fl["query"].split("&")]
            if st["b1"] is not None:
                opts.append((27, rc.block_bytes(*st["b1"])))
            if st["b2"] is not None:
                opts.append((23, rc.block_bytes(*st["b2"])))
            peer = peers[fl["ep"]]
            t_send = loop.time()
            cur.update(step=len(trace), delay=st.get("delay") or 0.0, rlen=st.get("rlen"))
            peer.send(S, rc.Msg(rc.CON, fl["method"], peer.next_mid(), tok, tuple(sorted(opts, key=lambda o: o[0])), st["payload"]))
            trace.append({"fi": fi, "si": si, "t": t_send + 0.001, "tok": tok})
            await asyncio.sleep(0.01)
            if st.get("settle"):
                await asyncio.sleep(SETTLE)
        await asyncio.sleep(1)
        # responses by token, handler invocations by the request that was being delivered when they began
        for i, tr in enumerate(trace):
            peer = peers[h["flows"][tr["fi"]]["ep"]]
            tr["resp"] = [m for (t, src, m, raw) in peer.inbox if m is not None and m.token == tr["tok"]]
            tr["handler"] = [e for e in hlog if e["step"] == i]
        box.update(net=net, trace=trace, td=td, hlog=hlog)
        await srv.shutdown()
        return True

    res = scenario.run(main, seed, horizon=1e6)
    uninstall_timeoutdict_monitor()
    if not res.ok:
        if res.horizon:
            rep.inconc("horizon")
        else:
            rep.violation("scenario-failed", "history did not run to completion: hang=%r error=%r" % (res.hang, res.error), {"history": repr(h)[:1500], "tb": rep.exception_witness(res.error) if res.error else None}, case)
        return
    judge(h, box, res, rep, case, T, EPS)


_td_saved = None


def install_timeoutdict_monitor(loop):
    """Invariant at a hook: wrap TimeoutDict from outside; at every tick no entry younger than `timeout`
    (since its last access) may be dropped and none older than 2*timeout may survive."""
    global _td_saved
    from aiocoap.util.asyncio import timeoutdict as tdm

    TD = tdm.TimeoutDict
    state = {"ticks": 0, "violations": []}
    if not all(hasattr(TD, a) for a in ("__getitem__", "__setitem__", "_tick")):
        return state
    _td_saved = (TD, TD.__getitem__, TD.__setitem__, TD._tick)
    og, os_, ot = TD.__getitem__, TD.__setitem__, TD._tick

    def shadow(self):
        return self.__dict__.setdefault("_verif_shadow", {})

    def getitem(self, key):
        v = og(self, key)
        shadow(self)[key] = loop.time()
        return v

    def setitem(self, key, value):
        os_(self, key, value)
        shadow(self)[key] = loop.time()

    def tick(self):
        before = set(getattr(self, "_items", {}).keys())
        ot(self)
        after = set(getattr(self, "_items", {}).keys())
        now = loop.time()
        sh = shadow(self)
        state["ticks"] += 1
        for k in before - after:
            if k in sh and now - sh[k] < self.timeout - 1e-6:
                state["violations"].append(("dropped-young", now - sh[k]))
            sh.pop(k, None)
        for k in after:
            if k in sh and now - sh[k] > 2 * self.timeout + 1e-6:
                state["violations"].append(("survived-old", now - sh[k]))

    TD.__getitem__, TD.__setitem__, TD._tick = getitem, setitem, tick
    return state


def uninstall_timeoutdict_monitor():
    global _td_saved
    if _td_saved:
        TD, g, s, t = _td_saved
        TD.__getitem__, TD.__setitem__, TD._tick = g, s, t
        _td_saved = None


def judge(h, box, res, rep, case, T, EPS):
    from harness import refcodec as rc

    model = Model(T)
    trace = box["trace"]
    deviation = False

    def wit(i, **kw):
        lo = max(0, i - int(os.environ.get("C06_WIT", "6")))
        return dict(flows=[{k: v for k, v in f.items() if k != "steps"} for f in h["flows"]], upto=[describe(h, t) for t in trace[lo : i + 1]], **kw)

    for i, tr in enumerate(trace):
        fl = h["flows"][tr["fi"]]
        st = fl["steps"][tr["si"]]
        K = (EPS[fl["ep"]], fl["method"], fl["query"])
        now = tr["t"]
        rep.monitor("response_matches_model")
        if len(tr["resp"]) != 1:
            rep.violation("responses-%d" % len(tr["resp"]), "a block request was answered %d times" % len(tr["resp"]), wit(i), case)
            return
        m = tr["resp"][0]
        code = m.code
        rb1 = rc.opt1(m, 27)
        rb1 = rc.block_value(rb1) if rb1 is not None else None
        rb2 = rc.opt1(m, 23)
        rb2 = rc.block_value(rb2) if rb2 is not None else None
        if code >= 160:
            stage = "block1" if (st["b1"] is not None and (st["b1"][0] > 0)) else "block2" if (st["b2"] is not None and st["b2"][0] > 0) else "first"
            kind = classify_5xx(model, K, st, now)
            rep.violation("5xx/%s/%s" % (stage, kind), "a block-wise request was answered %s; the statement allows only 2.31 / 4.08 / 4.00 / the handler's response" % rc.code_str(code), wit(i), case)
            return
        handler_body = None
        # ---------------- Block1 stage ----------------
        if st["b1"] is not None:
            num, more, szx = st["b1"]
            size = 1 << (szx + 4)
            P = st["payload"]
            if num == 0:
                model.asm_unknown.discard(K)
                model.done.pop(K, None)
                model.asm[K] = [bytearray(P), now]
                # the assembled request is built on the block-0 message: its Block2 option (if any) stays in force
                # unless the final block brings its own
                model.asm_b2[K] = st["b2"]
                if more and len(P) != size:
                    # mis-sized block 0: not a "continuation"; statement leaves it open
                    if code not in (rc.c(2, 31), rc.c(4, 0)):
                        rep.violation("block1/missized-block0-unexpected-code", "unexpected answer to a mis-sized first block", wit(i), case)
                        return
                    if code == rc.c(4, 0):
                        model.asm.pop(K, None)
                        continue
            else:
                deviation = deviation or fl["up"] != "inorder"
                if K in model.asm_unknown:
                    rep.count("skipped_ambiguous_assembly_state")
                    if more or not tr["handler"]:
                        continue
                    # final block accepted in an unjudgeable assembly state: the body cannot be predicted, but the
                    # rendering made now is what later Block2 requests must be served from
                    model.asm[K] = [bytearray(tr["handler"][0]["body"]), now]
                    model.asm_unknown.discard(K)
                    handler_body = bytes(tr["handler"][0]["body"])
                    num = None
                pres = model.presence(model.asm, K, now) if num is not None else "skip"
                if pres == "maybe":
                    rep.monitor("expiry")
                    if code == rc.c(4, 8) and K in model.asm and num * size != len(model.asm[K][0]):
                        # 4.08 is what both an expired and a live-but-misplaced continuation get: the state of
                        # this assembly cannot be inferred; stop judging it until the next block 0
                        model.asm_unknown.add(K)
                        continue
                    pres = "no" if code == rc.c(4, 8) else "yes"
                    if pres == "no":
                        model.asm.pop(K, None)
                elif pres == "yes" and now - model.asm[K][1] > 1.0:
                    rep.monitor("expiry")
                elif pres == "no" and K in model.asm:
                    rep.monitor("expiry")
                if pres == "no":
                    model.asm.pop(K, None)
                    rep.monitor("incomplete_408")
                    if K in model.done:
                        # the latest transfer of this key was completed and its body handed to the handler: nothing is
                        # under way that this block could continue
                        running = now < model.done[K] - 1e-9
                        rep.monitor("continuation_during_handler" if running else "continuation_after_completion")
                        if code != rc.c(4, 8):
                            rep.violation("block1/continuation-after-completion-accepted" + ("/during-handler" if running else ""), "after blocks 0..n had been delivered and handed to the handler%s, a further block for the same endpoint / method / cache-key was answered %s instead of 4.08: no transfer is under way that it could extend" % (" (which was still at work)" if running else "", rc.code_str(code)), wit(i), case)
                            return
                    if code != rc.c(4, 8):
                        rep.violation("block1/unknown-or-expired-not-408", "a continuation for an unknown or expired transfer was answered %s instead of 4.08" % rc.code_str(code), wit(i), case)
                        return
                    if tr["handler"]:
                        rep.violation("block1/rejected-block-reached-handler", "a rejected continuation reached the handler", wit(i), case)
                        return
                    continue
                ent = model.asm[K]
                ent[1] = now
                missized = num is not None and ((more and len(P) != size) or (not more and len(P) > size))
                misplaced = num is not None and num * size != len(ent[0])
                if missized or misplaced:
                    allowed = set()
                    if missized:
                        allowed.add(rc.c(4, 0))
                    if misplaced:
                        allowed.add(rc.c(4, 8))
                        rep.monitor("incomplete_408")
                    if code not in allowed:
                        what = "oversized-final-block-accepted" if (missized and not more and not misplaced) else "missized-not-400" if (missized and not misplaced) else "gap-or-overlap-not-408"
                        rep.violation("block1/" + what, "a continuation that %s was answered %s instead of %s" % ("contradicts its block size" if missized and not misplaced else "does not extend the assembly", rc.code_str(code), "/".join(sorted(rc.code_str(c) for c in allowed))), wit(i), case)
                        return
                    if tr["handler"]:
                        rep.violation("block1/rejected-block-reached-handler", "a rejected continuation reached the handler", wit(i), case)
                        return
                    continue
                if num is not None:
                    ent[0] += P
            if more:
                rep.monitor("continue_echo")
                if code != rc.c(2, 31) or rb1 != (num, True, szx):
                    rep.violation("block1/intermediate-not-2.31-echo", "an intermediate block was not answered 2.31 echoing its Block1 option", wit(i, got=(rc.code_str(code), rb1)), case)
                    return
                if tr["handler"]:
                    rep.violation("block1/intermediate-reached-handler", "an intermediate block reached the handler", wit(i), case)
                    return
                continue
            # blocks 0..n are in: the body goes to the handler, the transfer is over and its assembly gone
            handler_body = bytes(model.asm.pop(K)[0])
            model.done[K] = now + (st.get("delay") or 0.0)
        else:
            handler_body = st["payload"]
        # ---------------- Block2 stage ----------------
        b2 = st["b2"]
        if b2 is None and st["b1"] is not None and st["b1"][0] > 0:
            b2 = model.asm_b2.get(K)
        if b2 is None or b2[0] == 0:
            rep.monitor("handler_body")
            if len(tr["handler"]) != 1:
                rep.violation("handler-invocations-%d" % len(tr["handler"]), "a complete request led to %d handler invocations" % len(tr["handler"]), wit(i), case)
                return
            hb = tr["handler"][0]
            if hb["body"] != handler_body:
                rep.violation("handler-body-differs", "the handler was invoked with a body that is not the in-order concatenation of the accepted blocks of this (endpoint, method, cache-key)", wit(i, got_len=len(hb["body"]), want_len=len(handler_body)), case)
                return
            if hb["after"] is None:
                rep.inconc("a handler invocation had not returned when the history ended")
                return
            if hb["delay"]:
                rep.monitor("slow_handler_body")
            if hb["after"]["body"] != hb["body"]:
                rep.violation("handler-body-changed-under-handler", "the body the handler was invoked with changed while the handler was at work: after its await it is no longer the concatenation of blocks 0..n it was given", wit(i, on_entry=(len(hb["body"]), hb["b1"], hb["token"]), after_await=(len(hb["after"]["body"]), hb["after"]["b1"], hb["after"]["token"])), case)
                return
            # where a response on the wire is wrong and the handler's own view of its request (Block1 option, token)
            # changed during its await, the key says so
            chg = any(hb["after"][k] != hb[k] for k in ("b1", "token"))
            R_ = pattern(b"R%d-" % hb["serial"], fl["rlen"] if st.get("rlen") is None else st["rlen"])
            hist = model.hist.setdefault(K, [])
            if any(e["finish"] > now + 1e-9 for e in hist):
                rep.monitor("overlapping_block0")
            hist.append({"arrive": now, "finish": hb["t_done"], "bytes": R_, "serial": hb["serial"]})
            del hist[:-4]
            szx2 = b2[2] if b2 is not None else 6
            size2 = 1 << (szx2 + 4)
            if len(R_) > 1124 or (b2 is not None and len(R_) > size2):
                model.ren[K] = [R_, hb["t_done"]]
                model.small.pop(K, None)
                exp_payload, exp_b2 = R_[:size2], (0, len(R_) > size2, szx2)
                rep.monitor("block2_slice")
            else:
                exp_payload, exp_b2 = R_, None
                model.small[K] = now
                # the previous rendering (if any) is no longer "the rendering of the latest block-0 request"
            exp_code = rc.c(2, 5) if fl["method"] in (1, 5) else rc.c(2, 4)
            first_wrong = code != exp_code or m.payload != exp_payload or (exp_b2 is not None and rb2 != exp_b2) or (exp_b2 is None and rb2 is not None and rb2 != (0, False, rb2[2]))
            ack_wrong = st["b1"] is not None and rb1 != (st["b1"][0], False, st["b1"][2])
            if chg and (first_wrong or ack_wrong):
                rep.violation("response-wrong/request-changed-under-handler", "the response to a complete request is wrong (%s), and the request the handler was given (Block1 option, token) changed while the handler was at work" % " and ".join(w for w, c in (("not the first slice of the rendering just made", first_wrong), ("does not echo the final block's Block1 option", ack_wrong)) if c), wit(i, got=(rc.code_str(code), rb1, rb2, len(m.payload)), want=(rc.code_str(exp_code), st["b1"] and (st["b1"][0], False, st["b1"][2]), exp_b2, len(exp_payload)), on_entry=(hb["b1"], hb["token"]), after_await=(hb["after"]["b1"], hb["after"]["token"])), case)
                return
            if first_wrong:
                rep.violation("block2/first-block-wrong", "the response to a complete request is not (the first slice of) the rendering just made", wit(i, got=(rc.code_str(code), rb2, len(m.payload)), want=(rc.code_str(exp_code), exp_b2, len(exp_payload))), case)
                return
            if ack_wrong:
                rep.violation("block1/final-ack-option-wrong", "the response to the final block does not echo its Block1 option", wit(i, got=rb1), case)
                return
        else:
            num2, _, szx2 = b2
            size2 = 1 << (szx2 + 4)
            if tr["handler"]:
                rep.violation("block2/later-block-rerendered", "a request for a later block invoked the handler again instead of being served from the single rendering", wit(i), case)
                return
            deviation = deviation or fl["down"] not in ("inorder", "none")
            pres = model.presence(model.ren, K, now)
            hist = model.hist.get(K, [])
            if hist and hist[-1]["finish"] > now + 1e-9:
                rep.monitor("later_block_while_rendering")
                if code == rc.c(4, 8):
                    # the handler is still at work on the latest block-0 request of this key: there is no rendering yet
                    # that a later block could be cut from (a server that waits and then serves the slice is judged below)
                    continue
                for e in hist[:-1]:
                    if code in (rc.c(2, 5), rc.c(2, 4)) and e["bytes"] != hist[-1]["bytes"] and num2 * size2 < len(e["bytes"]) and m.payload == e["bytes"][num2 * size2 : (num2 + 1) * size2] and m.payload != hist[-1]["bytes"][num2 * size2 : (num2 + 1) * size2]:
                        rep.violation("block2/served-from-superseded-rendering/while-rendering", "a later block that arrived while the latest block-0 request was still being rendered was answered (%s) with a slice of an earlier rendering instead of 4.08 (or the slice of the rendering under way)" % rc.code_str(code), wit(i), case)
                        return
            if hist and any(e["finish"] > hist[-1]["arrive"] + 1e-9 for e in hist[:-1]):
                # the latest block-0 request arrived while an earlier one of this key was still being rendered
                rep.monitor("later_block_after_overlap")
                if any(e["finish"] > hist[-1]["finish"] + 1e-9 for e in hist[:-1]):
                    rep.monitor("later_block_older_finished_later")

            def overlapped():
                """the response is a slice of a rendering whose request was superseded while it was being rendered"""
                for e in hist[:-1]:
                    if e["finish"] > hist[-1]["arrive"] + 1e-9:
                        if code in (rc.c(2, 5), rc.c(2, 4)) and num2 * size2 < len(e["bytes"]) and m.payload == e["bytes"][num2 * size2 : (num2 + 1) * size2]:
                            return True
                        if code == rc.c(4, 0) and num2 * size2 >= len(e["bytes"]):
                            return True  # beyond the end of that one
                return False

            def kept_object():
                """content of the response object the resource keeps, as it is when this request arrives (kept histories)"""
                done = [e for e in box["hlog"] if e["t_done"] is not None and e["t_done"] <= now + 1e-9]
                if not h.get("kept") or not done:
                    return None, None
                e = max(done, key=lambda e: (e["t_done"], e["serial"]))
                return e["serial"], pattern(b"R%d-" % e["serial"], e["rlen"])

            def from_changed_object():
                """the answer is what cutting from the kept object's present content gives, and that content is not the
                rendering made for the latest block-0 request of this key"""
                ser, cur_ = kept_object()
                if cur_ is None or not hist or ser == hist[-1]["serial"]:
                    return False
                if code in (rc.c(2, 5), rc.c(2, 4)) and num2 * size2 < len(cur_) and m.payload == cur_[num2 * size2 : (num2 + 1) * size2]:
                    return True
                return code == rc.c(4, 0) and num2 * size2 >= len(cur_)

            KEPT = ("block2/slice-of-changed-kept-object", "a later block was answered (%s) from the present content of the response object the resource keeps (a later request of another endpoint / method / cache-key has changed it since), not from the rendering made for the latest block-0 request of its own endpoint / method / cache-key" % rc.code_str(code))
            OVL = ("block2/served-from-superseded-rendering/overlapping", "a later block was answered (%s) from a rendering whose block-0 request had been superseded, while it was still being rendered, by a newer block-0 request of the same endpoint / method / cache-key, not from the rendering made for the latest block-0 request" % rc.code_str(code))
            if K in model.small:
                # the rendering made for the latest block-0 request fitted one block (and was not kept): a later block
                # is beyond its end (4.00) or finds no rendering (4.08); an older, superseded rendering that may still
                # be around is not "the rendering made for the latest block-0 request"
                if code not in (rc.c(4, 0), rc.c(4, 8)) and overlapped():
                    rep.violation(OVL[0], OVL[1], wit(i), case)
                    return
                if code not in (rc.c(4, 0), rc.c(4, 8)) and pres != "no":
                    rep.violation("block2/served-from-superseded-rendering", "a later block was served (%s) from a rendering that a newer block-0 request of the same endpoint / method / cache-key had superseded" % rc.code_str(code), wit(i), case)
                    return
                if code in (rc.c(4, 0), rc.c(4, 8)):
                    rep.count("later_block_on_single_block_rendering")
                    # keep the model's view of an older stored rendering in step with what the answer reveals:
                    # 4.00 (beyond the end) is only given when an entry was found (and thereby refreshed)
                    if code == rc.c(4, 0) and K in model.ren:
                        model.ren[K][1] = now
                    elif code == rc.c(4, 8):
                        model.ren.pop(K, None)
                    continue
                if pres == "no":
                    rep.violation("block2/later-block-without-rendering-wrong-code", "a later block was requested although the latest rendering fitted one block; answered %s" % rc.code_str(code), wit(i), case)
                    return
            if pres == "maybe":
                rep.monitor("expiry")
                pres = "no" if code == rc.c(4, 8) else "yes"
            if pres == "no":
                model.ren.pop(K, None)
                rep.monitor("incomplete_408")
                if code != rc.c(4, 8):
                    rep.violation("block2/no-rendering-not-408", "a later block was requested without a (live) rendering for this endpoint/method/cache-key; answered %s instead of 4.08" % rc.code_str(code), wit(i), case)
                    return
                continue
            ent = model.ren[K]
            ent[1] = now
            R_ = ent[0]
            start = num2 * size2
            rep.monitor("block2_slice")
            if h.get("kept") and hist and kept_object()[0] != hist[-1]["serial"]:
                rep.monitor("later_block_after_kept_object_changed")
            if start >= len(R_):
                if code != rc.c(4, 0) and from_changed_object():
                    rep.violation(KEPT[0], KEPT[1], wit(i), case)
                    return
                if code != rc.c(4, 0) and overlapped():
                    rep.violation(OVL[0], OVL[1], wit(i), case)
                    return
                if code != rc.c(4, 0):
                    rep.violation("block2/beyond-end-not-400", "a block beyond the end of the rendering was answered %s instead of 4.00" % rc.code_str(code), wit(i), case)
                    return
                continue
            exp_payload = R_[start : start + size2]
            exp_b2 = (num2, start + size2 < len(R_), szx2)
            if (m.payload != exp_payload or code == rc.c(4, 0)) and from_changed_object():
                rep.violation(KEPT[0], KEPT[1], wit(i, got=(rc.code_str(code), rb2, len(m.payload)), want=(exp_b2, len(exp_payload))), case)
                return
            if (m.payload != exp_payload or code == rc.c(4, 0)) and overlapped():
                rep.violation(OVL[0], OVL[1], wit(i, got=(rc.code_str(code), rb2, len(m.payload)), want=(exp_b2, len(exp_payload))), case)
                return
            if code not in (rc.c(2, 5), rc.c(2, 4)) or m.payload != exp_payload or rb2 != exp_b2:
                rep.violation("block2/slice-wrong", "a Block2 response is not exactly the slice [NUM x size, NUM x size + size) of the rendering of the latest block-0 request, or its more-flag / option is wrong", wit(i, got=(rc.code_str(code), rb2, len(m.payload)), want=(exp_b2, len(exp_payload))), case)
                return
    td = box["td"]
    rep.monitor("timeoutdict_tick", td["ticks"])
    if td["violations"]:
        rep.violation("timeoutdict/" + td["violations"][0][0], "the state container dropped an entry before its lifetime or kept one beyond twice its lifetime", {"violations": td["violations"][:5]}, case)
    if res.loop_exceptions:
        rep.violation("loop-exception/" + str(res.loop_exceptions[0].get("exc_type")), "an exception reached the event loop", {"loop": res.loop_exceptions[:2]}, case)
    sig = tuple(sorted((f["method"], f["up"], f["down"], f["szx"], f["blen"] > 0, min(f["rlen"] // 1000, 2), any(s["gap"] > 50 for s in f["steps"]), tuple(round(s["delay"] * 1000) for s in f["steps"] if s.get("delay") is not None)) for f in h["flows"]))
    rep.case((bool(h.get("kept")), sig), nontrivial=deviation or len(h["flows"]) > 1)


def classify_5xx(model, K, st, now):
    if st["b1"] is not None and st["b1"][0] > 0 and K in model.asm:
        num, more, szx = st["b1"]
        size = 1 << (szx + 4)
        if num * size != len(model.asm[K][0]):
            return "gap-or-overlap"
        return "other"
    return "other"


def describe(h, tr):
    from harness import refcodec as rc

    fl = h["flows"][tr["fi"]]
    st = fl["steps"][tr["si"]]
    r = tr["resp"][0] if tr["resp"] else None
    return {"flow": tr["fi"], "ep": fl["ep"], "method": fl["method"], "q": fl["query"], "t": round(tr["t"], 3), "b1": st["b1"], "b2": st["b2"], "plen": len(st["payload"]), "handler_takes": st.get("delay") or 0.0, "renders": st.get("rlen"), "resp": None if r is None else (rc.code_str(r.code), [(n, v.hex()) for n, v in r.options], len(r.payload)), "handler": [{"rendering": x["serial"], "body_len": len(x["body"]), "block1": x["b1"], "until": x["t_done"], "after_await": None if x["after"] is None else (len(x["after"]["body"]), x["after"]["b1"])} for x in tr["handler"]]}


def run_shard(shard, rep, only=None):
    from harness import vloop

    vloop.install_time()
    import aiocoap  # noqa
    from aiocoap.numbers.constants import TransportTuning

    T = TransportTuning().MAX_TRANSMIT_WAIT
    r = random.Random(shard["seed"])
    for k in range(shard["n"]):
        h = gen(r)
        h["kept"] = k % 3 == 1  # every third history against the resource variant that keeps its response object
        case = ["hist", k]
        if only is not None and only != case:
            continue
        run_history(h, shard["seed"] * 65537 + k, rep, case, T)
        if k < 1 and shard["index"] == 0:
            rep.sample({"class": "history", "resource_keeps_its_response_object": h["kept"], "flows": [{kk: (vv if kk != "steps" else [(s["b1"], s["b2"], len(s["payload"]), s["gap"], {k: s[k] for k in ("delay", "rlen", "hold", "settle") if s.get(k) is not None}) for s in vv]) for kk, vv in f.items()} for f in h["flows"]], "order": h["order"]})
