"""C10 — message-layer reaction table (RFC 7252 section 4 as restated in the property).

Every cell of (type x code class x token known x unicast/multicast x handler speed x
No-Response x handler result class) is sent as a raw datagram to a real aiocoap
node; the datagrams the node emits in reaction are compared with an explicit expected table.
Sequences of cells check that misfits are ignored (non-interference)."""

import random

ID = "C10"
LEVEL = "exploration"
TECHNIQUE = "runtime monitoring on a simulated network: exhaustive single-message reaction table plus random message sequences against the real MessageManager/TokenManager; oracle = explicit expected-reaction table over the wire log, misfits judged by non-interference"
LEVEL_TEXT = "The complete single-message table is executed (exhaustive over the listed classes) and random sequences of table cells are run; each observed reaction datagram (type, MID relation, code, token, virtual time) must equal the table's prediction."
LEVEL_NOTE = "Trusted: harness/simnet.py, refcodec.py, the expected-reaction table in checks/c10.py (each row cites the property statement). Multicast pings/CON requests and class 3.xx codes are not judged (unspecified by the statement)."
RULE = (
    "one case = one raw datagram (or a sequence of 3-7) sent to an aiocoap node that has a site and possibly an outstanding request; cell = (type, code, token known?, "
    "unicast/multicast, handler delay, No-Response, handler result code). Non-trivial = every cell (each has a distinct predicted reaction or predicted silence); "
    "distinct = distinct cell tuples / distinct sequence shapes"
)
ASSUMPTIONS = ["EMPTY_ACK_DELAY is 0.1 s (read from the library at run time)", "simulated one-way latency 1 ms"]
REQUIRED_MONITORS = {"multicast_con_request_suppressed": 4, "table_cell": 500, "table_cell_busy_peer": 100, "mid_boundary": 100, "duplicate_delivery": 100, "token_reuse": 50, "misfit_same_mid": 10, "con_never_to_multicast": 500, "sequence": 50, "noninterference": 50, "response_object_returned_again": 84}
EXHAUSTIVE = {"single_message_table": "types x codes x token known/unknown x unicast/multicast x delays x No-Response x result class as enumerated by cells()"}

CON, NON, ACK, RST = 0, 1, 2, 3
REQ_CODES = [1, 2, 3, 4, 5, 6, 7]
UNKNOWN_REQ = [8, 31]
RESP_CODES = [69, 95, 132, 160]
RESERVED = [32, 63, 192, 200, 225, 226, 255]
DELAYS = [0.0, 0.05, 0.099, 0.101, 1.0]
NRS = [None, 2, 8, 16, 26]
RCODES = [69, 128, 163]
MC = "ff02::fd"
MC4 = "224.0.1.187"  # the IPv4 "All CoAP Nodes" group: arrives v4-mapped on the dual-stack socket


def cells(tier="quick"):
    out = []
    for typ in (CON, NON, ACK, RST):
        out.append((typ, 0, False, False, 0.0, None, 69))
        if typ != CON:
            out.append((typ, 0, False, True, 0.0, None, 69))
            out.append((typ, 0, False, "v4", 0.0, None, 69))
        for code in REQ_CODES:
            if typ in (CON, NON):
                for d in DELAYS:
                    for nr in NRS:
                        for rc_ in RCODES:
                            out.append((typ, code, False, False, d, nr, rc_))
                if code in (1, 2):
                    for d in (0.0, 1.0):
                        for nr in NRS:
                            for rc_ in SPECIAL_RESULTS:
                                if rc_ == "method-4.05" and code == 1:
                                    continue
                                if d and rc_ in ("missing-4.04", "method-4.05"):
                                    continue  # no handler runs: nothing can be slow
                                out.append((typ, code, False, False, d, nr, rc_))
                if typ == CON and code == 1:
                    # a confirmable request that arrived on a multicast address (not to be sent, RFC 7252 8.1, but
                    # served all the same): the one thing the statement says about it is that a response No-Response
                    # suppresses is not sent
                    for d in (0.0, 1.0):
                        for nr in (None, 2, 26):
                            out.append((typ, code, False, True, d, nr, 69))
                            out.append((typ, code, False, "v4", d, nr, 69))
                if typ == NON:
                    for d in (0.0, 1.0):
                        for nr in (None, 26):
                            out.append((typ, code, False, True, d, nr, 69))
                            out.append((typ, code, False, "v4", d, nr, 69))
            else:
                out.append((typ, code, False, False, 0.0, None, 69))
                out.append((typ, code, False, True, 0.0, None, 69))
                out.append((typ, code, False, "v4", 0.0, None, 69))
        for code in UNKNOWN_REQ:
            for d in (0.0,):
                out.append((typ, code, False, False, d, None, 69))
        for code in RESP_CODES:
            for known in (False, True):
                for mc in (False, True, "v4"):
                    out.append((typ, code, known, mc, 0.0, None, 69))
                    # ... looking like a notification (Observe option) or like one block of a larger representation:
                    # the reaction depends on type and token only
                    for ropt in ("obs0", "obs7", "b2more"):
                        out.append((typ, code, known, mc, 0.0, ropt, 69))
        for code in RESERVED:
            for known in (False, True):
                for mc in (False, True, "v4"):
                    out.append((typ, code, known, mc, 0.0, None, 69))
    if tier == "thorough":
        # full code sweep (all 256 codes x 4 types), unknown token, unicast, immediate handler
        have = set(out)
        for typ in (CON, NON, ACK, RST):
            for code in range(256):
                if 96 <= code <= 127:
                    continue  # class 3.xx: not assigned a meaning by the statement
                c = (typ, code, False, False, 0.0, None, 69)
                if c not in have:
                    out.append(c)
    return out


def plan(tier, seed):
    n = 16
    return [{"name": "c10-%d" % i, "seed": seed * 1000 + i, "index": i, "of": n, "tier": tier} for i in range(n)]


# results that do not come out of a handler's return statement: the library builds these responses itself
SPECIAL_RESULTS = {"raise-4.00": 128, "raise-5.03": 163, "crash-5.00": 160, "missing-4.04": 132, "method-4.05": 133, "tuning-cls-2.05": 69, "tuning-inst-2.05": 69, "unser-5.00": 160, "cached-2.05": 69, "cachedblk-2.05": 69, "cachedblkq-2.05": 69}


def eff_code(rcode):
    return SPECIAL_RESULTS.get(rcode, rcode)


def suppressed(nr, rcode):
    if nr is None:
        return False
    return bool(nr & (1 << ((eff_code(rcode) >> 5) - 1)))


def expected(cell, ead):
    """-> list of (dt, {types}, code, 'same'|'fresh', token_is_request_token) or None when unspecified."""
    typ, code, known, mc, d, nr, rcode = cell
    if code == 0:
        if typ == CON:
            return [(0.0, {RST}, 0, "same", False)]  # ping -> Reset
        return []  # empty NON misfit; empty ACK/RST never answered
    if 1 <= code <= 31:
        if typ in (ACK, RST):
            return []  # misfit: ignored
        if code not in REQ_CODES:
            rcode_eff = None  # some 4.xx/5.xx; C09 pins the code
        else:
            rcode_eff = eff_code(rcode)
        sup = suppressed(nr, rcode) if rcode_eff is not None else False
        if rcode == "unser-5.00" and nr is not None:
            # the handler's 2.05 is never serialised when the requester does not want 2.xx responses; otherwise
            # the 5.00 that stands in for it is subject to the option like any other response
            sup = suppressed(nr, 69) or suppressed(nr, 160)
        if typ == CON:
            if mc:
                return "mc-con-suppressed" if sup else None
            if d < ead:
                return [(d, {ACK}, 0 if sup else rcode_eff, "same", not sup)]
            return [(ead, {ACK}, 0, "same", False)] + ([] if sup else [(d, {CON, NON}, rcode_eff, "fresh", True)])
        # NON request
        if sup:
            return []
        if mc:
            return "mc-non"  # may or may not be answered; never ACK, never CON
        return [(d, {NON}, rcode_eff, "fresh", True)]
    if 64 <= code <= 191:
        if typ == CON:
            if known:
                return [(0.0, {ACK}, 0, "same", False)]
            return [] if mc else [(0.0, {RST}, 0, "same", False)]
        return []  # NON / ACK responses never answered; RST+response misfit
    return []  # reserved / signalling classes do not fit any type


class Node:
    """aiocoap node S with a site; raw peer P; optional outstanding request from S to P."""

    def __init__(self, loop):
        from harness import simnet

        self.loop = loop
        self.S = simnet.addr("10.0.0.1", 5683)
        self.P = simnet.addr("10.0.0.2", 5683)
        self.hlog = []
        self.known_tokens = []
        self.requests = []
        self.busy_tokens = set()

    async def start(self, n_known=1):
        from harness import simnet, testsite, refcodec as rc
        import aiocoap
        import asyncio

        loop = self.loop
        self.net = simnet.SimNet(loop)
        import aiocoap.resource as R

        class GetOnly(R.Resource):
            async def render_get(self, request):
                return aiocoap.Message(payload=b"getonly")

        site = testsite.make_site(loop, self.hlog, {("getonly",): GetOnly()})
        self.srv = await simnet.make_context(self.net, "10.0.0.1", 5683, site)

        def on_msg(peer, src, m, raw):
            if m is None:
                return
            if m.type == rc.CON and m.code != 0 and m.token not in self.busy_tokens and not getattr(self, "hold", False):
                # auto-acknowledge whatever the node sends confirmably
                peer.send(src, rc.Msg(rc.ACK, 0, m.mid, b"", (), b""))
            if rc.is_request(m.code) and m.token not in self.known_tokens:
                self.known_tokens.append(m.token)

        self.peer = simnet.RawPeer(self.net, "10.0.0.2", 5683, on_msg)
        for i in range(n_known):
            r = self.srv.request(aiocoap.Message(code=aiocoap.GET, uri="coap://10.0.0.2/x%d" % i), handle_blockwise=False)
            self.requests.append(r)
        await asyncio.sleep(0.05)
        return self

    async def make_busy(self):
        """Leave the node with an unacknowledged confirmable message in flight to the peer and another one held back
        behind it (NSTART): two slow requests whose separate CON responses the peer does not acknowledge."""
        from harness import refcodec as rc
        import asyncio

        self.busy_tokens = {b"\xb1\x55\xc3\x3c", b"\xb2\x55\xc3\x3c"}
        for k, tok in enumerate(sorted(self.busy_tokens)):
            self.peer.send(self.S, rc.Msg(rc.CON, 2, 0x6001 + k, tok, ((11, b"r2"),), b"d=0.3;c=69;p=busy"))
        await asyncio.sleep(0.6)

    def build(self, cell, mid, token, rc):
        typ, code, known, mc, d, nr, rcode = cell
        opts = []
        payload = b""
        if 1 <= code <= 31:
            opts.append((11, {"missing-4.04": b"nope", "method-4.05": b"getonly"}.get(rcode, b"r")))
            if nr is not None:
                opts.append((258, rc.uint_bytes(nr)))
            if rcode in ("cachedblk-2.05", "cachedblkq-2.05"):
                # the kept response is 40 bytes long; the second form of the request asks for it in 16-byte blocks
                payload = b"d=%s;c=69;p=%s;x=cached" % (repr(d).encode(), b"z" * 40)
                if rcode == "cachedblkq-2.05":
                    opts.append((23, rc.block_bytes(0, False, 0)))
            elif rcode in SPECIAL_RESULTS:
                if rcode.startswith("tuning-"):
                    # the handler's response carries an "unreliable" transport tuning, as class or as instance
                    payload = b"d=%s;c=%d;p=x;tt=%s" % (repr(d).encode(), eff_code(rcode), rcode.split("-")[1].encode())
                else:
                    payload = b"d=%s;c=%d;p=x;x=%s" % (repr(d).encode(), eff_code(rcode), rcode.split("-")[0].encode())
            else:
                payload = b"d=%s;c=%d;p=x" % (repr(d).encode(), rcode)
        elif code != 0:
            payload = b"resp"
            if nr == "obs0":
                opts.append((6, b""))
            elif nr == "obs7":
                opts.append((6, b"\x07"))
            elif nr == "b2more":
                opts.append((23, rc.block_bytes(0, True, 0)))
                payload = b"0123456789abcdef"
        tok = token if code != 0 else b""
        return rc.Msg(typ, code, mid, tok, tuple(opts), payload)

    async def stop(self):
        await self.srv.shutdown()


def reactions(node, t_from, rc):
    """datagrams sent by S towards P at/after t_from; collapsed: retransmissions of confirmable messages (same bytes)
    and the repetition of a stored ACK / Reset that a duplicate of the peer's message draws. A second identical ACK
    that nothing from the peer caused (a timer of the node's own) is a second reaction."""
    out = []
    seen = set()
    delivered = set()
    dup_delivery = set()
    for e in node.net.log:
        if e.kind == "deliver" and e.src == node.P:
            if e.data in delivered:
                dup_delivery.add(e.seq)
            delivered.add(e.data)
        # everything that is not from the peer is from the node, whatever source address it put on it
        if e.kind == "send" and e.src != node.P and e.t >= t_from - 1e-9:
            if e.data in seen and e.msg is not None and (e.msg.type == rc.CON or getattr(e, "cause", None) in dup_delivery):
                continue
            seen.add(e.data)
            out.append(e)
    return out


def check_multicast_invariant(node, rep, case, rc):
    import ipaddress

    for e in node.net.log:
        if e.kind in ("send", "senderror") and e.src not in (node.P, node.S):
            # (udp6.as_response_address is to strip a multicast local address from what becomes the reply's source)
            rep.violation("reaction-sent-from-foreign-source-address", "the node put a source address on a datagram that is not its own unicast address (the address the request was sent to, e.g. a multicast group)", {"event": e.brief()}, case)
        if e.kind == "send" and e.msg is not None and e.src == node.S:
            rep.monitor("con_never_to_multicast")
            a = ipaddress.ip_address(e.dst[0])
            if e.msg.type == rc.CON and (getattr(a, "ipv4_mapped", None) or a).is_multicast:
                rep.violation("con-sent-to-multicast", "a confirmable message was sent to a multicast destination", {"event": e.brief()}, case)


def judge_cell(cell, test_msg, t_arrival, reacts, ead, rep, case, witness):
    from harness import refcodec as rc

    exp = expected(cell, ead)
    mine = []
    for e in reacts:
        m = e.msg
        if m is None:
            rep.violation("node-sent-unparsable-datagram", "node emitted a datagram the reference codec cannot parse", witness(event=e.brief()), case)
            continue
        rel = m.mid == test_msg.mid and m.type in (rc.ACK, rc.RST)
        tokrel = bool(test_msg.token) and m.token == test_msg.token
        if rel or tokrel:
            mine.append(e)
    if exp is None:
        rep.count("unspecified_cell")
        return
    obs = [(round(e.t - t_arrival, 6), e.msg.type, e.msg.code, "same" if e.msg.mid == test_msg.mid else "fresh", e.msg.token == test_msg.token and bool(test_msg.token)) for e in mine]
    if exp == "mc-con-suppressed":
        rep.monitor("multicast_con_request_suppressed")
        bad = [o for o in obs if o[2] != 0]
        acks = [o for o in obs if o[1] == rc.ACK and o[2] == 0]
        if bad or len(acks) > 1:
            rep.violation("table/multicast-con-request/suppressed-response-sent", "a CON request received on a multicast address whose response No-Response suppresses drew %s" % ("a response" if bad else "more than one empty ACK"), witness(observed=obs), case)
        return
    if exp == "mc-non":
        bad = [o for o in obs if o[1] in (rc.ACK, rc.CON)]
        if bad:
            rep.violation("table/multicast-non-request-acked-or-con", "a NON request received on a multicast address was acknowledged or answered confirmably", witness(observed=obs), case)
        rep.count("mc_non_answered" if obs else "mc_non_silent")
        return
    key = cell_key(cell)
    if len(obs) != len(exp):
        rep.violation("table/%s/wrong-number-of-reactions" % key, "the node emitted %d datagram(s) in reaction, the type rules predict %d" % (len(obs), len(exp)), witness(observed=obs, expected=repr(exp)), case)
        return
    for o, x in zip(obs, exp):
        dt, types, code, midrel, tok = x
        if o[1] not in types:
            rep.violation("table/%s/wrong-type" % key, "reaction has the wrong message type", witness(observed=obs, expected=repr(exp)), case)
        elif abs(o[0] - dt) > 2e-6:
            rep.violation("table/%s/wrong-time" % key, "reaction at the wrong virtual time (piggyback before EMPTY_ACK_DELAY / empty ACK exactly at it / response at handler completion)", witness(observed=obs, expected=repr(exp)), case)
        elif code is not None and o[2] != code:
            rep.violation("table/%s/wrong-code" % key, "reaction carries the wrong code", witness(observed=obs, expected=repr(exp)), case)
        elif midrel == "same" and o[3] != midrel:  # a "fresh" ID is the node's own choice and may coincide with the request's
            rep.violation("table/%s/wrong-mid" % key, "reaction uses the wrong message ID (same vs fresh)", witness(observed=obs, expected=repr(exp)), case)
        elif o[4] != tok:
            rep.violation("table/%s/wrong-token" % key, "reaction carries the wrong token", witness(observed=obs, expected=repr(exp)), case)


def judge_busy_slow(cell, test_msg, t_arrival, reacts, ead, rep, case, witness):
    """slow CON request towards a node that is busy with the peer: the empty ACK is still due at EMPTY_ACK_DELAY"""
    from harness import refcodec as rc

    acks = [e for e in reacts if e.msg is not None and e.msg.mid == test_msg.mid and e.msg.type in (rc.ACK, rc.RST)]
    ok = len(acks) == 1 and acks[0].msg.type == rc.ACK and acks[0].msg.code == 0 and abs((acks[0].t - t_arrival) - ead) < 2e-6
    if not ok:
        rep.violation("table/%s/busy-peer-empty-ack-wrong" % cell_key(cell), "with other confirmable messages to the same peer still unacknowledged, a slow CON request was not acknowledged by an empty ACK at EMPTY_ACK_DELAY", witness(observed=[(round(e.t - t_arrival, 6), e.msg.type, e.msg.code) for e in acks]), case)


def cell_key(cell):
    typ, code, known, mc, d, nr, rcode = cell
    cls = "empty" if code == 0 else "request" if code <= 31 else "response" if 64 <= code <= 191 else "reserved"
    extra = ""
    if cls == "request" and typ in (CON, NON):
        extra = "-" + ("fast" if d < 0.1 else "slow") + ("-noresp" if suppressed(nr, rcode) else "") + ("-response-object-reused" if rcode == "cached-2.05" else "-block-of-reused-response-object" if str(rcode).startswith("cachedblk") else "")
    if cls == "response":
        extra = "-" + ("known" if known else "unknown") + ("-mc4" if mc == "v4" else "-mc" if mc else "") + ("-" + nr if isinstance(nr, str) else "")
    return "%s-%s%s" % ("CON NON ACK RST".split()[typ], cls, extra)


def run_cell(cell, seed, rep, case, busy=False, mid=0x7001, dup_at=()):
    from harness import scenario, simnet, refcodec as rc
    import asyncio
    from aiocoap.numbers.constants import TransportTuning

    ead = TransportTuning().EMPTY_ACK_DELAY
    box = {}

    async def main(loop):
        node = await Node(loop).start(1)
        if busy:
            await node.make_busy()
        typ, code, known, mc, d, nr, rcode = cell
        token = node.known_tokens[0] if (known and node.known_tokens) else b"\xaa\xbb\xcc\xdd"
        if known and not node.known_tokens:
            box["inconc"] = "node's request never reached the peer"
        msg = node.build(cell, mid, token, rc)
        dst = simnet.addr(MC4 if mc == "v4" else MC, 5683) if mc else node.S
        t0 = loop.time()
        node.peer.send(dst, msg)
        # the network (or a retransmitting peer) delivers the very same datagram again: "exactly once under its
        # message ID" is a statement about distinct datagrams, repetitions of one already sent are C04's subject
        for dt in dup_at:
            loop.call_at(t0 + dt, node.peer.send, dst, msg)
        await asyncio.sleep(3.0)
        box.update(node=node, msg=msg, t_arrival=t0 + 0.001, req_done=node.requests[0].response.done())
        await node.stop()
        return True

    res = scenario.run(main, seed)
    if "inconc" in box:
        rep.inconc(box["inconc"])
        return
    if not res.ok:
        if res.horizon:
            rep.inconc("horizon")
            return
        rep.violation("table/%s/scenario-failed" % cell_key(cell), "scenario did not complete: hang=%r error=%r" % (res.hang, res.error), {"cell": repr(cell)}, case)
        return
    node = box["node"]
    witness = lambda **kw: dict(cell=repr(cell), wire=node.net.dump(30), **kw)
    reacts = reactions(node, box["t_arrival"] - 0.001, rc)
    rep.monitor("table_cell_busy_peer" if busy else "table_cell")
    if busy:
        # a separate CON response may legitimately wait behind the unacknowledged one (NSTART): judge everything but it
        exp = expected(cell, ead)
        if isinstance(exp, list) and len(exp) == 2:
            reacts = [e for e in reacts if not (e.msg is not None and e.msg.token == box["msg"].token and e.msg.type in (rc.CON, rc.NON) and rc.is_response(e.msg.code))]
            cell_for_judge = cell
            judge_busy_slow(cell, box["msg"], box["t_arrival"], reacts, ead, rep, case, witness)
        else:
            judge_cell(cell, box["msg"], box["t_arrival"], reacts, ead, rep, case, witness)
    else:
        judge_cell(cell, box["msg"], box["t_arrival"], reacts, ead, rep, case, witness)
    check_multicast_invariant(node, rep, case, rc)
    typ, code, known, mc, d, nr, rcode = cell
    # a matched response completes the pending request; nothing else does
    if 64 <= code <= 191 and typ in (CON, NON, ACK):
        if known and not box["req_done"]:
            rep.violation("table/matching-response-not-delivered", "a response with the pending request's token from its endpoint did not complete the request", witness(), case)
        if not known and box["req_done"]:
            rep.violation("table/unmatched-response-delivered", "a response with an unknown token completed a pending request", witness(), case)
    elif box["req_done"]:
        rep.violation("table/non-response-completed-request", "a message that is not a response completed a pending request", witness(), case)
    if res.loop_exceptions:
        rep.violation("loop-exception/" + str(res.loop_exceptions[0].get("exc_type")), "an exception reached the event loop while processing %s" % cell_key(cell), witness(loop=res.loop_exceptions[:2]), case)
    rep.case(("cell",) + tuple(map(repr, cell)), nontrivial=True)


def run_sequence(seq_cells, seed, rep, case, drop_misfits=False, gap=0.05):
    """Send a sequence of cells 50 ms (or `gap`) apart (unique MIDs, unique tokens); return per-message observed reactions."""
    from harness import scenario, simnet, refcodec as rc
    import asyncio

    box = {}

    async def main(loop):
        node = await Node(loop).start(1)
        sent = []
        known_used = False
        for i, cell in enumerate(seq_cells):
            typ, code, known, mc, d, nr, rcode = cell
            tok = bytes([0xA0 + i, 0x55, 0xC3, 0x3C])  # four bytes: the node's own tokens (a counter from a random 16-bit start) are shorter, so none can coincide
            if known and 64 <= code <= 191 and not known_used and node.known_tokens:
                tok = node.known_tokens[0]
            msg = node.build(cell, 0x7100 + i, tok, rc)
            if known and tok == (node.known_tokens[0] if node.known_tokens else None) and typ in (CON, NON, ACK):
                known_used = True
            t0 = loop.time()
            node.peer.send(simnet.addr(MC4 if mc == "v4" else MC, 5683) if mc else node.S, msg)
            sent.append((cell, msg, t0 + 0.001))
            await asyncio.sleep(gap)
        await asyncio.sleep(3.0)
        box.update(node=node, sent=sent)
        await node.stop()
        return True

    res = scenario.run(main, seed)
    return res, box


def per_message_reactions(node, sent, rc):
    out = []
    allr = reactions(node, sent[0][2] - 0.001, rc)
    for cell, msg, t_arr in sent:
        mine = []
        for e in allr:
            m = e.msg
            if m is None:
                continue
            if (m.mid == msg.mid and m.type in (rc.ACK, rc.RST)) or (msg.token and m.token == msg.token):
                mine.append((round(e.t - t_arr, 6), m.type, m.code, m.mid == msg.mid, m.token == msg.token and bool(msg.token)))
        out.append(mine)
    return out


def is_misfit(cell):
    typ, code, known, mc, d, nr, rcode = cell
    if code == 0:
        return typ == NON
    if 1 <= code <= 31:
        return typ in (ACK, RST)
    if 64 <= code <= 191:
        return typ == RST
    return True


def run_shard(shard, rep, only=None):
    from harness import vloop, refcodec as rc

    vloop.install_time()
    import aiocoap  # noqa
    from aiocoap.numbers.constants import TransportTuning

    ead = TransportTuning().EMPTY_ACK_DELAY
    tier = shard["tier"]
    idx, of = shard["index"], shard["of"]
    r = random.Random(shard["seed"])
    allc = cells(tier)
    for i, cell in enumerate(allc):
        if i % of != idx:
            continue
        case = ["cell", i]
        if only is not None and only != case:
            continue
        run_cell(cell, shard["seed"] * 7919 + i, rep, case)
        if idx == 0 and i < 48 and i % 16 == 0:
            rep.sample({"class": "table-cell", "cell": repr(cell), "expected": repr(expected(cell, ead))})
    # ---- message-ID boundary values (0 and 0xFFFF) for every judged unicast cell with an immediate / slow handler ----
    mid_cells = [c for c in allc if expected(c, ead) not in (None, "mc-non", "mc-con-suppressed") and not c[3] and c[4] in (0.0, 1.0) and c[5] in (None, 26)]
    k = 0
    for cell in mid_cells:
        for mid in (0, 0xFFFF):
            k += 1
            if k % of != idx:
                continue
            case = ["mid", k]
            if only is not None and only != case:
                continue
            run_cell(cell, shard["seed"] * 7919 + 90000 + k, rep, case, mid=mid)
            rep.monitor("mid_boundary")
    # ---- request cells delivered more than once: before the handler is done, around EMPTY_ACK_DELAY, after the response ----
    dup_cells = [c for c in allc if c[0] in (CON, NON) and 1 <= c[1] <= 7 and not c[3] and c[5] in (None, 26) and c[6] == 69]
    k = 0
    for cell in dup_cells:
        d = cell[4]
        for dups in ((0.01,), (0.0,), (0.03, 0.06), (ead - 0.001,), (ead + 0.05,), (d + 0.5,), (0.02, ead + 0.02, d + 0.2)):
            k += 1
            if k % of != idx:
                continue
            if tier == "quick" and (k // of) % 2 != 0:
                continue
            case = ["dup", k]
            if only is not None and only != case:
                continue
            run_cell(cell, shard["seed"] * 7919 + 130000 + k, rep, case, dup_at=dups)
            rep.monitor("duplicate_delivery")
    # ---- the same table against a node that has an unacknowledged CON in flight to the peer and one held back ----
    busy_cells = [c for c in allc if expected(c, ead) not in (None, "mc-non", "mc-con-suppressed") and not c[3] and (c[4] in (0.0, 1.0))]
    for i, cell in enumerate(busy_cells):
        if i % of != idx:
            continue
        if tier == "quick" and (i // of) % 3 != 0:
            continue
        case = ["busy", i]
        if only is not None and only != case:
            continue
        run_cell(cell, shard["seed"] * 7919 + 50000 + i, rep, case, busy=True)
    # ---- a resource that returns the same Message object for every request: each response is typed by its own
    # request, whatever was stamped on the object when it was sent before ---------------------
    kinds = [(CON, 0.0), (CON, 1.0), (NON, 0.0), (NON, 1.0)]
    pairs = [(a, b, c) for a in kinds for b in kinds for c in (None,) + tuple(kinds[:1] + kinds[2:3])]
    # ... and the first of the requests carries a No-Response option that suppresses the response: what was noted on
    # the object for that request says nothing about the later ones
    pairs += [((t1, d1, 26), b, None) for (t1, d1) in kinds for b in kinds] + [((t1, d1, 2), b, None) for (t1, d1) in kinds[:1] + kinds[2:3] for b in kinds[:1] + kinds[2:3]]
    # ... and the later request asks for the kept response in blocks (what goes out is a copy cut from the kept object)
    pairs += [((t1, d1, None, "cachedblk-2.05"), (t2, d2, None, "cachedblkq-2.05"), None) for (t1, d1) in kinds for (t2, d2) in kinds]
    for j, trio in enumerate(pairs):
        if j % shard["of"] != shard["index"]:
            continue
        case = ["cached", j]
        if only is not None and only != case:
            continue
        seq = [(x[0], 1, False, False, x[1], x[2] if len(x) > 2 else None, x[3] if len(x) > 3 else "cached-2.05") for x in trio if x is not None]
        res, box = run_sequence(seq, shard["seed"] * 7349 + j, rep, case, gap=1.5)
        if not res.ok:
            if res.horizon:
                rep.inconc("horizon in cached-response sequence")
            else:
                rep.violation("sequence/scenario-failed", "sequence scenario did not complete: hang=%r error=%r" % (res.hang, res.error), {"seq": repr(seq)}, case)
            continue
        node, sent = box["node"], box["sent"]
        rep.monitor("response_object_returned_again")
        allr = reactions(node, sent[0][2] - 0.001, rc)
        for k, (cell, msg, t_arr) in enumerate(sent):
            witness = lambda **kw: dict(seq=repr(seq), cell=repr(cell), position=k, wire=node.net.dump(40), **kw)
            judge_cell(cell, msg, t_arr, allr, ead, rep, case, witness)
        if res.loop_exceptions:
            rep.violation("loop-exception/" + str(res.loop_exceptions[0].get("exc_type")), "an exception reached the event loop while processing a message sequence", {"seq": repr(seq), "loop": res.loop_exceptions[:2]}, case)
    # ---- sequences -------------------------------------------------------------------
    judged = [c for c in allc if expected(c, ead) not in (None, "mc-non", "mc-con-suppressed")]
    nseq = 12 if tier == "quick" else 1500
    for j in range(nseq):
        case = ["seq", j]
        length = r.randrange(3, 8)
        seq = [r.choice(judged) for _ in range(length)]
        # keep request handler delays short enough not to overlap confusingly: any is fine, attribution is by MID/token
        if not any(is_misfit(c) for c in seq):
            seq[r.randrange(length)] = r.choice([c for c in judged if is_misfit(c)])
        if only is not None and only != case:
            continue
        res, box = run_sequence(seq, shard["seed"] * 104729 + j, rep, case)
        if not res.ok:
            if res.horizon:
                rep.inconc("horizon in sequence")
            else:
                rep.violation("sequence/scenario-failed", "sequence scenario did not complete: hang=%r error=%r" % (res.hang, res.error), {"seq": repr(seq)}, case)
            continue
        node, sent = box["node"], box["sent"]
        rep.monitor("sequence")
        allr = reactions(node, sent[0][2] - 0.001, rc)
        known_consumed = False
        for cell, msg, t_arr in sent:
            eff = cell
            typ, code, known, mc, d, nr, rcode = cell
            if known and 64 <= code <= 191:
                really_known = (node.known_tokens and msg.token == node.known_tokens[0]) and not known_consumed
                eff = (typ, code, bool(really_known), mc, d, nr, rcode)
                if really_known and typ in (CON, NON, ACK):
                    known_consumed = True
            witness = lambda **kw: dict(seq=repr(seq), cell=repr(eff), wire=node.net.dump(40), **kw)
            judge_cell(eff, msg, t_arr, allr, ead, rep, case, witness)
        check_multicast_invariant(node, rep, case, rc)
        if res.loop_exceptions:
            rep.violation("loop-exception/" + str(res.loop_exceptions[0].get("exc_type")), "an exception reached the event loop while processing a message sequence", {"seq": repr(seq), "loop": res.loop_exceptions[:2]}, case)
        # non-interference: same sequence without the misfits
        seq2 = [c for c in seq if not is_misfit(c)]
        if seq2 and len(seq2) != len(seq):
            res2, box2 = run_sequence_fixed(seq, seq2, shard["seed"] * 104729 + j, rep, case)
            if res2.ok:
                rep.monitor("noninterference")
                a = [x for c, x in zip(seq, per_message_reactions(node, sent, rc)) if not is_misfit(c)]
                b = per_message_reactions(box2["node"], box2["sent"], rc)
                if a != b:
                    rep.violation("misfit-not-ignored/reactions-differ", "removing the misfit messages from a sequence changes the reactions to the remaining messages", {"seq": repr(seq), "with": repr(a), "without": repr(b)}, case)
        rep.case(("seq", tuple(cell_key(c) for c in seq)), nontrivial=True)
    # ---- targeted: a misfit must not occupy its (endpoint, MID) ---------------------------
    for j, mis in enumerate([(ACK, 1), (RST, 1), (ACK, 2), (RST, 4)]):
        if j % of != idx % 4 and of > 4:
            if j != idx % 4:
                continue
        case = ["poison", j]
        if only is not None and only != case:
            continue
        run_poison(mis, shard["seed"] + j, rep, case)
    # ---- requests reusing a token before the earlier one was acknowledged ------------------------
    for j, spec in enumerate(token_reuse_specs()):
        if j % of != idx:
            continue
        case = ["token-reuse", j]
        if only is not None and only != case:
            continue
        run_token_reuse(spec, shard["seed"] * 31 + j, rep, case)
    # ---- misfits bearing the message ID of a request in flight ---------------------------------
    for j, mis in enumerate([(ACK, 1), (ACK, 2), (ACK, 31), (ACK, 32), (ACK, 192), (ACK, 225), (RST, 1), (RST, 69), (RST, 132), (RST, 200)]):
        if j % of != idx % 10 and of > 10:
            if j != idx % 10:
                continue
        case = ["misfit-same-mid", j]
        if only is not None and only != case:
            continue
        run_misfit_same_mid(mis, shard["seed"] * 13 + j, rep, case)
    # ---- targeted: aiocoap as sender towards multicast -----------------------------------
    case = ["mc-send"]
    if only is None or only == case:
        run_mc_send(shard["seed"], rep, case)


def run_sequence_fixed(seq, seq2, seed, rep, case):
    """Re-run keeping MIDs/tokens of the surviving messages identical to the first run."""
    from harness import scenario, simnet, refcodec as rc
    import asyncio

    box = {}
    keep = [i for i, c in enumerate(seq) if not is_misfit(c)]

    async def main(loop):
        node = await Node(loop).start(1)
        sent = []
        known_used = False
        for i, cell in enumerate(seq):
            typ, code, known, mc, d, nr, rcode = cell
            tok = bytes([0xA0 + i, 0x55, 0xC3, 0x3C])  # four bytes: the node's own tokens (a counter from a random 16-bit start) are shorter, so none can coincide
            if known and 64 <= code <= 191 and not known_used and node.known_tokens:
                tok = node.known_tokens[0]
            msg = node.build(cell, 0x7100 + i, tok, rc)
            if known and tok == (node.known_tokens[0] if node.known_tokens else None) and typ in (CON, NON, ACK):
                known_used = True
            t0 = loop.time()
            if i in keep:
                node.peer.send(simnet.addr(MC4 if mc == "v4" else MC, 5683) if mc else node.S, msg)
                sent.append((cell, msg, t0 + 0.001))
            await asyncio.sleep(0.05)
        await asyncio.sleep(3.0)
        box.update(node=node, sent=sent)
        await node.stop()
        return True

    res = scenario.run(main, seed)
    return res, box


def run_poison(mis, seed, rep, case):
    """A request-coded ACK/RST (misfit, to be ignored) followed by a genuine CON request with the same MID."""
    from harness import scenario, refcodec as rc
    import asyncio

    typ, code = mis
    box = {}

    async def main(loop):
        node = await Node(loop).start(0)
        node.peer.send(node.S, rc.Msg(typ, code, 0x5151, b"\x01", ((11, b"r"),), b""))
        await asyncio.sleep(1.0)
        t0 = loop.time()
        node.peer.send(node.S, rc.Msg(rc.CON, 1, 0x5151, b"\x02", ((11, b"r"),), b"d=0;c=69;p=x"))
        await asyncio.sleep(2.0)
        box.update(node=node, t=t0)
        await node.stop()
        return True

    res = scenario.run(main, seed)
    if not res.ok:
        rep.inconc("poison scenario failed: %r %r" % (res.hang, res.error))
        return
    node = box["node"]
    rep.monitor("noninterference")
    answered = [e for e in node.net.log if e.kind == "send" and e.src == node.S and e.t >= box["t"] and e.msg is not None and e.msg.mid == 0x5151 and e.msg.type == rc.ACK and e.msg.code == 69]
    handled = [h for h in node.hlog if h["ev"] == "enter" and h["mid"] == 0x5151]
    if not answered or not handled:
        rep.violation("misfit-not-ignored/request-coded-%s-occupies-mid" % ("ack" if typ == ACK else "rst"), "a request-coded %s (code and type do not fit, to be ignored) made the node drop a later genuine CON request with the same message ID as a duplicate" % ("ACK" if typ == ACK else "RST"), {"wire": node.net.dump(12), "handler_log": repr(node.hlog)}, case)
    rep.case(("poison", typ, code), nontrivial=True)


def run_token_reuse(spec, seed, rep, case):
    """Two or three requests (confirmable, or one of them non-confirmable) that carry the same token under different message IDs, in quick succession
    (a client that abandons a request and reuses its token, or one that uses the empty token throughout). Whether
    the abandoned request is still answered is not judged; the message layer owes each of them exactly one ACK
    under its own message ID, at the latest at EMPTY_ACK_DELAY after it arrived."""
    from harness import scenario, refcodec as rc
    import asyncio
    from aiocoap.numbers.constants import TransportTuning

    ead = TransportTuning().EMPTY_ACK_DELAY
    token, gaps, delays = spec[:3]
    types = spec[3] if len(spec) > 3 else (rc.CON,) * len(gaps)
    box = {}

    async def main(loop):
        node = await Node(loop).start(0)
        sent = []
        t0 = loop.time()
        at = 0.0
        for k, (gap, d) in enumerate(zip(gaps, delays)):
            at += gap
            m = rc.Msg(types[k], 1, 0x4100 + k, token, ((11, b"r"),), b"d=%s;c=69;p=x%d" % (repr(d).encode(), k))
            loop.call_at(t0 + at, node.peer.send, node.S, m)
            sent.append((m, t0 + at + 0.001))
        await asyncio.sleep(at + 5.0)
        box.update(node=node, sent=sent)
        await node.stop()
        return True

    res = scenario.run(main, seed)
    if not res.ok:
        if res.horizon:
            rep.inconc("horizon in token-reuse scenario")
        else:
            rep.violation("token-reuse/scenario-failed", "scenario did not complete: hang=%r error=%r" % (res.hang, res.error), {"spec": repr(spec)}, case)
        return
    node = box["node"]
    rep.monitor("token_reuse")
    for m, t_arr in box["sent"]:
        if m.type == rc.NON:
            # a non-confirmable request is never acknowledged; whatever answers it is not an ACK
            bad = [e for e in node.net.log if e.kind == "send" and e.src != node.P and e.msg is not None and ((e.msg.mid == m.mid and e.msg.type == rc.ACK) or (e.msg.type == rc.ACK and e.msg.payload == b"x%d" % (m.mid - 0x4100)))]
            if bad:
                rep.violation("token-reuse/non-request-acknowledged", "a non-confirmable request that re-used the token of a confirmable one still waiting for its acknowledgement was answered with an ACK", {"spec": repr(spec), "events": [e.brief() for e in bad[:2]], "wire": node.net.dump(30)}, case)
            continue
        acks = []
        seen = set()
        for e in node.net.log:
            if e.kind == "send" and e.src == node.S and e.msg is not None and e.msg.mid == m.mid and e.msg.type in (rc.ACK, rc.RST) and e.data not in seen:
                seen.add(e.data)
                acks.append((round(e.t - t_arr, 6), e.msg.type, e.msg.code))
        ok = len(acks) == 1 and acks[0][1] == rc.ACK and acks[0][0] <= ead + 2e-6
        # ... and if that ACK carries a response, it is this request's own (its handler echoes the request's index)
        own = [e for e in node.net.log if e.kind == "send" and e.src != node.P and e.msg is not None and e.msg.mid == m.mid and e.msg.type == rc.ACK and e.msg.code != 0 and e.msg.payload != b"x%d" % (m.mid - 0x4100)]
        if own:
            rep.violation("token-reuse/acknowledged-with-another-requests-response", "a confirmable request was acknowledged by a piggy-backed response that answers another request", {"spec": repr(spec), "event": own[0].brief(), "wire": node.net.dump(30)}, case)
        if not ok:
            rep.violation(
                "token-reuse/%s" % ("never-acknowledged" if not acks else "acknowledged-more-than-once" if len(acks) > 1 else "acknowledged-wrongly"),
                "a confirmable request whose token was reused by a later request before it was acknowledged was not acknowledged exactly once under its own message ID within EMPTY_ACK_DELAY",
                {"spec": repr(spec), "mid": m.mid, "acks": acks, "wire": node.net.dump(30)},
                case,
            )
    if res.loop_exceptions:
        rep.violation("loop-exception/" + str(res.loop_exceptions[0].get("exc_type")), "an exception reached the event loop while processing requests reusing a token", {"spec": repr(spec), "loop": res.loop_exceptions[:2]}, case)
    check_multicast_invariant(node, rep, case, rc)
    rep.case(("token-reuse", len(token), tuple(gaps), tuple(delays)), nontrivial=True)


def token_reuse_specs():
    out = []
    for token in (b"", b"\x77", b"\x01\x02\x03\x04\x05\x06\x07\x08"):
        for gap in (0.0, 0.01, 0.05, 0.099, 0.15):
            for d1 in (0.0, 0.05, 0.3, 2.0):
                for d2 in (0.0, 0.05, 0.3):
                    out.append((token, (0.0, gap), (d1, d2)))
        out.append((token, (0.0, 0.01, 0.01), (0.3, 0.3, 0.0)))
        out.append((token, (0.0, 0.05, 0.2), (2.0, 0.05, 0.3)))
        # the token is re-used by a NON request while the CON one's piggy-back window is open, and the other way round
        for gap in (0.0, 0.01, 0.05, 0.15):
            for d1, d2 in ((0.3, 0.0), (2.0, 0.0), (0.3, 0.05), (0.0, 0.0)):
                out.append((token, (0.0, gap), (d1, d2), (CON, NON)))
                out.append((token, (0.0, gap), (d1, d2), (NON, CON)))
    return out


def run_misfit_same_mid(mis, seed, rep, case):
    """A message whose code and type do not fit (an ACK or Reset carrying a request code, an ACK carrying a reserved
    code, a Reset carrying a response code) that bears the message ID of a confirmable request the node has in
    flight: it is to be ignored, so the exchange stays open (retransmissions go on), the request neither completes nor
    fails, and the genuine acknowledgement later on does its work."""
    from harness import scenario, refcodec as rc
    import asyncio
    import aiocoap

    typ, code = mis
    box = {}

    async def main(loop):
        node = await Node(loop).start(0)
        node.hold = True
        r = node.srv.request(aiocoap.Message(code=aiocoap.GET, uri="coap://10.0.0.2/held"), handle_blockwise=False)
        await asyncio.sleep(0.3)
        reqs = [e for e in node.net.log if e.kind == "deliver" and e.dst == node.P and e.msg is not None and rc.is_request(e.msg.code)]
        if not reqs:
            box["inconc"] = "the node's request never reached the peer"
            return True
        q = reqs[0].msg
        t_mis = loop.time()
        node.peer.send(node.S, rc.Msg(typ, code, q.mid, q.token if code else b"", (), b"misfit" if code else b""))
        await asyncio.sleep(6.0)
        state = ("done", repr(r.response.exception()) if r.response.exception() else "response") if r.response.done() else ("pending", None)
        node.peer.send(node.S, rc.Msg(rc.ACK, rc.c(2, 5), q.mid, q.token, (), b"real"))
        await asyncio.sleep(1.0)
        final = None
        if r.response.done():
            final = repr(r.response.exception()) if r.response.exception() else bytes(r.response.result().payload)
        box.update(node=node, q=q, t_mis=t_mis, state=state, final=final, t_first=reqs[0].t)
        await node.stop()
        return True

    res = scenario.run(main, seed)
    if "inconc" in box or not res.ok:
        rep.inconc("misfit-same-mid scenario: %s" % (box.get("inconc") or (res.hang, res.error),))
        return
    node, q = box["node"], box["q"]
    rep.monitor("misfit_same_mid")
    copies = [e.t for e in node.net.log if e.kind == "send" and e.src == node.S and e.msg is not None and e.msg.mid == q.mid and rc.is_request(e.msg.code)]
    key = "%s-%s" % ("ACK" if typ == ACK else "RST", "request-code" if 1 <= code <= 31 else "response-code" if 64 <= code <= 191 else "reserved-code")
    w = dict(misfit=(typ, code), copies=[round(t, 4) for t in copies], state_after_6s=box["state"], final=repr(box["final"]), wire=node.net.dump(20))
    if box["state"][0] != "pending":
        rep.violation("misfit-not-ignored/same-mid/%s/request-ended" % key, "a message whose code and type do not fit, bearing the message ID of a request in flight, ended that request", w, case)
    elif len(copies) < 2:
        rep.violation("misfit-not-ignored/same-mid/%s/retransmission-stopped" % key, "a message whose code and type do not fit, bearing the message ID of a request in flight, stopped its retransmission", w, case)
    elif box["final"] != b"real":
        rep.violation("misfit-not-ignored/same-mid/%s/genuine-ack-lost" % key, "after a misfit message the genuine piggy-backed response did not complete the request", w, case)
    rep.case(("misfit-same-mid", typ, code), nontrivial=True)


def run_mc_send(seed, rep, case):
    """The node as a client towards a multicast address: default tuning -> NON; Reliable -> refused, nothing CON on the wire."""
    from harness import scenario, simnet, refcodec as rc
    import asyncio
    import aiocoap

    box = {}

    async def main(loop):
        node = await Node(loop).start(0)
        outcomes = []
        for tuning in (None, aiocoap.Reliable(), aiocoap.Unreliable(), "explicit-con", "explicit-con-blockwise"):
            kw = {"transport_tuning": tuning} if tuning is not None and not isinstance(tuning, str) else {}
            msg = aiocoap.Message(code=aiocoap.GET, uri="coap://[ff02::fd]/x", **kw)
            if isinstance(tuning, str):
                msg.mtype = aiocoap.CON  # the application insists on CON: must be refused, not transmitted
            r = node.srv.request(msg, handle_blockwise=(tuning == "explicit-con-blockwise"))
            try:
                await asyncio.wait_for(asyncio.shield(r.response), 5)
                outcomes.append("response")
            except asyncio.TimeoutError:
                outcomes.append("pending")
            except Exception as e:
                outcomes.append(type(e).__name__)
        box.update(node=node, outcomes=outcomes)
        await node.stop()
        return True

    res = scenario.run(main, seed)
    if not res.ok:
        rep.violation("mc-send/scenario-failed", "sending to a multicast address did not complete: hang=%r error=%r" % (res.hang, res.error), {}, case)
        return
    node = box["node"]
    check_multicast_invariant(node, rep, case, rc)
    sent_mc = [e for e in node.net.log if e.kind == "send" and e.src == node.S and e.dst[0] == "ff02::fd"]
    rep.count("mc_requests_on_wire", len(sent_mc))
    rep.case(("mc-send", tuple(box["outcomes"])), nontrivial=True)
