"""C19 — file server confinement, read-only mode, block-wise fetch.

The real `aiocoap.cli.fileserver.FileServer` is the site of two real server Contexts
(write disabled / enabled) on the simulated network; a raw peer (independent codec)
sends requests whose Uri-Path option lists cannot be written as URIs. Oracles:

  confinement        harness/fsguard.py: every file-system access made while a frame of
                     aiocoap/cli/fileserver.py is on the stack, resolved and compared
                     with the root                                  (statement, sentence 1a)
  outside_rejected   a request whose joined path resolves outside the root is answered
                     4.xx/5.xx and root + decoy snapshots are unchanged      (sentence 1b)
  nowrite_unchanged  write disabled: no mutating access, root snapshot unchanged (sent. 2)
  block_fetch        Block2 NUM=0.. until M=0, any SZX 0..6 (also switching size
                     mid-transfer): concatenation == file bytes              (sentence 3)
"""

import asyncio
import hashlib
import itertools
import os
import random
import shutil
import stat as statmod
import tempfile

ID = "C19"
LEVEL = "exploration"
TECHNIQUE = (
    "runtime monitoring of the real FileServer behind a real server Context on a simulated network: audit-hook + os.stat "
    "interposition attributes every file-system access to aiocoap/cli/fileserver.py by stack inspection and compares its "
    "realpath with the root; tree snapshots (names, sizes, modes, sha256) of root and decoy after every request; "
    "block-wise fetches reassembled by an independent raw peer and compared with the file"
)
LEVEL_TEXT = (
    "Held (or violated, see violations) on every generated request: all Uri-Path lists of length <= 3 (thorough: <= 4) over the "
    "path-significant alphabet x 7 methods x write on/off, directed absolute/dot-dot/slash families aimed at a decoy next to the "
    "root, seeded random longer lists with arbitrary Unicode, conditional and block options, and every file x SZX 0..6 fetched "
    "sequentially; says nothing about symlinks inside the root, concurrent modification by other processes, or other transports."
)
LEVEL_NOTE = (
    "Trusted: harness/fsguard.py (self-tested in every shard from a frame carrying the file server's file name: every pathlib/os/"
    "tempfile operation is seen, judged, and blocked before the effect when mutating outside the scratch area), harness/refcodec.py, "
    "Linux realpath semantics. C-level file access that raises no audit event and is not os.stat/lstat/access/readlink would be invisible."
)
RULE = (
    "one evaluation = one request sent to the real server and judged by all applicable oracles. A request is non-trivial when its "
    "Uri-Path list is non-empty; distinct = distinct (kind, write flag, method, per-component class sequence [empty, '.', '..', "
    "slash, NUL, long, unicode, decoy component, existing name, other], option kinds, response code, set of (access kind, inside?)) signatures"
)
ASSUMPTIONS = [
    "an access belongs to the file server iff a frame of aiocoap/cli/fileserver.py is on the Python stack when it is made (accesses made by the import machinery underneath such a frame are counted, not judged)",
    "mimetypes.init() is called before monitoring starts: otherwise the first mimetypes.guess_type() inside render_get_file reads /etc/mime.types and friends, which the stack rule would attribute to the file server although it is the standard library's one-time initialisation",
    "'would lead anywhere else' is decided by os.path.realpath(os.path.join(root, '/'.join(uri_path))) (a path containing NUL names nothing); symlinks inside the root are out of scope (none are created)",
    "'error response' = response code class 4 or 5 (or a Reset); 'no effect' = snapshots (names, types, sizes, modes, sha256) of root and of everything else in the scratch area identical before/after",
    "mutating accesses outside the root are blocked by the monitor unless they stay inside the shard's own scratch area under /dev/shm, where the real effect is allowed to happen so that it can be observed, and is repaired afterwards",
    "block-wise oracle judges only byte identity of the reassembled body and termination, not RFC 7959 details (M flag on an exact multiple, ETag, Size2)",
]
REQUIRED_MONITORS = {
    "quick": {"guard_selftest": 16, "confinement": 20000, "outside_rejected": 2000, "nowrite_unchanged": 10000, "block_fetch": 200, "block_fetch_bytes": 50000, "served_inside": 200},
    "thorough": {"guard_selftest": 16, "confinement": 200000, "outside_rejected": 20000, "nowrite_unchanged": 100000, "block_fetch": 1000, "block_fetch_bytes": 500000, "served_inside": 1000},
}
INTERPRETER = "venv"
SHIMS = False
EXHAUSTIVE = {
    "uri_path_lists_quick": "all lists of length 0..3 over {'', '.', '..', 'a', 'sub', 'a/b', '/', '/etc', 'x\\0y', 255-byte name, unicode name, each component of the decoy's absolute path} x {GET, POST, PUT, DELETE} x write {off, on}; length 0..2 for {FETCH, PATCH, iPATCH} (length 3 as well in the thorough tier)",
    "uri_path_lists_thorough": "additionally length 4 over the same alphabet x {GET, PUT, DELETE, POST} x write {off, on}, and length 0..3 over the alphabet extended by {'%2e%2e', '\\\\', '~', '...', ' ', '．．', 'a∕b'} x 7 methods x write {off, on}",
    "directed_families": "{'', '','' , '','','' , none, 'sub', '.', '..', 'sub','..'} x {absolute path of decoy dir, of root} x 15 suffixes; dot-dot and slash families; x {GET, PUT, DELETE, POST} x write {off, on}",
    "block_fetch": "every file of the tree x SZX 0..6 sequential from NUM 0; every file x (6 -> s) and (s -> 6) size switch; default (no Block2 in the first request)",
}
WORKER_TIMEOUT = {"quick": 600, "thorough": 3600}

GET, POST, PUT, DELETE, FETCH, PATCH, IPATCH = 1, 2, 3, 4, 5, 6, 7
METHOD_NAMES = {1: "GET", 2: "POST", 3: "PUT", 4: "DELETE", 5: "FETCH", 6: "PATCH", 7: "iPATCH"}
ALL_METHODS = [GET, POST, PUT, DELETE, FETCH, PATCH, IPATCH]

LONG = "L" * 255  # NAME_MAX bytes: exists in the tree
LONG300 = "M" * 300  # ENAMETOOLONG
UNI = "ünï-文件-😀.txt"
UNIDIR = "дир"
SIZES = [0, 1, 15, 16, 17, 1023, 1024, 1025, 5000]
BASE_ALPHABET = ["", ".", "..", "a", "sub", "a/b", "/", "/etc", "x\0y", "@LONG", "@UNI"]  # + "@D0".."@Dk" at run time
# characters that string-matching code is known to treat specially (line ends for regular expressions and
# str.splitlines, C0/C1 controls, Unicode separators, the other platform's separator); used to decorate components
SPECIALS = ["\0", "\n", "\r", "\r\n", "\t", "\x0b", "\x0c", "\x1c", "\x1f", "\x7f", "\x85", "\u2028", "\u2029", " ", "\\", "\ufeff"]
SPECIAL_SET = set("".join(SPECIALS)) - {" ", "\\", "\0"}
EXT_ALPHABET = ["%2e%2e", "\\", "~", "...", " ", "．．", "a∕b"]
PUT_BODY = b"C19-PUT-BODY"

RO_IP, RW_IP, PEER_IP = "10.0.0.1", "10.0.0.3", "10.0.0.2"


# ----------------------------------------------------------------------------------------
# plan


def plan(tier, seed):
    n = 16
    per = {"quick": 700, "thorough": 60000}[tier]
    return [{"name": "c19-%d" % i, "seed": seed * 1000 + i, "n": per, "index": i, "of": n, "tier": tier} for i in range(n)]


# ----------------------------------------------------------------------------------------
# tree


def content(rel, size):
    return random.Random("c19:" + "/".join(rel)).randbytes(size)


def tree_spec(tier):
    """-> (files {rel tuple: size}, empty dirs [rel tuple]) of the root; decoy separately."""
    files = {}
    for n in SIZES:
        files[("s%d.bin" % n,)] = n
    files[("a",)] = 17
    files[("sub", "a")] = 16
    files[("sub", "sub", "a")] = 1
    files[("sub", "inner.txt")] = 1025
    files[(UNI,)] = 1023
    files[(UNIDIR, "файл.txt")] = 5000
    files[(LONG,)] = 15
    files[("d1", "d2", "d3", "deep.bin")] = 1024
    files[("sp ace.txt",)] = 1
    files[(".hidden",)] = 16
    files[("outside", "secret.txt")] = 33  # same relative name as the decoy, inside the root
    if tier == "thorough":
        for szx in range(7):
            bs = 16 << szx
            for n in (bs - 1, bs, bs + 1, 2 * bs - 1, 2 * bs, 2 * bs + 1, 3 * bs):
                files[("t", "b%d" % n)] = n
        files[("t", "big10000")] = 10000
        files[("t", "big16385")] = 16385
    dirs = [("emptydir",), ("sub", "emptysub")]
    return files, dirs


DECOY_FILES = {("secret.txt",): 40, ("secret.bin",): 1500, ("a",): 17, ("sub", "a"): 16}
DECOY_TEXT = {("secret.txt",): b"TOP SECRET - outside the served root :-(\n"}


def build(top, files, dirs, tag):
    os.makedirs(top, exist_ok=True)
    for rel in dirs:
        os.makedirs(os.path.join(top, *rel), exist_ok=True)
    for rel, size in files.items():
        os.makedirs(os.path.join(top, *rel[:-1]), exist_ok=True)
        with open(os.path.join(top, *rel), "wb") as f:
            f.write(DECOY_TEXT[rel] if tag == "decoy" and rel in DECOY_TEXT else content((tag,) + rel, size))


_hash_cache = {}  # path -> ((ino, size, mtime_ns, ctime_ns), sha256)
hash_cache_usable = False  # set by calibrate_timestamps(): the file system shows every change in (size, mtime, ctime)


def calibrate_timestamps(scratch):
    """The snapshot may reuse a file's digest while (inode, size, mtime_ns, ctime_ns) are unchanged only
    if an in-place same-size overwrite right after a stat() always changes the timestamps here."""
    global hash_cache_usable
    p = os.path.join(scratch, "calibrate")
    same = 0
    for i in range(200):
        with open(p, "r+b" if i else "wb") as f:
            f.write(b"%04d" % i)
        st = os.stat(p)
        with open(p, "r+b") as f:
            f.write(b"XXXX")
        st2 = os.stat(p)
        if (st.st_mtime_ns, st.st_ctime_ns) == (st2.st_mtime_ns, st2.st_ctime_ns):
            same += 1
    os.unlink(p)
    hash_cache_usable = same == 0
    return hash_cache_usable


def snapshot(top, exclude=None, full=True):
    """{relative name: description}; names, types, sizes, permission bits, sha256.
    full=False reuses a digest when the file's (inode, size, mtime_ns, ctime_ns) are unchanged."""
    out = {}
    try:
        st = os.lstat(top)
    except OSError:
        return {"<top>": "missing"}
    if not statmod.S_ISDIR(st.st_mode):
        return {"<top>": "not-a-directory"}
    reuse = hash_cache_usable and not full
    out["./"] = ("d", statmod.S_IMODE(st.st_mode))
    stack = [(top, "")]
    while stack:
        d, rel = stack.pop()
        with os.scandir(d) as it:
            entries = sorted(it, key=lambda e: e.name)
        for e in entries:
            p = e.path
            if p == exclude:
                continue
            name = rel + e.name
            st = e.stat(follow_symlinks=False)
            mode = st.st_mode
            if statmod.S_ISDIR(mode):
                out[name + "/"] = ("d", statmod.S_IMODE(mode))
                stack.append((p, name + "/"))
            elif statmod.S_ISREG(mode):
                sig = (st.st_ino, st.st_size, st.st_mtime_ns, st.st_ctime_ns)
                c = _hash_cache.get(p) if reuse else None
                if c is not None and c[0] == sig:
                    h = c[1]
                else:
                    with open(p, "rb") as f:
                        h = hashlib.sha256(f.read()).hexdigest()
                    _hash_cache[p] = (sig, h)
                out[name] = ("f", st.st_size, statmod.S_IMODE(mode), h)
            elif statmod.S_ISLNK(mode):
                out[name] = ("l", os.readlink(p))
            else:
                out[name] = ("o", mode)
    return out


def snapdiff(a, b, limit=8):
    d = []
    for k in sorted(set(a) | set(b)):
        if a.get(k) != b.get(k):
            d.append({"name": k[:120], "before": a.get(k), "after": b.get(k)})
            if len(d) >= limit:
                break
    return d


# ----------------------------------------------------------------------------------------
# path model (independent of the implementation)


def mechanism(path):
    if any(p == ".." for p in path):
        return "dotdot-component"
    if any("/" in p for p in path):
        return "slash-in-component"
    if len(path) > 1 and path[0] == "":
        return "abs-path-via-leading-empty-segment"
    if any("\0" in p for p in path):
        return "nul-in-component"
    if any(p == "." for p in path):
        return "dot-component"
    return "plain-path"


def inside(resolved, root):
    return resolved == root or resolved.startswith(root + "/")


def leads_outside(root, path):
    """Does the joined path name something outside the root?  None = names nothing."""
    joined = "/".join(path)
    if "\0" in joined:
        return None
    try:
        r = os.path.realpath(os.path.join(root, joined))
    except (OSError, ValueError):
        return None
    return not inside(r, root)


def show(path):
    return [p if len(p) <= 40 else p[:12] + "…(%d chars)" % len(p) for p in path]


# ----------------------------------------------------------------------------------------
# the world: servers, peer, scratch area


class World:
    def __init__(self, rep, shard, loop):
        self.rep = rep
        self.shard = shard
        self.loop = loop
        self.tier = shard.get("tier", "quick")
        self.ntoken = 0
        self.pending = {}
        self.pending_mid = {}
        self.stray = 0
        self.requests = 0
        self.scratch = None

    # -- scratch ------------------------------------------------------------
    def make_scratch(self):
        base = "/dev/shm" if os.path.isdir("/dev/shm") and os.access("/dev/shm", os.W_OK) else None
        remove_stale_scratch(base or tempfile.gettempdir())
        self.scratch = os.path.realpath(tempfile.mkdtemp(prefix="c19-", dir=base))
        self.root = os.path.join(self.scratch, "root")
        self.outside = os.path.join(self.scratch, "outside")
        self.files, self.dirs = tree_spec(self.tier)
        if not calibrate_timestamps(self.scratch):
            self.rep.count("snapshot_digest_cache_disabled")
        self.rebuild(True, True)
        self.canon_root = snapshot(self.root)
        self.canon_rest = snapshot(self.scratch, exclude=self.root)
        self.cur_root, self.cur_rest = self.canon_root, self.canon_rest
        self.out_chain = [c for c in self.outside.split("/") if c]
        self.root_chain = [c for c in self.root.split("/") if c]
        self.secret_chain = self.out_chain + ["secret.txt"]
        self.existing_names = set()
        for rel in list(self.files) + self.dirs:
            self.existing_names.update(rel)
        self.decoy_names = set(self.secret_chain)

    def rebuild(self, root, rest):
        if rest:
            for name in os.listdir(self.scratch):
                p = os.path.join(self.scratch, name)
                if p == self.root:
                    continue
                if os.path.isdir(p) and not os.path.islink(p):
                    shutil.rmtree(p)
                else:
                    os.unlink(p)
            build(self.outside, DECOY_FILES, [], "decoy")
        if root:
            if os.path.islink(self.root) or os.path.isfile(self.root):
                os.unlink(self.root)
            shutil.rmtree(self.root, ignore_errors=True)
            build(self.root, self.files, self.dirs, "root")

    def remove_scratch(self):
        if self.scratch:
            shutil.rmtree(self.scratch, ignore_errors=True)

    def take_snapshots(self, full=True):
        from harness import fsguard

        with fsguard.paused():
            return snapshot(self.root, full=full), snapshot(self.scratch, exclude=self.root, full=full)

    def restore_if_needed(self):
        """End of a case: bring the scratch area back to the canonical state."""
        from harness import fsguard

        r, o = self.cur_root != self.canon_root, self.cur_rest != self.canon_rest
        if not (r or o):
            return
        with fsguard.paused():
            self.rebuild(r, o)
            a, b = snapshot(self.root), snapshot(self.scratch, exclude=self.root)
        if a != self.canon_root or b != self.canon_rest:
            raise RuntimeError("harness could not restore the canonical tree: %r %r" % (snapdiff(self.canon_root, a), snapdiff(self.canon_rest, b)))
        self.cur_root, self.cur_rest = self.canon_root, self.canon_rest
        self.rep.count("tree_restored")

    # -- token expansion ----------------------------------------------------
    def expand(self, toks):
        out = []
        for t in toks:
            if t == "@LONG":
                out.append(LONG)
            elif t == "@LONG300":
                out.append(LONG300)
            elif t == "@UNI":
                out.append(UNI)
            elif t == "@OUT":
                out.extend(self.out_chain)
            elif t == "@ROOT":
                out.extend(self.root_chain)
            elif t == "@ABS_SECRET":
                out.append(self.outside + "/secret.txt")
            elif t == "@ABS_OUT/":
                out.append(self.outside + "/")
            elif t == "@ABS_NEW":
                out.append(self.outside + "/planted-by-slash")
            elif t == "@SCRATCHNAME":
                out.append(os.path.basename(self.scratch))
            elif len(t) > 2 and t[:2] == "@D" and t[2:].isdigit():
                i = int(t[2:])
                out.append(self.secret_chain[i] if i < len(self.secret_chain) else "nochain%d" % i)
            else:
                # placeholders may be embedded in a decorated component ("@ABS_SECRET\n")
                out.append(t.replace("@ABS_SECRET", self.outside + "/secret.txt").replace("@ABS_OUT/", self.outside + "/").replace("@ABS_NEW", self.outside + "/planted-by-slash"))
        return out

    def comp_class(self, p):
        if p == "":
            return "E"
        if p == ".":
            return "D"
        if p == "..":
            return "DD"
        c = ""
        if "/" in p:
            c += "A" if p.startswith("/") else "S"
        if "\0" in p:
            c += "N"
        if any(ch in SPECIAL_SET for ch in p):
            c += "C"
        if len(p.encode("utf8")) >= 255:
            c += "L"
        if c:
            return c
        if p in self.decoy_names:
            return "X"
        if p in self.existing_names:
            return "K"
        if not p.isascii():
            return "U"
        return "O"

    # -- network ------------------------------------------------------------
    async def start(self):
        import logging
        from pathlib import Path
        from harness import simnet
        from aiocoap.cli.fileserver import FileServer

        self.net = simnet.SimNet(self.loop)
        self.net.log = _NullLog()  # the wire log is not needed and would grow without bound
        log = logging.getLogger("fileserver")
        self.fs = {}
        self.ctx = {}
        self.refresh = {}
        for w, ip in ((0, RO_IP), (1, RW_IP)):
            # exactly what FileServerProgram.start_with_options does
            self.fs[w] = FileServer(Path(self.root), log, write=bool(w))
            self.ctx[w] = await simnet.make_context(self.net, ip, 5683, self.fs[w])
            self.refresh[w] = asyncio.create_task(self.fs[w].check_files_for_refreshes())
        self.addr = {0: simnet.addr(RO_IP, 5683), 1: simnet.addr(RW_IP, 5683)}
        self.peer = simnet.RawPeer(self.net, PEER_IP, 40000, self.on_msg)

    async def stop(self):
        for t in self.refresh.values():
            t.cancel()
        for c in self.ctx.values():
            await c.shutdown()

    def on_msg(self, peer, src, m, raw):
        from harness import refcodec as rc

        if m is None:
            return
        if m.type == rc.CON:
            peer.send(src, rc.Msg(rc.ACK, 0, m.mid, b"", (), b""))
        if m.type == rc.RST or (m.type == rc.ACK and m.code == 0):
            fut = self.pending_mid.get(m.mid)
            if m.type == rc.RST and fut is not None and not fut.done():
                fut.set_result(m)
            return
        fut = self.pending.get(m.token)
        if fut is not None and not fut.done():
            fut.set_result(m)
        else:
            self.stray += 1

    async def send(self, write, code, path, opts=(), payload=b"", token=None):
        """One CON request; returns the response Msg (or None after 30 virtual seconds)."""
        from harness import refcodec as rc

        self.requests += 1
        if self.requests % 3000 == 0:
            # let EXCHANGE_LIFETIME pass so that 16-bit message IDs can never collide with a remembered one
            await asyncio.sleep(400)
        if token is None:
            self.ntoken += 1
            token = self.ntoken.to_bytes(5, "big")
        mid = self.peer.next_mid()
        options = tuple((rc.URI_PATH, p.encode("utf8")) for p in path) + tuple((n, bytes(v)) for n, v in opts)
        fut = self.loop.create_future()
        self.pending[token] = fut
        self.pending_mid[mid] = fut
        try:
            self.peer.send(self.addr[write], rc.Msg(rc.CON, code, mid, token, options, payload))
            try:
                return await asyncio.wait_for(fut, 30)
            except asyncio.TimeoutError:
                return None
        finally:
            self.pending.pop(token, None)
            self.pending_mid.pop(mid, None)

    # -- one judged request ---------------------------------------------------
    async def request(self, case, kind, write, method, path, opts=(), payload=b"", token=None, settle=0.0):
        """Send, then judge oracles (a), (b), (c). Returns (response, accesses)."""
        from harness import fsguard, refcodec as rc

        rep = self.rep
        idle = fsguard.drain()
        if idle:  # made between cases (refresh loop): nothing should be left to watch, judge anyway
            rep.count("accesses_outside_request_windows", len(idle))
            self.judge(case, "idle", write, GET, ["<idle>"], (), None, idle, self.cur_root, self.cur_rest, deferred=True, mech="idle-refresh-loop")
        resp = await self.send(write, method, path, opts, payload, token=token)
        if settle:
            await asyncio.sleep(settle)
        acc = fsguard.drain()
        before_root, before_rest = self.cur_root, self.cur_rest
        # every file is re-read when the monitor saw a modifying call, when a call could not be resolved, and
        # periodically; otherwise digests are reused for files whose inode/size/mtime/ctime are unchanged
        full = self.requests % 50 == 0 or any(a["mutating"] or a["inside"] is None for a in acc)
        rep.count("snapshots_full" if full else "snapshots_stat_only")
        self.cur_root, self.cur_rest = self.take_snapshots(full=full)
        self.judge(case, kind, write, method, path, opts, resp, acc, before_root, before_rest)
        return resp, acc

    def judge(self, case, kind, write, method, path, opts, resp, acc, before_root, before_rest, deferred=False, mech=None):
        from harness import refcodec as rc

        rep = self.rep
        mech = mech or mechanism(path)
        code = None if resp is None else ("RST" if resp.type == rc.RST else rc.code_str(resp.code))
        req = {"method": METHOD_NAMES.get(method, method), "uri_path": show(path), "write_enabled": bool(write), "options": [(n, bytes(v).hex()[:40]) for n, v in opts]}
        if deferred:
            req["note"] = "accesses made by check_files_for_refreshes after the observation request"
        answer = {"code": code, "payload": (resp.payload[:80].decode("utf8", "replace") if resp is not None else None)}

        # (a) confinement ----------------------------------------------------------------
        for a in acc:
            rep.monitor("confinement")
            if a["inside"] is None:
                rep.count("access_unresolvable_" + (a["note"] or "?"))
                continue
            rep.count("access_%s_%s" % (a["kind"], "inside" if a["inside"] else "OUTSIDE"))
            if a["inside"]:
                continue
            effect = {"stat": "outside-stat", "read": "outside-read", "list": "outside-list", "write": "outside-write", "delete": "outside-delete", "exec": "outside-exec"}[a["kind"]]
            rep.violation(
                "%s/%s" % (effect, mech),
                "the file server %s %s, which is outside its root directory (%s)" % ({"stat": "stat()s", "read": "opens for reading", "list": "lists", "write": "creates/replaces/modifies", "delete": "deletes", "exec": "starts a process"}[a["kind"]], "a path" if a["kind"] != "exec" else "", mech),
                {"request": req, "response": answer, "access": {k: a[k] for k in ("op", "kind", "raw", "resolved", "blocked", "where")}, "root": self.root, "blocked_by_monitor": a["blocked"]},
                case,
            )

        if deferred:
            return
        # (b) a request leading outside: error response, no effect --------------------------
        lo = leads_outside(self.root, path)
        root_changed = self.cur_root != before_root
        rest_changed = self.cur_rest != before_rest
        if lo:
            rep.monitor("outside_rejected")
            if resp is None:
                rep.violation("outside-unanswered/" + mech, "a request whose path leads outside the root got no response at all", {"request": req}, case)
            elif resp.type != rc.RST and (resp.code >> 5) not in (4, 5):
                rep.violation(
                    "outside-answered-success/" + mech,
                    "a request whose joined path resolves outside the root was answered %s instead of an error response" % code,
                    {"request": req, "response": answer, "resolves_to": os.path.realpath(os.path.join(self.root, "/".join(path))), "root": self.root},
                    case,
                )
            if root_changed:
                rep.violation("outside-effect/%s/root-changed" % mech, "a request whose path leads outside the root changed the root tree", {"request": req, "response": answer, "diff": snapdiff(before_root, self.cur_root)}, case)
        if rest_changed:
            # nothing the file server is allowed to do can change anything next to its root
            rep.violation(
                "outside-effect/%s/decoy-changed" % mech,
                "a request changed the file system outside the root (decoy directory next to it)",
                {"request": req, "response": answer, "diff": snapdiff(before_rest, self.cur_rest)},
                case,
            )
        # (c) write disabled -------------------------------------------------------------
        if not write:
            rep.monitor("nowrite_unchanged")
            for a in acc:
                if a["mutating"]:
                    rep.violation(
                        "modified-without-write/" + a["op"],
                        "with write support disabled the file server performed a modifying file-system operation",
                        {"request": req, "response": answer, "access": {k: a[k] for k in ("op", "kind", "raw", "resolved", "inside", "blocked", "where")}},
                        case,
                    )
            if root_changed:
                rep.violation("modified-without-write/snapshot-differs", "with write support disabled a request changed the served tree", {"request": req, "response": answer, "diff": snapdiff(before_root, self.cur_root)}, case)
        # statistics ----------------------------------------------------------------------
        rep.seen("responses", "%s %s" % (METHOD_NAMES.get(method, method), code))
        if write and root_changed and not lo:
            rep.count("legit_modifications")
        sig = (kind, write, method, tuple(self.comp_class(p) for p in path[:10]), tuple(sorted({n for n, _ in opts})), code, tuple(sorted({(a["kind"], str(a["inside"])) for a in acc})))
        rep.case(sig, nontrivial=bool(path))
        if self.requests % 997 == 1:
            rep.sample({"request": req, "response": answer, "accesses": [(a["op"], a["resolved"] if a["resolved"] is None else a["resolved"][-60:], a["inside"]) for a in acc][:6]})


def remove_stale_scratch(base, older_than=3 * 3600):
    """A worker killed by the runner's wall-clock watchdog cannot run its `finally`; scratch areas of this
    check that are older than any worker can be (timeout 1 h) are removed by the next run."""
    now = vloop_real_time()
    try:
        names = os.listdir(base)
    except OSError:
        return
    for n in names:
        if n.startswith("c19-"):
            p = os.path.join(base, n)
            try:
                if os.path.isdir(p) and not os.path.islink(p) and now - os.lstat(p).st_mtime > older_than:
                    shutil.rmtree(p, ignore_errors=True)
            except OSError:
                pass


def vloop_real_time():
    from harness import vloop

    return vloop._real_time()


class _NullLog(list):
    def append(self, x):
        pass


# ----------------------------------------------------------------------------------------
# case generators (every case is a self-contained JSON value)


def lists_upto(alpha, n):
    yield []
    for k in range(1, n + 1):
        for t in itertools.product(alpha, repeat=k):
            yield list(t)


def exhaustive_cases(tier, nchain):
    base = BASE_ALPHABET + ["@D%d" % i for i in range(nchain)]
    cheap = (FETCH, PATCH, IPATCH)  # no render_* method exists for them: 4.05 without any file-system access
    for w in (0, 1):
        for m in ALL_METHODS:
            for p in lists_upto(base, 2 if (m in cheap and tier == "quick") else 3):
                yield {"k": "ex", "w": w, "m": m, "p": p}
    if tier == "thorough":
        for w in (0, 1):
            for m in (GET, PUT, DELETE, POST):
                for t in itertools.product(base, repeat=4):
                    yield {"k": "ex", "w": w, "m": m, "p": list(t)}
        ext = base + EXT_ALPHABET
        extset = set(EXT_ALPHABET)
        for w in (0, 1):
            for m in ALL_METHODS:
                for p in lists_upto(ext, 3):
                    if extset.intersection(p):
                        yield {"k": "ex", "w": w, "m": m, "p": p}


def canonical_cases():
    """One fixed, minimal witness scenario per mechanism seen on the reference tree; run first by shard 0 so
    that each run re-observes (or confirms as repaired) every listed finding with the same witness."""
    return [
        {"k": "dir", "w": 0, "m": GET, "p": ["", "@OUT", "secret.txt"]},  # stat + read outside, answered 2.05
        {"k": "dir", "w": 0, "m": GET, "p": ["", ""]},  # lists the file system root
        {"k": "dir", "w": 0, "m": GET, "p": ["", "@OUT", ""]},  # lists the decoy directory
        {"k": "dir", "w": 1, "m": PUT, "p": ["", "@OUT", "planted.txt"]},  # creates a file outside
        {"k": "dir", "w": 1, "m": PUT, "p": ["", "@OUT", "secret.txt"]},  # replaces a file outside
        {"k": "dir", "w": 1, "m": DELETE, "p": ["", "@OUT", "secret.txt"]},  # deletes a file outside
        {"k": "dir", "w": 0, "m": PUT, "p": ["", "@OUT", "planted.txt"]},  # write disabled: must be refused
        {"k": "dir", "w": 0, "m": DELETE, "p": ["", "@OUT", "secret.txt"]},
    ]


def directed_cases():
    prefixes = [[""], ["", ""], ["", "", ""], [], ["sub"], ["."], [".."], ["sub", ".."]]
    out_suffixes = [["secret.txt"], ["secret.bin"], [""], [], ["a"], ["sub", "a"], ["sub", ""], ["nonexistent"], ["new.txt"], ["secret.txt", ""], ["..", "outside", "secret.txt"], ["x\0y"], ["@LONG300"], ["."], ["secret.txt", "x"]]
    root_suffixes = [["a"], [""], ["sub", "a"], ["new.txt"], ["..", "outside", "secret.txt"], ["..", "outside", "new.txt"]]
    paths = []
    for pre in prefixes:
        for suf in out_suffixes:
            paths.append(pre + ["@OUT"] + suf)
        for suf in root_suffixes:
            paths.append(pre + ["@ROOT"] + suf)
    explicit = [
        ["..", "outside", "secret.txt"],
        ["..", "outside", "new.txt"],
        ["..", "outside", ""],
        ["..", ""],
        ["..", "planted-next-to-root"],
        ["sub", "..", "..", "outside", "secret.txt"],
        ["sub", "sub", "..", "..", "..", "outside", "secret.txt"],
        ["d1", "d2", "d3", "..", "..", "..", "..", "outside", "a"],
        ["a", "..", "..", "outside", "secret.txt"],
        ["..", "root", "a"],
        ["..", "@SCRATCHNAME", "root", "a"],
        ["sub", "..", "a"],
        ["../outside/secret.txt"],
        ["../outside/new.txt"],
        ["sub/../../outside/secret.txt"],
        ["sub", "../../outside/secret.txt"],
        ["@ABS_SECRET"],
        ["@ABS_NEW"],
        ["@ABS_OUT/"],
        ["@ABS_OUT/", ""],
        ["sub", "@ABS_SECRET"],
        ["sub/a"],
        ["sub/"],
        ["/"],
        ["/", ""],
        ["", ""],
        ["", "", ""],
        ["", "."],
        ["", "nonexistent-at-fs-root-c19"],
    ]
    paths += explicit
    for w in (0, 1):
        for m in (GET, PUT, DELETE, POST):
            for p in paths:
                yield {"k": "dir", "w": w, "m": m, "p": p}
    # every path-significant component (navigation entry, embedded or leading slash) of the directed paths once
    # more with each special character put before it, behind it and inside it: a validation that recognises the
    # component by pattern must not be put off by the decoration
    seen = set()
    for p in explicit + [["", "@OUT", ".", "secret.txt"], ["", "@OUT", "..", "outside", "secret.txt"]]:
        for i, c in enumerate(p):
            if not ("/" in c or c in ("", ".", "..") or c.startswith("@ABS")):
                continue
            for s in SPECIALS:
                for d in (c + s, s + c, c[: len(c) // 2] + s + c[len(c) // 2 :] if not c.startswith("@") else c + s + "x"):
                    q = p[:i] + [d] + p[i + 1 :]
                    if tuple(q) in seen:
                        continue
                    seen.add(tuple(q))
                    for w, m in ((0, GET), (1, GET), (1, PUT), (1, DELETE), (0, PUT)):
                        yield {"k": "dir", "w": w, "m": m, "p": q}


def block_cases(files):
    rels = sorted(files, key=lambda r: (len(r), r))
    for rel in rels:
        for s in range(7):
            yield {"k": "blk", "f": list(rel), "plan": [[s, 0]]}
        yield {"k": "blk", "f": list(rel), "plan": []}  # no Block2 in the first request
        for s in range(6):
            yield {"k": "blk", "f": list(rel), "plan": [[6, 1], [s, 0]]}  # one 1024-byte block, then smaller
            yield {"k": "blk", "f": list(rel), "plan": [[s, 1 << (6 - s)], [6, 0]]}  # 1024 bytes in small blocks, then 1024-byte blocks
        yield {"k": "blk", "f": list(rel), "plan": [[0, 4], [2, 3], [1, 6], [3, 0]]}
        # size exponent 7 (RFC 8323 BERT: the block number counts 1024-byte units); a server may refuse it
        # on a datagram transport, but whatever it serves must still be the file's bytes
        yield {"k": "blk", "f": list(rel), "plan": [[7, 0]]}
        yield {"k": "blk", "f": list(rel), "plan": [[6, 1], [7, 0]]}
        yield {"k": "blk", "f": list(rel), "plan": [[7, 1], [3, 0]]}


def uni_string(r):
    ranges = [(0x20, 0x7E), (0xA0, 0x24F), (0x370, 0x3FF), (0x400, 0x4FF), (0x5D0, 0x5EA), (0x600, 0x6FF), (0x300, 0x36F), (0x2000, 0x206F), (0x4E00, 0x4FFF), (0xFF00, 0xFF5E), (0x1F600, 0x1F64F), (0xE000, 0xE0FF), (0x1, 0x1F), (0x7F, 0x9F), (0x2215, 0x2215), (0xFEFF, 0xFEFF)]
    n = r.choice([1, 1, 2, 3, 5, 8, 20, 60])
    out = []
    for _ in range(n):
        lo, hi = r.choice(ranges)
        out.append(chr(r.randint(lo, hi)))
    return "".join(out)


def random_component(r, w):
    k = r.random()
    if k < 0.35:
        return r.choice(BASE_ALPHABET)
    if k < 0.45:
        return r.choice(EXT_ALPHABET + ["@LONG300", "\0", "a\0", "..\0", "\0/..", "../..", "..//", "/..", "./", "//", "sub/..", ". ", " ..", "..."])
    if k < 0.7:
        return r.choice(sorted(w.existing_names - {LONG, UNI}) + ["@UNI", "@LONG"])
    if k < 0.8:
        return "@D%d" % r.randrange(len(w.secret_chain))
    if k < 0.85:
        return r.choice(["new.txt", "n1", "n2", "tmpabc", "NEW"])
    return uni_string(r)


def random_path(r, w):
    shape = r.random()
    if shape < 0.3:  # attack: empties + chain + suffix
        p = [""] * r.choice([1, 1, 1, 2, 3])
        chain = r.choice(["@OUT", "@OUT", "@ROOT"])
        if r.random() < 0.15:
            p += ["dev", "shm"]  # a truncated chain
        else:
            p.append(chain)
        p += r.choice([["secret.txt"], ["secret.bin"], ["a"], [""], [], ["sub", "a"], ["new-%d" % r.randrange(3)], [random_component(r, w)], ["..", "outside", "secret.txt"], ["s5000.bin"]])
        if r.random() < 0.2:
            p.insert(r.randrange(len(p) + 1), random_component(r, w))
        return p
    if shape < 0.6:  # a legitimate file or directory, perturbed
        rel = list(r.choice(sorted(w.files) + [tuple(d) + ("",) for d in w.dirs] + [("sub", ""), ("",), ("d1", "d2", "")]))
        rel = ["@LONG" if c == LONG else "@UNI" if c == UNI else c for c in rel]
        for _ in range(r.choice([0, 0, 1, 1, 2])):
            rel.insert(r.randrange(len(rel) + 1), r.choice(["", ".", "..", random_component(r, w)]))
        return rel
    n = r.choice([1, 2, 3, 4, 4, 5, 6, 8, 12])
    return [random_component(r, w) for _ in range(n)]


def random_opts(r, method):
    """symbolic options: [number, hex] or [number, '@ETAG'] / [number, '@WRONGETAG']"""
    o = []
    if r.random() < 0.25:
        o.append([1, r.choice(["@ETAG", "@ETAG", "@WRONGETAG", ""])])  # If-Match
    if r.random() < 0.15:
        o.append([5, ""])  # If-None-Match
    if r.random() < 0.2:
        o.append([4, r.choice(["@ETAG", "@WRONGETAG", "00"])])  # ETag
        if r.random() < 0.3:
            o.append([4, "0102030405060708"])
    if r.random() < 0.3:
        num = r.choice([0, 0, 1, 2, 4, 5, 63, 312, 313, 1000, 2**20 - 1])
        o.append([23, _block_hex(num, r.random() < 0.2, r.choice([0, 1, 2, 3, 4, 5, 6, 6, 7]))])
    if method in (PUT, POST, FETCH, PATCH, IPATCH) and r.random() < 0.2:
        o.append([27, _block_hex(0, False, r.choice([0, 3, 6]))])
    if method == GET and r.random() < 0.1:
        o.append([6, ""])  # Observe: register
    if r.random() < 0.1:
        o.append([12, r.choice(["", "28", "2a"])])
    if r.random() < 0.1:
        o.append([15, "783d2e2e2f"])  # Uri-Query x=../
    if r.random() < 0.05:
        o.append([60, "0400"])
    return sorted(o, key=lambda x: x[0])


def _block_hex(num, more, szx):
    v = (num << 4) | (8 if more else 0) | szx
    return v.to_bytes((v.bit_length() + 7) // 8, "big").hex()


def random_cases(r, w, n):
    for i in range(n):
        k = r.random()
        if k < 0.08:
            yield {"k": "cycle", "w": r.randrange(2), "p": random_path(r, w) if r.random() < 0.6 else r.choice([["cycle-new.txt"], ["sub", "cycle-new"], ["@UNI"], ["a"], ["emptydir", "x"]]), "n": r.choice([0, 1, 17, 1024, 1025, 3000]), "s": r.randrange(1000)}
        elif k < 0.12:
            yield {"k": "obs", "w": r.randrange(2), "p": random_path(r, w) if r.random() < 0.7 else r.choice([["a"], ["sub", "a"], ["", "@OUT", "secret.txt"]]), "touch": r.random() < 0.5}
        else:
            m = r.choice([GET, GET, GET, PUT, PUT, DELETE, DELETE, POST, FETCH, PATCH, IPATCH])
            yield {"k": "rnd", "w": r.randrange(2), "m": m, "p": random_path(r, w), "o": random_opts(r, m), "pl": [r.choice([0, 0, 1, 12, 100, 1024, 1500]), r.randrange(1000)] if m != GET or r.random() < 0.1 else [0, 0]}


# ----------------------------------------------------------------------------------------
# case execution


def payload_of(pl):
    n, s = pl
    return random.Random("c19pl:%d" % s).randbytes(n) if n else b""


async def current_etag(w, case, write, path):
    """The entity tag the server currently hands out for `path` (None if it does not)."""
    resp, _ = await w.request(case, "etag-probe", write, GET, path, [(4, b"\xee\xee")])
    if resp is None:
        return None
    for n, v in resp.options:
        if n == 4:
            return v
    return None


async def run_simple(w, case, kind):
    path = w.expand(case["p"])
    method = case["m"]
    opts = []
    sym = case.get("o") or []
    etag = None
    if any(v in ("@ETAG", "@WRONGETAG") for _, v in sym):
        etag = await current_etag(w, case, case["w"], path)
    for n, v in sym:
        if v == "@ETAG":
            if etag is None:
                continue
            opts.append((n, etag))
        elif v == "@WRONGETAG":
            opts.append((n, bytes(b ^ 0x55 for b in (etag or b"\x01\x02\x03\x04"))))
        else:
            opts.append((n, bytes.fromhex(v)))
    if kind == "ex" or kind == "dir":
        payload = PUT_BODY if method in (PUT, POST, FETCH, PATCH, IPATCH) else b""
    else:
        payload = payload_of(case.get("pl") or [0, 0])
    observing = any(n == 6 for n, _ in opts)
    tok = None
    if observing:
        w.ntoken += 1
        tok = w.ntoken.to_bytes(5, "big")
    await w.request(case, kind, case["w"], method, path, opts, payload, token=tok)
    if observing:
        await finish_observation(w, case, case["w"], path, tok, touch=False)


async def finish_observation(w, case, write, path, tok, touch):
    """Let check_files_for_refreshes run twice (it stat()s every observed path), judge what it
    touched, then deregister."""
    from harness import fsguard

    if touch and leads_outside(w.root, path) is False:
        with fsguard.paused():
            try:
                target = os.path.realpath(os.path.join(w.root, "/".join(path)))
                if os.path.isfile(target) and inside(target, w.root):
                    with open(target, "ab") as f:
                        f.write(b"+touched by the harness")
            except (OSError, ValueError):
                pass
        w.cur_root, w.cur_rest = w.take_snapshots()
    fsguard.drain()
    await asyncio.sleep(25)
    acc = fsguard.drain()
    before = (w.cur_root, w.cur_rest)
    w.cur_root, w.cur_rest = w.take_snapshots()
    w.judge(case, "obs-refresh", write, GET, path, [(6, b"")], None, acc, before[0], before[1], deferred=True)
    if w.cur_rest != before[1] or (not write and w.cur_root != before[0]):
        w.rep.violation("deferred-effect/" + mechanism(path), "the refresh loop changed the file system", {"uri_path": show(path), "diff": snapdiff(before[0], w.cur_root) + snapdiff(before[1], w.cur_rest)}, case)
    w.rep.count("observation_refresh_accesses", len(acc))
    await w.request(case, "obs-cancel", write, GET, path, [(6, b"\x01")], token=tok)
    # whatever happened, no observation may survive the case (its stat()s would be charged to later cases)
    for fs in w.fs.values():
        obs = getattr(fs, "_observations", None)
        if isinstance(obs, dict):
            for k, v in list(obs.items()):
                if not v[1]:
                    del obs[k]  # the server keeps stat()ing a path after its last observer left; drop it for case isolation
                else:
                    w.rep.count("observation_survived_cancel")
    await asyncio.sleep(11)
    fsguard.drain()


async def run_obs(w, case):
    path = w.expand(case["p"])
    w.ntoken += 1
    tok = w.ntoken.to_bytes(5, "big")
    await w.request(case, "obs", case["w"], GET, path, [(6, b"")], token=tok)
    await finish_observation(w, case, case["w"], path, tok, touch=case.get("touch", False))


async def run_cycle(w, case):
    """create / read / conditional replace / conditional delete on one path, as tests/test_fileserver does."""
    path = w.expand(case["p"])
    wr = case["w"]
    body = payload_of([case["n"], case["s"]])
    r1, _ = await w.request(case, "cycle-put-inm", wr, PUT, path, [(5, b"")], body)
    et = await current_etag(w, case, wr, path)
    await w.request(case, "cycle-get", wr, GET, path, [(4, et)] if et else [])
    if wr and r1 is not None and (r1.code >> 5) == 2 and leads_outside(w.root, path) is False:
        await block_fetch(w, case, wr, path, [[r_szx, 0] for r_szx in (case["s"] % 7,)], label="after-put")
    await w.request(case, "cycle-put-inm2", wr, PUT, path, [(5, b"")], body + b"2")
    await w.request(case, "cycle-put-ifmatch-wrong", wr, PUT, path, [(1, b"\x99" * 8)], body + b"3")
    if et:
        await w.request(case, "cycle-put-ifmatch", wr, PUT, path, [(1, et)], body + b"4")
    await w.request(case, "cycle-del-ifmatch-wrong", wr, DELETE, path, [(1, b"\x99" * 8)])
    et2 = await current_etag(w, case, wr, path)
    await w.request(case, "cycle-del", wr, DELETE, path, [(1, et2)] if et2 else [])
    await w.request(case, "cycle-get-gone", wr, GET, path)


async def block_fetch(w, case, write, path, plan, label="tree"):
    """(d) fetch `path` block by block following `plan` = [[szx, number of blocks or 0 = rest], ...]
    (empty plan: no Block2 option in the first request, then the server's size), concatenate the
    payloads in the order received and compare with the file's bytes."""
    from harness import fsguard, refcodec as rc

    rep = w.rep
    with fsguard.paused():
        try:
            with open(os.path.join(w.root, "/".join(path)), "rb") as f:
                want = f.read()
        except (OSError, ValueError):
            rep.count("block_fetch_unreadable_by_harness")
            return
    def unit(szx):
        return 16 << min(szx, 6)  # exponent 7 counts 1024-byte units

    got = bytearray()
    pos = 0  # the client's position: end of the last block received, as described by its Block2 option
    steps = [list(s) for s in plan]
    want_szx = steps[0][0] if steps else None
    prev_szx = want_szx
    limit = len(want) // 16 + 8
    planname = "default" if not plan else ("szx%d" % plan[0][0] if len(plan) == 1 else "switch-" + "-".join(str(s[0]) for s in plan))
    req_desc = {"uri_path": show(path), "plan": plan, "file_size": len(want), "write_enabled": bool(write)}
    n = 0
    outcome = None
    while True:
        n += 1
        if n > limit:
            outcome = ("no-termination", "the transfer did not end after %d blocks" % limit)
            break
        if want_szx is None:
            use = None
            opts = []
        else:
            use = want_szx
            if pos % unit(use):
                rep.count("block_plan_misaligned")  # this offset cannot be expressed in the planned size yet
                use = prev_szx
            opts = [(23, rc.block_bytes(pos // unit(use), False, use))]
        resp, _ = await w.request(case, "blk", write, GET, path, opts)
        if use == 7 and resp is not None and resp.type != rc.RST and (resp.code >> 5) == 4:
            rep.count("block_szx7_refused")
            rep.monitor("block_fetch")
            return
        if resp is None or resp.type == rc.RST or (resp.code >> 5) != 2:
            outcome = ("error-response", "block request %r answered %s" % (opts, None if resp is None else rc.code_str(resp.code)))
            break
        b2 = rc.opt1(resp, 23)
        if b2 is None:  # whole (rest of the) representation in this response
            got += resp.payload
            rep.monitor("block_fetch_bytes", len(resp.payload))
            if pos:
                rep.count("block2_absent_mid_transfer")
            break
        rnum, more, rszx = rc.block_value(b2)
        if rszx > 6 and use != 7:
            outcome = ("bad-szx", "response carries SZX 7")
            break
        if rnum * unit(rszx) != pos:
            outcome = ("offset-mismatch", "asked for offset %d, response describes offset %d" % (pos, rnum * unit(rszx)))
            break
        if more and (len(resp.payload) % unit(rszx) or not resp.payload):
            outcome = ("odd-block", "non-final block of %d bytes with size exponent %d" % (len(resp.payload), rszx))
            break
        got += resp.payload
        rep.monitor("block_fetch_bytes", len(resp.payload))
        if not more:
            break
        pos = rnum * unit(rszx) + len(resp.payload) if rszx == 7 else (rnum + 1) * (16 << rszx)
        prev_szx = rszx
        if want_szx is None or rszx < use:
            want_szx = rszx  # follow the server's choice / reduction
        elif steps and steps[0][1]:
            steps[0][1] -= 1
            if steps[0][1] == 0 and len(steps) > 1:
                steps.pop(0)
                want_szx = steps[0][0]
    rep.monitor("block_fetch")
    got = bytes(got)
    if outcome is None and got != want:
        if want.startswith(got):
            outcome = ("truncated", "reassembled body is a proper prefix (%d of %d bytes)" % (len(got), len(want)))
        elif got.startswith(want):
            outcome = ("extended", "reassembled body has %d extra bytes" % (len(got) - len(want)))
        else:
            first = next((i for i in range(min(len(got), len(want))) if got[i] != want[i]), min(len(got), len(want)))
            outcome = ("content", "reassembled body differs from the file from byte %d on (%d vs %d bytes)" % (first, len(got), len(want)))
    if outcome is not None:
        rep.violation(
            "block-fetch-differs/%s/%s" % (outcome[0], "size-switch" if len(plan) > 1 else ("default-size" if not plan else "fixed-size")),
            "a file fetched block by block is not byte-identical to the file: " + outcome[1],
            {"request": req_desc, "plan": planname, "got_len": len(got), "got_head": got[:24].hex(), "want_head": want[:24].hex(), "blocks": n},
            case,
        )
    else:
        rep.monitor("served_inside")
        rep.seen("block_plans", "%s/%s" % (label, planname))


async def run_case(w, case):
    k = case["k"]
    try:
        if k in ("ex", "dir", "rnd"):
            await run_simple(w, case, k)
        elif k == "blk":
            await block_fetch(w, case, case.get("w", 0), w.expand(case["f"]), case["plan"])
        elif k == "cycle":
            await run_cycle(w, case)
        elif k == "obs":
            await run_obs(w, case)
        else:
            raise ValueError("unknown case kind %r" % (k,))
    finally:
        w.restore_if_needed()


def shard_cases(w, shard):
    idx, of = shard["index"], shard["of"]
    if idx == 0:
        yield from canonical_cases()
    i = 0
    for c in itertools.chain(directed_cases(), block_cases(w.files), exhaustive_cases(w.tier, len(w.secret_chain))):
        if i % of == idx:
            yield c
        i += 1
    r = random.Random(shard["seed"])
    yield from random_cases(r, w, shard["n"])


def run_shard(shard, rep, only=None):
    import logging
    import mimetypes
    from harness import vloop, refcodec as rc, fsguard

    assert rc.selftest()
    vloop.install_time()
    import aiocoap  # noqa: F401
    import aiocoap.cli.fileserver as fileserver_module

    mimetypes.init()  # see ASSUMPTIONS
    logging.disable(logging.CRITICAL)  # 5.00 tracebacks are not evidence here and cost time
    fsguard.install([fileserver_module.__file__])
    loop = vloop.new_loop()
    w = World(rep, shard, loop)
    try:
        w.make_scratch()
        try:
            rep.monitor("guard_selftest", 1 if fsguard.selftest(w.scratch) > 0 else 0)
        except fsguard.SelfTestFailed as e:
            rep.inconc("fsguard self-test failed on this interpreter: %s" % e)
            return
        fsguard.set_root(w.root, sacrificial=[w.scratch])
        fsguard.enable()

        async def main():
            await w.start()
            try:
                # warm-up (imports, caches) — judged like everything else
                await run_case(w, {"k": "rnd", "w": 1, "m": PUT, "p": ["warmup.txt"], "o": [], "pl": [10, 1]})
                await run_case(w, {"k": "rnd", "w": 0, "m": GET, "p": ["a"], "o": [], "pl": [0, 0]})
                if only is not None:
                    await run_case(w, only)
                    return
                budget = 0.85 * float(os.environ.get("VERIF_WORKER_WALL", "0") or 0)
                t0 = vloop_real_time()
                ncases = 0
                for case in shard_cases(w, shard):
                    await run_case(w, case)
                    ncases += 1
                    if budget and ncases % 256 == 0 and vloop_real_time() - t0 > budget:
                        # never a verdict: the machine was too slow for the planned workload
                        rep.inconc("shard %s stopped after %d cases: wall-clock budget of %.0f s used up (violations found so far are reported)" % (shard.get("name"), ncases, budget))
                        break
            finally:
                fsguard.disable()
                await w.stop()

        loop.run_until_complete(main())
        if loop.exceptions:
            rep.count("loop_exceptions", len(loop.exceptions))
        if fsguard.stats["hook_errors"]:
            rep.inconc("fsguard raised internally: %r" % fsguard.hook_errors)
        rep.count("accesses_during_import_not_judged", fsguard.stats["during_import"])
        rep.count("mutations_blocked_by_monitor", fsguard.stats["blocked"])
        rep.count("requests", w.requests)
    finally:
        fsguard.disable()
        vloop.close_loop(loop)
        w.remove_scratch()
